#!/bin/sh
# tools/tryb.sh <benign-or-seed dir> <PROP>: apply patch to /repo, run one check, undo
cd /repo && git apply "$1/patch.diff" || exit 3
cd /verif && /venv/bin/python -m sa.check "$2" --no-write | grep -v "^  rule \|^property\|^  note" | grep -v "^VIOLATION" | cut -c1-420
cd /repo && git checkout -- .
