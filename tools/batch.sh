#!/bin/sh
# tools/batch.sh <dir with seed dirs>: verify each seed in a scratch worktree, then run all checks on it
# (patches /repo temporarily; never run while a vp run / vp check reads /repo)
for s in "$1"/*/; do
  s=${s%/}
  [ -f "$s/patch.diff" ] || continue
  v=$(python3 /verif/tools/seed.py verify "$s" | tr -d '\n' | python3 -c "import sys,json; d=json.loads(sys.stdin.read()); print('clean=%s apply=%s tests=[%s] patched=%s' % (d.get('demo_clean_rc'), d.get('apply_rc'), d.get('tests_tail','')[:22], d.get('demo_patched_rc')))")
  c=$(python3 /verif/tools/seed.py check "$s" | tr -d '\n ')
  echo "$(basename $s): $v :: $c"
done
git -C /repo status --short
