#!/usr/bin/env python3
"""
tools/tryscratch.py <patch dir> [...]: apply each stored patch (patch.diff) to a scratch worktree of
/repo (never to /repo itself), run every quick check against it through $SA_REPO and print which
rules report a violation and which checks cannot decide.  Not part of any registered check.
"""
import os, subprocess, sys, tempfile
from concurrent.futures import ThreadPoolExecutor

sys.path.insert(0, "/verif")
from sa.check import CLAIMED  # noqa: E402

base = tempfile.mkdtemp(prefix="scr-")
for d in sys.argv[1:]:
    d = os.path.abspath(d)
    name = os.path.basename(d.rstrip("/"))
    wt = os.path.join(base, name)
    subprocess.run(["git", "-C", "/repo", "worktree", "add", "-q", "--detach", wt, "HEAD"], check=True)
    try:
        a = subprocess.run(["git", "apply", os.path.join(d, "patch.diff")], cwd=wt)
        if a.returncode != 0:
            print(name, "patch does not apply")
            continue

        def run(pid):
            return subprocess.run(["/venv/bin/python", "-m", "sa.check", pid, "--no-write"], cwd="/verif",
                                  env=dict(os.environ, SA_REPO=wt), stdout=subprocess.PIPE,
                                  stderr=subprocess.STDOUT, text=True).stdout
        with ThreadPoolExecutor(max_workers=12) as ex:
            outs = list(ex.map(run, CLAIMED))
        viol, und = {}, {}
        for pid, o in zip(CLAIMED, outs):
            for line in o.splitlines():
                if ": rule " in line and " cannot decide" not in line and not line.startswith("ANALYSIS-ERROR"):
                    viol.setdefault(pid, []).append(line.strip()[:260])
                elif line.startswith("ANALYSIS-ERROR"):
                    und.setdefault(pid, []).append(line.strip()[:160])
        print(name, "VIOLATIONS:", {k: len(v) for k, v in viol.items()}, "UNDECIDED:", sorted(und))
        for k, v in viol.items():
            for line in v:
                print("    ", k, line)
        for k, v in und.items():
            print("    ?", k, v[0])
    finally:
        subprocess.run(["git", "-C", "/repo", "worktree", "remove", "--force", wt])
subprocess.run(["git", "-C", "/repo", "worktree", "prune"])
