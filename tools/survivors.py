#!/usr/bin/env python3
"""
Replays the first-order mutants that the repository's own suite does not kill
(calibration/survivors.jsonl, measured on the pinned snapshot) against the
static checks: which of the test-surviving changes does some check report?

Not part of any registered check.  Usage:
    /venv/bin/python tools/survivors.py [--jobs 16] > calibration/caught.json
Line numbers refer to the snapshot c610138; lines of the four files touched by
fix: commits are mapped to HEAD.
"""
import ast, json, multiprocessing, os, shutil, subprocess, sys, tempfile

sys.path.insert(0, "/verif")
REPO = "/repo"
SNAP = "c610138"


def line_map(rel):
    """snapshot line -> HEAD line (None if the line was changed)"""
    out = subprocess.run(["git", "-C", REPO, "diff", "-U0", SNAP, "HEAD", "--", rel],
                         stdout=subprocess.PIPE, text=True).stdout
    hunks = []
    for l in out.splitlines():
        if l.startswith("@@"):
            a, b = l.split()[1], l.split()[2]
            a0, an = (a[1:].split(",") + ["1"])[:2]
            b0, bn = (b[1:].split(",") + ["1"])[:2]
            hunks.append((int(a0), int(an), int(b0), int(bn)))
    def f(line):
        shift = 0
        for a0, an, b0, bn in hunks:
            if an and a0 <= line < a0 + an:
                return None
            if line >= a0 + max(an, 1) or (an == 0 and line > a0):
                shift += bn - an
        return line + shift
    return f


class Mut(ast.NodeTransformer):
    def __init__(self, kind, line, i, pick):
        self.kind, self.line, self.i, self.pick = kind, line, i, pick
        self.seen = 0
        self.done = False

    def hit(self, node):
        if getattr(node, "lineno", None) != self.line or self.done:
            return False
        self.seen += 1
        if self.seen - 1 == self.pick:
            self.done = True
            return True
        return False

    def visit_BoolOp(self, node):
        self.generic_visit(node)
        if self.kind == "drop" and self.hit(node):
            vals = [v for k, v in enumerate(node.values) if k != self.i]
            return vals[0] if len(vals) == 1 else ast.BoolOp(op=node.op, values=vals)
        if self.kind == "flipop" and self.hit(node):
            return ast.BoolOp(op=ast.Or() if isinstance(node.op, ast.And) else ast.And(), values=node.values)
        return node

    def visit_Compare(self, node):
        self.generic_visit(node)
        if self.kind == "cmp" and len(node.ops) == 1 and self.hit(node):
            sw = {ast.Eq: ast.NotEq, ast.NotEq: ast.Eq, ast.Lt: ast.LtE, ast.LtE: ast.Lt, ast.Gt: ast.GtE,
                  ast.GtE: ast.Gt, ast.In: ast.NotIn, ast.NotIn: ast.In, ast.Is: ast.IsNot, ast.IsNot: ast.Is}
            return ast.Compare(left=node.left, ops=[sw[type(node.ops[0])]()], comparators=node.comparators)
        return node

    def visit_UnaryOp(self, node):
        self.generic_visit(node)
        if self.kind == "unnot" and isinstance(node.op, ast.Not) and self.hit(node):
            return node.operand
        return node

    def visit_If(self, node):
        self.generic_visit(node)
        if self.kind in ("iftrue", "iffalse") and self.hit(node):
            node.test = ast.Constant(value=self.kind == "iftrue")
        return node

    def visit_Constant(self, node):
        if self.kind == "const" and isinstance(node.value, int) and not isinstance(node.value, bool) \
                and self.hit(node):
            return ast.Constant(value=0 if node.value == -1 else node.value + 1)
        return node

    def _del(self, node):
        if self.kind == "delstmt" and self.hit(node):
            return ast.Pass()
        return node

    def visit_Expr(self, node):
        self.generic_visit(node)
        if isinstance(node.value, ast.Call):
            return self._del(node)
        return node

    def visit_Assign(self, node):
        self.generic_visit(node)
        if isinstance(node.targets[0], (ast.Attribute, ast.Subscript)):
            return self._del(node)
        return node

    def visit_Call(self, node):
        self.generic_visit(node)
        if self.kind == "swapfn" and isinstance(node.func, ast.Name) and \
                node.func.id in ("all", "any", "min", "max") and self.hit(node):
            node.func = ast.Name(id={"all": "any", "any": "all", "min": "max", "max": "min"}[node.func.id],
                                 ctx=ast.Load())
        return node

    def visit_Break(self, node):
        if self.kind == "break2continue" and self.hit(node):
            return ast.Continue()
        return node


def variants(src, kind, line, i):
    """all mutants of this kind on this line (the survey did not record which candidate)"""
    out = []
    for pick in range(8):
        tree = ast.parse(src)
        m = Mut(kind, line, i, pick)
        new = m.visit(tree)
        if not m.done:
            break
        ast.fix_missing_locations(new)
        try:
            out.append(ast.unparse(new))
        except Exception:
            pass
    return out


def run_one(job):
    idx, rec, pick, text = job
    from sa import report
    from sa.check import CLAIMED
    from sa.db import DB
    import importlib
    tmp = tempfile.mkdtemp(prefix="sa-surv-")
    fired = {}
    try:
        shutil.copytree(os.path.join(REPO, "teaal"), os.path.join(tmp, "teaal"),
                        ignore=shutil.ignore_patterns("__pycache__"))
        with open(os.path.join(tmp, rec["file"]), "w") as fh:
            fh.write(text)
        for pid in CLAIMED:
            mod = importlib.import_module("sa.rules." + pid.lower())
            rep = report.Report(pid, "quick", 0)
            try:
                mod.run(DB(tmp), rep)
                rules = sorted({v.rule for v in rep.violations})
                if rep.floors() and not rules:
                    rules = ["FLOOR"]
            except Exception as e:
                rules = ["ANALYSIS-ERROR"]
            if rules:
                fired[pid] = rules
    finally:
        shutil.rmtree(tmp, ignore_errors=True)
    return {"idx": idx, "file": rec["file"], "line": rec["line"], "fn": rec["fn"], "kind": rec["kind"],
            "i": rec["i"], "pick": pick, "fired": fired}


def main():
    jobs_n = 16
    if "--jobs" in sys.argv:
        jobs_n = int(sys.argv[sys.argv.index("--jobs") + 1])
    recs = [json.loads(l) for l in open("/verif/calibration/survivors.jsonl")]
    maps = {}
    jobs = []
    unmapped = 0
    for idx, rec in enumerate(recs):
        rel = rec["file"]
        if rel not in maps:
            maps[rel] = line_map(rel)
        line = maps[rel](rec["line"])
        if line is None:
            unmapped += 1
            continue
        src = open(os.path.join(REPO, rel)).read()
        for pick, text in enumerate(variants(src, rec["kind"], line, rec["i"])):
            jobs.append((idx, rec, pick, text))
    with multiprocessing.Pool(jobs_n) as pool:
        res = pool.map(run_one, jobs, chunksize=2)
    caught = [r for r in res if any(x != ["ANALYSIS-ERROR"] for x in r["fired"].values())]
    summary = {"survivor_records": len(recs), "unmapped_lines": unmapped, "mutants_replayed": len(res),
               "reported_by_some_check": len(caught),
               "records_with_a_reported_mutant": len({r["idx"] for r in caught})}
    json.dump({"summary": summary, "results": res}, sys.stdout, indent=1)
    print(file=sys.stderr)
    print(json.dumps(summary), file=sys.stderr)


if __name__ == "__main__":
    main()
