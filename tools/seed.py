#!/usr/bin/env python3
"""
Handling of seeded breakages (never part of a registered check).

  tools/seed.py verify <seed dir>   confirm in a scratch worktree: demo passes on the clean
                                    tree, patch applies, full suite passes, demo fails
  tools/seed.py check  <seed dir>   apply the patch to /repo, run every quick check, report
                                    which properties/rules fire, undo the patch
"""
import json, os, subprocess, sys, tempfile, shutil

REPO = "/repo"
PY = "/venv/bin/python"


def sh(cmd, cwd=None, env=None):
    p = subprocess.run(cmd, shell=True, cwd=cwd, env=env, stdout=subprocess.PIPE, stderr=subprocess.STDOUT, text=True)
    return p.returncode, p.stdout


def verify(d):
    d = os.path.abspath(d)
    wt = tempfile.mkdtemp(prefix="seedwt-")
    shutil.rmtree(wt)
    res = {}
    try:
        rc, out = sh("git -C %s worktree add -q --detach %s HEAD" % (REPO, wt))
        assert rc == 0, out
        rc, out = sh("%s %s/demo.py %s" % (PY, d, wt), cwd=wt)
        res["demo_clean_rc"] = rc
        rc, out = sh("git apply %s/patch.diff" % d, cwd=wt)
        res["apply_rc"] = rc
        if rc != 0:
            res["apply_out"] = out[-400:]
            return res
        rc, out = sh("%s -m pytest -q -p no:cacheprovider -n 8 2>&1 | tail -3" % PY, cwd=wt)
        res["tests_tail"] = out.strip().splitlines()[-1] if out.strip() else ""
        rc, out = sh("%s %s/demo.py %s" % (PY, d, wt), cwd=wt)
        res["demo_patched_rc"] = rc
        res["demo_patched_tail"] = out.strip().splitlines()[-1][:200] if out.strip() else ""
    finally:
        sh("git -C %s worktree remove --force %s" % (REPO, wt))
        shutil.rmtree(wt, ignore_errors=True)
    return res


def check(d):
    d = os.path.abspath(d)
    rc, out = sh("git -C %s status --porcelain" % REPO)
    assert out.strip() == "", "/repo is not clean: " + out
    rc, out = sh("git -C %s apply %s/patch.diff" % (REPO, d))
    assert rc == 0, out
    fired = {}
    try:
        sys.path.insert(0, "/verif")
        from sa.check import CLAIMED
        from concurrent.futures import ThreadPoolExecutor
        with ThreadPoolExecutor(max_workers=12) as ex:
            outs = list(ex.map(lambda pid: sh("%s -m sa.check %s --no-write" % (PY, pid), cwd="/verif")[1], CLAIMED))
        for pid, out in zip(CLAIMED, outs):
            for line in out.splitlines():
                if ": rule " in line and " cannot decide" not in line and not line.startswith("ANALYSIS-ERROR"):
                    fired.setdefault(pid, set()).add(line.split(": rule ")[1].split()[0])
                if line.startswith("ANALYSIS-ERROR"):
                    fired.setdefault(pid, set()).add("ANALYSIS-ERROR")
    finally:
        sh("git -C %s checkout -- ." % REPO)
    return {k: sorted(v) for k, v in fired.items()}


def sweep(only=None):
    """every stored seed against every check; writes /verif/seeded/RESULTS.json
    (with names: only those seeds, merged into the existing results)"""
    out = {}
    base = "/verif/seeded"
    if only:
        out = json.load(open(os.path.join(base, "RESULTS.json")))["seeds"]
    for name in sorted(os.listdir(base)):
        d = os.path.join(base, name)
        if not os.path.isdir(d) or (only and name not in only):
            continue
        rc, o = sh("git -C %s apply --check %s/patch.diff" % (REPO, d))
        if rc != 0:
            out[name] = {"applies": False}
            continue
        meta = json.load(open(os.path.join(d, "meta.json")))
        fired = check(d)
        out[name] = {"applies": True, "property": meta.get("property"), "fired": fired,
                     "caught_by_own_property": meta.get("property") in fired and
                     fired[meta.get("property")] != ["ANALYSIS-ERROR"]}
        print(name, out[name], flush=True)
    head = sh("git -C %s rev-parse --short HEAD" % REPO)[1].strip()
    json.dump({"repo_head": head, "seeds": out}, open(os.path.join(base, "RESULTS.json"), "w"), indent=1)
    return out


def benign_sweep():
    """every stored benign refactoring against every check: no check may report a violation"""
    base = "/verif/benign"
    out = {}
    for name in sorted(os.listdir(base)):
        d = os.path.join(base, name)
        if not os.path.isdir(d):
            continue
        rc, o = sh("git -C %s apply --check %s/patch.diff" % (REPO, d))
        if rc != 0:
            out[name] = {"applies": False}
            continue
        fired = check(d)
        viol = {k: [r for r in v if r != "ANALYSIS-ERROR"] for k, v in fired.items()}
        viol = {k: v for k, v in viol.items() if v}
        undecided = sorted(k for k, v in fired.items() if "ANALYSIS-ERROR" in v)
        out[name] = {"applies": True, "false_alarms": viol, "cannot_decide": undecided}
        print(name, out[name], flush=True)
    head = sh("git -C %s rev-parse --short HEAD" % REPO)[1].strip()
    json.dump({"repo_head": head, "benign": out}, open(os.path.join(base, "RESULTS.json"), "w"), indent=1)
    return out


if __name__ == "__main__":
    cmd = sys.argv[1]
    if cmd == "sweep":
        sweep(sys.argv[2:] or None)
    elif cmd == "benign":
        benign_sweep()
    else:
        d = sys.argv[2]
        print(json.dumps(verify(d) if cmd == "verify" else check(d), indent=1))
