#!/usr/bin/env python3
"""
tools/undecided.py: for every stored refactoring on which some check ends as "cannot decide"
(benign/RESULTS.json), replay it in a scratch worktree (never /repo itself) and print the messages,
grouped - the work list for making rules follow more shapes.  Not part of any registered check.
"""
import collections, json, os, subprocess, sys, tempfile

res = json.load(open("/verif/benign/RESULTS.json"))["benign"]
only = set(sys.argv[1:])
msgs = collections.Counter()
detail = {}
base = tempfile.mkdtemp(prefix="und-")
for name, v in sorted(res.items()):
    und = [p for p in v.get("cannot_decide", []) if not only or p in only]
    if not und:
        continue
    wt = os.path.join(base, name)
    subprocess.run(["git", "-C", "/repo", "worktree", "add", "-q", "--detach", wt, "HEAD"], check=True)
    try:
        subprocess.run(["git", "apply", "/verif/benign/%s/patch.diff" % name], cwd=wt, check=True)
        for p in und:
            o = subprocess.run(["/venv/bin/python", "-m", "sa.check", p, "--no-write"], cwd="/verif",
                               env=dict(os.environ, SA_REPO=wt), stdout=subprocess.PIPE,
                               stderr=subprocess.STDOUT, text=True).stdout
            for line in o.splitlines():
                if "ANALYSIS-ERROR" in line or "cannot decide" in line:
                    key = (p, line.strip()[:230])
                    msgs[key] += 1
                    detail.setdefault(key, []).append(name)
    finally:
        subprocess.run(["git", "-C", "/repo", "worktree", "remove", "--force", wt])
subprocess.run(["git", "-C", "/repo", "worktree", "prune"])
for k, c in sorted(msgs.items()):
    print(c, k[0], k[1], detail[k][:5])
