#!/usr/bin/env python3
"""Prints a markdown index of all rules (id, instances on the current tree, description) from evidence/*.json."""
import json, glob
for f in sorted(glob.glob('/verif/evidence/C*.json')):
    ev = json.load(open(f))
    rules = ev["coverage"]["rules"]
    print("**%s** (%d rule instances)\n" % (ev["property_id"], ev["coverage"]["obligations"]))
    for rid, r in rules.items():
        print("* `%s` (%d) %s" % (rid, r["instances"], r["desc"]))
    print()
