"""
Fh4-2 (C10, def-use closure of the emitted program; metrics mode): the guard
that makes an eager subtree load happen only once is keyed by the loop
variables between the evict-on loop and the traced loop.  When one of these
loops iterates over an (innermost) flattened rank, that loop binds one variable
per flattened rank - "for (k, m), ... in ..." - but Collector.trace_tree names
the rank itself:

    for j, (z_km, a_km) in z_j << a_j:
        eager_a_n_read = set()
        for (k, m), (z_n, a_n) in z_km << a_km:
            if (km,) not in eager_a_n_read:        # km is never bound
                eager_a_n_read.add((km,))
                a_n.trace("eager_a_n_read")

The statement depends on a binding that no statement of the program provides,
so no statement order can satisfy it (NameError at run time).  The same
mistake was repaired for the space-time stamps in teaal/trans/canvas.py
(__rel_coord / __build_access use LoopOrder.get_iter_ranks); the collector
was left behind.
"""
import ast
import builtins
import re
import sys

sys.path.insert(0, sys.argv[1])

from teaal.parse import Architecture, Bindings, Einsum, Format, Mapping  # noqa: E402
from teaal.trans.hifiber import HiFiber  # noqa: E402

SPEC = """
einsum:
    declaration:
        A: [J, K, M, N]
        Z: [J, K, M, N]
    expressions:
        - Z[j, k, m, n] = A[j, k, m, n]
mapping:
    partitioning:
        Z:
            (K, M): [flatten()]
    loop-order:
        Z: [J, KM, N]
    spacetime:
        Z:
            space: []
            time: [J, KM, N]
architecture:
    accel:
    - name: sys
      attributes:
        clock_frequency: 1000
      local:
      - name: Mem
        class: DRAM
        attributes:
          bandwidth: 128
      - name: Buf
        class: Buffet
        attributes:
          width: 64
          depth: 1024
bindings:
    Z:
    - config: accel
      prefix: tmp/Z
    - component: Buf
      bindings:
      - tensor: A
        rank: N
        type: payload
        evict-on: J
        format: default
        style: eager
format:
    A:
        default:
            rank-order: [J, KM, N]
            J: {format: C, cbits: 32, pbits: 32}
            KM: {format: C, cbits: 32, pbits: 32}
            N: {format: C, cbits: 32, pbits: 32}
    Z:
        default:
            rank-order: [J, KM, N]
            J: {format: C, cbits: 32, pbits: 32}
            KM: {format: C, cbits: 32, pbits: 32}
            N: {format: C, cbits: 32, pbits: 32}
"""

# A control without flattening: the same binding, K and M iterated separately
CONTROL = SPEC.replace("""    partitioning:
        Z:
            (K, M): [flatten()]
""", "").replace("[J, KM, N]", "[J, K, M, N]").replace(
    "            KM: {format: C, cbits: 32, pbits: 32}\n",
    "            K: {format: C, cbits: 32, pbits: 32}\n            M: {format: C, cbits: 32, pbits: 32}\n")

# Names that are legitimately free in the emitted program: the fibertree
# runtime, the input tensor, and shape constants (all upper case)
FREE = set(dir(builtins)) | {
    "Tensor", "Fiber", "Metrics", "Format", "Traffic", "Compute", "A_JKMN"}


def loads(node, bound=frozenset()):
    """All Name loads in an expression, honouring lambda parameters"""
    if isinstance(node, ast.Lambda):
        return loads(node.body, set(bound) | {a.arg for a in node.args.args})
    if isinstance(node, ast.Name):
        if isinstance(node.ctx, ast.Load) and node.id not in bound \
                and not re.fullmatch(r"[A-Z][A-Z0-9]*", node.id):
            return [node]
        return []
    out = []
    for child in ast.iter_child_nodes(node):
        out += loads(child, bound)
    return out


def stores(target):
    return {n.id for n in ast.walk(target) if isinstance(n, ast.Name)}


def use_before_def(code):
    """(line, name) for every name read before any statement binds it"""
    errs = []

    def run(stmts, defined):
        for stmt in stmts:
            if isinstance(stmt, ast.For):
                errs.extend((n.lineno, n.id)
                            for n in loads(stmt.iter) if n.id not in defined)
                run(stmt.body, set(defined) | stores(stmt.target))
            elif isinstance(stmt, ast.If):
                errs.extend((n.lineno, n.id)
                            for n in loads(stmt.test) if n.id not in defined)
                run(stmt.body, set(defined))
                run(stmt.orelse, set(defined))
            elif isinstance(stmt, (ast.Assign, ast.AugAssign)):
                errs.extend((n.lineno, n.id)
                            for n in loads(stmt.value) if n.id not in defined)
                tgts = stmt.targets if isinstance(
                    stmt, ast.Assign) else [stmt.target]
                for tgt in tgts:
                    if isinstance(tgt, ast.Name):
                        if isinstance(
                                stmt, ast.AugAssign) and tgt.id not in defined:
                            errs.append((tgt.lineno, tgt.id))
                        defined.add(tgt.id)
                    else:
                        errs.extend(
                            (n.lineno, n.id) for n in ast.walk(tgt) if isinstance(
                                n, ast.Name) and n.id not in defined)
            else:
                errs.extend((n.lineno, n.id)
                            for n in loads(stmt) if n.id not in defined)

    run(ast.parse(code).body, set(FREE))
    return errs



def compile_(spec):
    return str(HiFiber(Einsum.from_str(spec), Mapping.from_str(spec),
                       Architecture.from_str(spec), Bindings.from_str(spec),
                       Format.from_str(spec)))


def main():
    code = compile_(CONTROL)
    assert "(k, m) not in eager_a_n_read" in code, code
    assert not use_before_def(code), "control failed:\n" + code

    try:
        code = compile_(SPEC)
    except ValueError as err:
        print("specification rejected with ValueError (acceptable repair):", err)
        return

    errs = sorted(set(use_before_def(code)))
    lines = code.split("\n")
    msg = "\n".join("  line %d reads %r, which no statement binds: %s" %
                    (ln, name, lines[ln - 1].strip()) for ln, name in errs)
    loop_nest = code.split("Metrics.endCollect()")[0]
    assert not errs, "C10 violated - the emitted program reads a variable " \
        "that is never bound:\n" + msg + \
        "\n--- emitted loop nest ---\n" + loop_nest
    print("OK: every name is bound before it is read")


if __name__ == "__main__":
    main()
