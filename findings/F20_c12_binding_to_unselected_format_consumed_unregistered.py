"""
C12 demonstration: a buffer binding that names a format which is NOT the one
selected for the loop nest is consumed by the metrics dump although no trace
registration for it was emitted.

usage: demo.py <repo root>
exit 0: every trace file consumed by the dump is produced earlier in the
        Einsum's section
exit 1: some consumed trace file is never produced (message names it)
"""
import re
import sys

SPEC = """
einsum:
  declaration:
    A: [K, M]
    B: [K, N]
    Z: [M, N]
  expressions:
  - Z[m, n] = A[k, m] * B[k, n]
mapping:
  rank-order:
    A: [K, M]
    B: [K, N]
    Z: [M, N]
  loop-order:
    Z: [K, M, N]
  spacetime:
    Z:
      space: []
      time: [K, M, N]
format:
  A:
    # Matches the loop order [K, M, N] -> selected for the loop nest
    KM:
      rank-order: [K, M]
      K:
        format: U
        pbits: 32
      M:
        format: C
        cbits: 32
        pbits: 64
    # Transposed copy of A (e.g. used by another kernel) -> not selected
    MK:
      rank-order: [M, K]
      M:
        format: U
        pbits: 32
      K:
        format: C
        cbits: 32
        pbits: 64
  B:
    default:
      rank-order: [K, N]
      K:
        format: U
        pbits: 32
      N:
        format: C
        cbits: 32
        pbits: 64
  Z:
    default:
      rank-order: [M, N]
      M:
        format: U
        pbits: 32
      N:
        format: C
        cbits: 32
        pbits: 64
architecture:
  accel:
  - name: System
    attributes:
      clock_frequency: 1000000000
    local:
    - name: MainMemory
      class: DRAM
      attributes:
        bandwidth: 1024
    subtree:
    - name: PE
      local:
      - name: RegFile
        class: Buffet
        attributes:
          width: 64
          depth: 128
      - name: FPMul
        class: compute
        attributes:
          type: mul
bindings:
  Z:
  - config: accel
    prefix: tmp/demo_Z
  - component: MainMemory
    bindings:
    - tensor: A
      rank: M
      type: coord
      format: KM
    - tensor: A
      rank: M
      type: payload
      format: KM
    - tensor: A
      rank: K
      type: coord
      format: MK
    - tensor: A
      rank: K
      type: payload
      format: MK
  - component: RegFile
    bindings:
    # The format used by this loop nest
    - tensor: A
      rank: M
      type: coord
      format: KM
      evict-on: K
    - tensor: A
      rank: M
      type: payload
      format: KM
      evict-on: K
    # The other declared format of A
    - tensor: A
      rank: K
      type: coord
      format: MK
      evict-on: root
    - tensor: A
      rank: K
      type: payload
      format: MK
      evict-on: root
  - component: FPMul
    bindings:
    - op: mul
"""


def compile_spec(spec):
    from teaal.parse import Architecture, Bindings, Einsum, Format, Mapping
    from teaal.trans.hifiber import HiFiber

    return str(HiFiber(Einsum.from_str(spec), Mapping.from_str(spec),
                       Architecture.from_str(spec), Bindings.from_str(spec),
                       Format.from_str(spec)))


def cross_reference(text):
    """
    Returns [(line number, consumed file, reason)] for all consumed trace
    files that were not produced earlier in the same Einsum's section
    """
    missing = []
    prefix = None
    produced = set()
    begun = False

    for no, line in enumerate(text.split("\n"), 1):
        m = re.search(r"Metrics\.beginCollect\(\"([^\"]*)\"\)", line)
        if m:
            prefix = m.group(1)
            produced = set()
            begun = True
            continue

        if not begun:
            continue

        # Registration: Metrics.trace("R", type_="T", ...) -> prefix-R-T.csv
        m = re.search(
            r"Metrics\.trace\(\"([^\"]*)\", type_=\"([^\"]*)\"", line)
        if m:
            produced.add(prefix + "-" + m.group(1) + "-" + m.group(2) + ".csv")
            continue

        # Filter step: consumes two files, produces the third
        m = re.search(
            r"Traffic\.filterTrace\(\"([^\"]*)\", \"([^\"]*)\", \"([^\"]*)\"\)",
            line)
        if m:
            for fn in (m.group(1), m.group(2)):
                if fn not in produced:
                    missing.append((no, fn, "Traffic.filterTrace input"))
            produced.add(m.group(3))
            continue

        # traces dictionary handed to Traffic.buffetTraffic/cacheTraffic
        if line.strip().startswith("traces = {"):
            for key, fn in re.findall(
                    r"(\([^)]*\)): \"([^\"]*)\"", line):
                if fn not in produced:
                    missing.append((no, fn, "traces[" + key + "]"))
            continue

        m = re.search(r"Compute\.numIters\(\"([^\"]*)\"\)", line)
        if m and m.group(1) not in produced:
            missing.append((no, m.group(1), "Compute.numIters"))

    return missing


def main():
    root = sys.argv[1]
    sys.path.insert(0, root)

    text = compile_spec(SPEC)
    missing = cross_reference(text)

    if "-v" in sys.argv:
        print(text)

    if not missing:
        print("C12 holds: every consumed trace file is produced earlier")
        return 0

    for no, fn, why in missing:
        print("C12 VIOLATION: emitted line %d consumes trace file %r (%s) "
              "but no Metrics.trace registration / Traffic.filterTrace step "
              "in the Einsum's section produces it" % (no, fn, why))
    return 1


if __name__ == "__main__":
    sys.exit(main())
