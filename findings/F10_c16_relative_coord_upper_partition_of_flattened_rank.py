"""
C16: a '.coord' space/time stamp on an UPPER partition of a flattened rank is
emitted as a subtraction of two tuple coordinates.

(M, K) is flattened into MK (flattenRanks(..., coord_style="tuple"), so every
coordinate of MK - and of its partitions MK2, MK1, MK0 - is a tuple (m, k)) and
MK is then split twice by occupancy.  Stamping MK1 with '.coord' makes
Canvas.__rel_coord emit the relative coordinate 'mk1 - mk2'.  tuple - tuple is
a TypeError, so merely adding the spacetime mapping makes the generated program
die at the first update instead of computing Z.  The compiler already rejects
the relative coordinate of the innermost partition (MK0) of a flattened rank
with a ValueError; the upper partitions slip through.

Exits 0 if the compiler rejects the mapping with a ValueError or emits a stamp
that can be evaluated on tuple coordinates; exits non-zero otherwise.
"""
import ast
import sys

sys.path.insert(0, sys.argv[1])

from teaal.parse import Einsum, Mapping  # noqa: E402
from teaal.trans.hifiber import HiFiber  # noqa: E402

SPEC = """
einsum:
  declaration:
    A: [M, K]
    B: [M, K]
    Z: [M, K]
  expressions:
    - Z[m, k] = A[m, k] * B[m, k]
mapping:
  partitioning:
    Z:
      (M, K): [flatten()]
      MK: [uniform_occupancy(A.8), uniform_occupancy(A.4)]
  loop-order:
    Z: [MK2, MK1, MK0]
%s
"""

SPACETIME = """  spacetime:
    Z:
      space: [MK2.coord, MK1.coord]
      time: [MK0.pos]
"""


def compile_(spec):
    return str(HiFiber(Einsum.from_str(spec), Mapping.from_str(spec)))


# The same mapping without the display compiles fine
plain = compile_(SPEC % "")
assert 'flattenRanks(depth=0, levels=1, coord_style="tuple")' in plain, plain

try:
    text = compile_(SPEC % SPACETIME)
except ValueError as err:
    print("rejected with ValueError (fine):", err)
    sys.exit(0)

# The coordinates of MK and of all of its partitions are tuples
assert 'flattenRanks(depth=0, levels=1, coord_style="tuple")' in text, text

calls = [node for node in ast.walk(ast.parse(text))
         if isinstance(node, ast.Call) and isinstance(node.func, ast.Attribute)
         and node.func.attr == "addActivity"]
assert len(calls) == 1, text
stamp = [kw.value for kw in calls[0].keywords if kw.arg == "spacetime"][0]

# Evaluate the stamp the way the running program would: mk2 / mk1 are
# coordinates of partitions of the flattened rank MK, i.e. (m, k) tuples
env = {"mk2": (0, 0), "mk1": (0, 3), "mk0": (0, 5), "m": 0, "k": 5,
       "mk2_pos": 0, "mk1_pos": 0, "mk0_pos": 0}
try:
    value = eval(compile(ast.Expression(stamp), "<stamp>", "eval"), {}, env)
except TypeError as err:
    raise AssertionError(
        "the spacetime stamp " + ast.unparse(stamp) + " cannot be evaluated "
        "on the tuple coordinates of the flattened rank MK (" + str(err) +
        "): adding the display makes the program crash") from None

print("stamp evaluates to", value)
sys.exit(0)
