"""
Fh7-1 (C15): a binding list that two Einsums share through a YAML alias is
expanded in place for the first Einsum, and the expansion leaks into the second

Usage: demo.py <repository root>
"""
import copy
import sys

sys.path.insert(0, sys.argv[1])

from teaal.parse import Architecture, Bindings, Einsum, Format, Mapping  # noqa: E402
from teaal.trans.hifiber import HiFiber  # noqa: E402

BUF_BINDINGS = """
        - tensor: A
          rank: M
          type: coord
          evict-on: K
          format: default
          style: eager
"""

SPEC = """
    einsum:
      declaration:
        A: [K, M]
        B: [K, M]
        T: [K, M]
        Z: [K, M]
      expressions:
      - T[k, m] = A[k, m] * B[k, m]
      - Z[k, m] = A[k, m] * B[k, m]
    mapping:
      spacetime:
        T:
          space: []
          time: [K, M]
        Z:
          space: []
          time: [K, M]
    architecture:
      accel:
      - name: level0
        attributes:
          clock_frequency: 2048
        local:
        - name: DRAM
          class: DRAM
          attributes:
            bandwidth: 512
        subtree:
        - name: level1
          local:
          - name: Buf
            class: Buffet
            attributes:
              width: 64
              depth: 1024
              bandwidth: 128
    bindings:
      T:
      - config: accel
        prefix: tmp/T
      - component: Buf
        bindings: %s
      Z:
      - config: accel
        prefix: tmp/Z
      - component: Buf
        bindings: %s
    format:
      A:
        default:
          rank-order: [K, M]
          K:
            format: C
            cbits: 32
            pbits: 32
          M:
            format: C
            cbits: 32
            pbits: 64
"""

# The same specification twice: once with the Buf binding list of Einsum Z
# written out, once with Z re-using the list of Einsum T through an alias
written_out = SPEC % (BUF_BINDINGS, BUF_BINDINGS)
aliased = SPEC % ("&buf" + BUF_BINDINGS, "*buf")


def parse(yaml):
    return (Einsum.from_str(yaml), Mapping.from_str(yaml),
            Architecture.from_str(yaml), Bindings.from_str(yaml),
            Format.from_str(yaml))


objs_w = parse(written_out)
objs_a = parse(aliased)

# The two sets of parsed objects are observably equal
for w, a in zip(objs_w, objs_a):
    assert w.__dict__ == a.__dict__, "the two specifications should parse equal"

before = copy.deepcopy(objs_a[3].__dict__)
text_w = str(HiFiber(*objs_w))
text_a = str(HiFiber(*objs_a))
assert objs_a[3].__dict__ == before, "the parsed Bindings were mutated"


def bindings_lines(text):
    return [line for line in text.split("\n") if line.startswith("bindings = ")]


# Einsum T and Einsum Z are bound identically, so their traffic bindings must
# be identical too
lines = bindings_lines(text_a)
assert len(lines) == 2, lines
assert lines[0] == lines[1], \
    "the eager expansion made for Einsum T leaked into Einsum Z " + \
    "through the aliased binding list:\n  T: " + lines[0] + "\n  Z: " + lines[1]

assert text_a == text_w, \
    "equal parsed objects compile to different programs " + \
    "(binding list shared through a YAML alias vs. written out)"

print("ok")
