"""
Fh6-2: the traffic path of a tensor (which memory feeds which) is assembled in
depth-first *visit* order rather than by depth in the architecture tree, so it
depends on the order in which sibling levels are written.  With a shared cache
in one branch and the PE buffers in a deeper sibling branch, the deeper buffet
is placed before the cache: the cache's fills are charged to the buffet and
the buffet's fills to DRAM, i.e. the component times divide the wrong bit
counts by the wrong bandwidths.

Usage: demo.py <repository root>
"""
import sys

sys.path.insert(0, sys.argv[1])

from teaal.ir.hardware import Hardware  # noqa
from teaal.ir.program import Program  # noqa
from teaal.parse import Architecture, Bindings, Einsum, Format, Mapping  # noqa
from teaal.trans.hifiber import HiFiber  # noqa

HEAD = """
einsum:
  declaration:
    A: [M]
    Z: [M]
  expressions:
  - Z[m] = A[m]
mapping:
  spacetime:
    Z:
      space: []
      time: [M]
format:
  A:
    default:
      rank-order: [M]
      M:
        format: C
        cbits: 32
        pbits: 32
architecture:
  accel:
  - name: System
    attributes:
      clock_frequency: 1000
    local:
    - name: MainMemory
      class: DRAM
      attributes:
        bandwidth: 2
    subtree:
"""

# depth 1: a shared cache
FRONT = """    - name: Frontend
      local:
      - name: L2
        class: Cache
        attributes:
          width: 64
          depth: 1024
          bandwidth: 3
"""

# depth 2: the PE register files
BACK = """    - name: Backend
      subtree:
      - name: PE[0..3]
        local:
        - name: RegFile
          class: Buffet
          attributes:
            width: 64
            depth: 16
            bandwidth: 5
"""

BIND = """
bindings:
  Z:
  - config: accel
    prefix: tmp/Z
  - component: MainMemory
    bindings:
    - {tensor: A, rank: M, type: payload, format: default}
  - component: L2
    bindings:
    - {tensor: A, rank: M, type: payload, format: default}
  - component: RegFile
    bindings:
    - {tensor: A, rank: M, type: payload, format: default, evict-on: root}
"""


def path(yaml):
    program = Program(Einsum.from_str(yaml), Mapping.from_str(yaml))
    program.add_einsum(0)
    hardware = Hardware(
        Architecture.from_str(yaml),
        Bindings.from_str(yaml),
        program)
    return [comp.get_name() for comp, _ in hardware.get_traffic_path(
        "A", "M", "payload", "default")]


def times(yaml):
    text = str(HiFiber(Einsum.from_str(yaml), Mapping.from_str(yaml),
                       Architecture.from_str(yaml), Bindings.from_str(yaml),
                       Format.from_str(yaml)))
    return sorted(line for line in text.split("\n") if '["time"] =' in line)


front_first = HEAD + FRONT + BACK + BIND
back_first = HEAD + BACK + FRONT + BIND

p1, p2 = path(front_first), path(back_first)
print("path, Frontend written first:", p1)
print("path, Backend written first :", p2)
t1, t2 = times(front_first), times(back_first)
print("\n".join(t1))
print("--")
print("\n".join(t2))

expected = ["MainMemory", "L2", "RegFile"]  # depth 0, 1, 2
assert p1 == expected and p2 == expected, \
    "traffic path is not ordered by depth and depends on the order of " \
    "sibling levels: " + str(p1) + " vs " + str(p2) + " (expected " + \
    str(expected) + " for both)"
assert t1 == t2, "component times depend on the order of sibling levels"
assert any('["L2"]["time"]' in line for line in t1) and \
    not any('["RegFile"]["time"]' in line for line in t1), \
    "the innermost buffet is charged as the source of the cache's fills"
print("ok")
