"""
Fh2-1 (C06): a tensor with two ranks whose coordinate expressions become
available in the same loop (e.g. I[q + s, s]) is only descended one rank; the
rank that is reachable only through index math is never consumed, yet the
update statement reads <tensor>_val, which no statement binds.

Usage: python demo.py <repo-root>
Exits non-zero while the defect is present; exits 0 if the compiler either
rejects the specification with ValueError or emits a closed program.
"""
import ast
import builtins
import sys

sys.path.insert(0, sys.argv[1])

from teaal.parse import Einsum, Mapping  # noqa: E402
from teaal.trans.hifiber import HiFiber  # noqa: E402


def unbound_reads(src, supplied):
    """Flow-sensitive definite-assignment check; returns [(name, line)]"""
    known = set(supplied) | set(dir(builtins))
    errors = []

    def bind(target, bound):
        if isinstance(target, ast.Name):
            bound.add(target.id)
        elif isinstance(target, (ast.Tuple, ast.List)):
            for elt in target.elts:
                bind(elt, bound)

    def expr(node, bound):
        if node is None:
            return
        if isinstance(node, ast.Lambda):
            inner = set(bound) | {a.arg for a in node.args.args}
            expr(node.body, inner)
            return
        if isinstance(node, ast.Name):
            if isinstance(node.ctx, ast.Load) and node.id not in bound \
                    and node.id not in known:
                errors.append((node.id, node.lineno))
            return
        for child in ast.iter_child_nodes(node):
            expr(child, bound)

    def block(stmts, bound):
        for stmt in stmts:
            bound = one(stmt, bound)
        return bound

    def one(stmt, bound):
        if isinstance(stmt, ast.Assign):
            expr(stmt.value, bound)
            new = set(bound)
            for target in stmt.targets:
                if not isinstance(target, (ast.Name, ast.Tuple, ast.List)):
                    expr(target, bound)
                bind(target, new)
            return new
        if isinstance(stmt, ast.AugAssign):
            expr(stmt.value, bound)
            load = ast.copy_location(
                ast.Name(id=stmt.target.id, ctx=ast.Load()), stmt) \
                if isinstance(stmt.target, ast.Name) else stmt.target
            expr(load, bound)
            return bound
        if isinstance(stmt, ast.Expr):
            expr(stmt.value, bound)
            return bound
        if isinstance(stmt, ast.For):
            expr(stmt.iter, bound)
            inner = set(bound)
            bind(stmt.target, inner)
            block(stmt.body, inner)
            # the loop may run zero times and its variables die with it
            return bound
        if isinstance(stmt, ast.If):
            expr(stmt.test, bound)
            then = block(stmt.body, set(bound))
            else_ = block(stmt.orelse, set(bound))
            return then & else_
        raise AssertionError("unexpected statement " + type(stmt).__name__)

    block(ast.parse(src).body, set())
    return errors


# A 1-D convolution whose input carries the filter rank as well.  I is stored
# [S, W]; the loop order is the default one ([Q, S]).
SPEC = """
einsum:
    declaration:
        F: [S]
        I: [W, S]
        O: [Q]
    expressions:
        - O[q] = I[q + s, s] * F[s]
mapping:
    rank-order:
        I: [S, W]
"""

# Same defect, no mapping at all: both ranks of I depend on s (and q)
SPEC2 = """
einsum:
    declaration:
        F: [S]
        I: [W, T]
        O: [Q]
    expressions:
        - O[q] = I[q + s, 2 * s] * F[s]
"""

SUPPLIED = {
    # declared inputs under <Name>_<RankOrder>, rank extents, HiFiber API
    "F_S", "I_SW", "I_WT", "W", "S", "T", "Q", "Tensor", "Fiber"}

failures = []
for name, spec in (("I[q + s, s] stored [S, W]", SPEC),
                   ("I[q + s, 2 * s]", SPEC2)):
    einsum = Einsum.from_str(spec)
    mapping = Mapping.from_str(spec)
    try:
        src = str(HiFiber(einsum, mapping))
    except ValueError:
        # Rejecting the specification is an acceptable repair
        continue

    errs = unbound_reads(src, SUPPLIED)
    if errs:
        failures.append((name, errs, src))

for name, errs, src in failures:
    print("---- " + name + ": emitted program is not closed; unbound reads "
          + str(errs))
    print(src)

assert not failures, \
    "C06 violated: the emitted program reads " + \
    str(sorted({e[0] for f in failures for e in f[1]})) + \
    " which no earlier statement binds (tensor I is left at an un-iterated rank)"
print("ok")
