"""
C06: the explicit shape= argument of the output constructor names a flattened
rank by the concatenation of its constituents (e.g. ``MK``), an identifier that
nothing in the emitted program binds and that the user cannot be expected to
supply (the declared rank extents are M, K and P).
"""
import ast
import sys

sys.path.insert(0, sys.argv[1])

from teaal.parse import Einsum, Mapping  # noqa: E402
from teaal.trans.hifiber import HiFiber  # noqa: E402

SPEC = """
einsum:
  declaration:
    A: [M, K]
    Z: [M, K, P]
  expressions:
    - Z[m, k, p] = A[m, k]
mapping:
  partitioning:
    Z:
      (M, K): [flatten()]
"""

# Names the user supplies: the input tensor, the rank extents; plus the
# HiFiber API
USER = {"A_MK", "M", "K", "P"}
API = {"Tensor", "Fiber", "int", "min", "max", "len", "enumerate", "range"}


def free_names(src):
    """Flow-sensitive definite-assignment analysis (Assign/AugAssign/Expr/For/If)"""
    free = []

    def reads(node, bound):
        local = set()
        for n in ast.walk(node):
            if isinstance(n, ast.Lambda):
                local.update(a.arg for a in n.args.args)
        for n in ast.walk(node):
            if isinstance(n, ast.Name) and isinstance(n.ctx, ast.Load):
                if n.id not in bound and n.id not in local and n.id not in free:
                    free.append(n.id)

    def targets(t):
        return {n.id for n in ast.walk(t) if isinstance(n, ast.Name)}

    def block(stmts, bound):
        for s in stmts:
            if isinstance(s, ast.Assign):
                reads(s.value, bound)
                for t in s.targets:
                    if isinstance(t, (ast.Name, ast.Tuple)):
                        bound |= targets(t)
                    else:
                        reads(t, bound)
            elif isinstance(s, ast.AugAssign):
                reads(s.value, bound)
                reads(ast.Name(id=targets(s.target).pop(), ctx=ast.Load()), bound)
            elif isinstance(s, ast.Expr):
                reads(s.value, bound)
            elif isinstance(s, ast.For):
                reads(s.iter, bound)
                block(s.body, bound | targets(s.target))
            elif isinstance(s, ast.If):
                reads(s.test, bound)
                b1, b2 = set(bound), set(bound)
                block(s.body, b1)
                block(s.orelse, b2)
                bound |= (b1 & b2)
            else:
                raise AssertionError("unexpected statement " + type(s).__name__)

    block(ast.parse(src).body, set())
    return free


code = str(HiFiber(Einsum.from_str(SPEC), Mapping.from_str(SPEC)))
print(code)

unbound = [n for n in free_names(code) if n not in USER and n not in API]
assert not unbound, \
    "emitted program reads identifiers that are never bound and that the " \
    "specification does not name: " + str(unbound) + \
    " (first line: " + code.splitlines()[0] + ")"
print("OK")
