"""
C13: a hardware merger bound in two consecutive Einsums does not prevent their
fusion.

Fusion.add_einsum collects the components an Einsum occupies with
Hardware.get_components(einsum, FunctionalComponent).  MergerComponent derives
from Component directly, not from FunctionalComponent - although the docstring
of FunctionalComponent reads "Superclass for all functional unit components
(compute, intersection, mergers, etc.)" - so a merger never enters
components_used.  Two Einsums that both swizzle their input on the same
merger are reported in one block, i.e. a functional component is bound in more
than one Einsum of the block.
"""
import ast
import sys

sys.path.insert(0, sys.argv[1])

from teaal.parse import *  # noqa: E402,F401,F403
from teaal.trans.hifiber import HiFiber  # noqa: E402


def make_yaml(z_unit, z_binding):
    return """
einsum:
  declaration:
    A: [K, M, N]
    T: [K, M, N]
    Z: [M, N]
  expressions:
    - T[k, m, n] = A[k, m, n]
    - Z[m, n] = T[k, m, n]
mapping:
  rank-order:
    A: [K, M, N]
    T: [M, K, N]
    Z: [M, N]
  loop-order:
    T: [M, K, N]
    Z: [M, N, K]
  spacetime:
    T:
      space: [M]
      time: [K, N]
    Z:
      space: [M]
      time: [N, K]
format:
  Z:
    default:
      rank-order: [M, N]
      M:
        format: U
        pbits: 32
      N:
        format: C
        cbits: 32
        pbits: 64
architecture:
  Acc:
  - name: System
    attributes:
      clock_frequency: 1000
    subtree:
    - name: PE[0..3]
      local:
      - name: SortHW0
        class: Merger
        attributes:
          inputs: 64
          comparator_radix: 64
      - name: SortHW1
        class: Merger
        attributes:
          inputs: 64
          comparator_radix: 64
      - name: Adder
        class: compute
        attributes:
          type: add
bindings:
  T:
  - config: Acc
    prefix: tmp/T
  - component: SortHW0
    bindings:
    - tensor: A
      init-ranks: [K, M, N]
      final-ranks: [M, K, N]
  Z:
  - config: Acc
    prefix: tmp/Z
  - component: %s
    bindings:
%s
  - component: Adder
    bindings:
    - op: add
""" % (z_unit, z_binding)


MERGE_T = """    - tensor: T
      init-ranks: [M, K, N]
      final-ranks: [M, N, K]"""


def dump_info(yaml):
    text = str(HiFiber(Einsum.from_str(yaml), Mapping.from_str(yaml),
                       Architecture.from_str(yaml), Bindings.from_str(yaml),
                       Format.from_str(yaml)))
    blocks = None
    merges = []
    for stmt in ast.parse(text).body:
        if not isinstance(stmt, ast.Assign):
            continue
        target = ast.unparse(stmt.targets[0])
        if target == "metrics['blocks']":
            blocks = ast.literal_eval(stmt.value)
        # metrics[einsum][merger][tensor] = Compute.numSwaps(...)
        if isinstance(stmt.value, ast.Call) and ast.unparse(
                stmt.value.func) == "Compute.numSwaps":
            sub = stmt.targets[0]
            merges.append((ast.literal_eval(sub.value.value.slice),
                           ast.literal_eval(sub.value.slice)))
    assert blocks is not None
    return blocks, merges


# Control: the two Einsums merge on different mergers; same configuration,
# same (empty) temporal prefix, no component in common -> one block
blocks, merges = dump_info(make_yaml("SortHW1", MERGE_T))
assert merges == [("T", "SortHW0"), ("Z", "SortHW1")], merges
assert blocks == [["T", "Z"]], blocks

# Both Einsums occupy the single merger SortHW0
blocks, merges = dump_info(make_yaml("SortHW0", MERGE_T))
assert merges == [("T", "SortHW0"), ("Z", "SortHW0")], merges

for block in blocks:
    users = [einsum for einsum, merger in merges
             if merger == "SortHW0" and einsum in block]
    assert len(users) <= 1, \
        "metrics[\"blocks\"] == %s: merger SortHW0 does work for Einsums %s " \
        "of one fusion block; a functional component bound in more than " \
        "one Einsum must start a new block (expected [['T'], ['Z']])" % (
            blocks, users)

assert blocks == [["T"], ["Z"]], blocks
print("OK")
