"""
C13: the temporal prefix used for fusion is cut at the first rank of the
spacetime `space` LIST, not at the first spatial rank of the LOOP ORDER.

When an Einsum lists more than one space rank and the list is not written in
loop order (nothing requires that: the list only fixes the order of the space
stamp), Fusion.add_einsum counts a spatial rank as part of the "temporal ranks
ahead of the first spatial rank".  Einsums with different temporal prefixes get
fused, and Einsums with identical prefixes get split.
"""
import ast
import sys

sys.path.insert(0, sys.argv[1])

from teaal.ir.fusion import Fusion  # noqa: E402
from teaal.ir.hardware import Hardware  # noqa: E402
from teaal.ir.program import Program  # noqa: E402
from teaal.parse import *  # noqa: E402,F401,F403
from teaal.trans.hifiber import HiFiber  # noqa: E402


def make_yaml(loop_t, loop_z, space_t, time_t, space_z, time_z):
    return """
    einsum:
      declaration:
        A: [K, M]
        B: [K, N]
        T: [K, M, N]
        C: [M, N]
        Z: [M, N]
      expressions:
      - T[k, m, n] = A[k, m] * B[k, n]
      - Z[m, n] = T[k, m, n] * C[m, n]
    mapping:
      loop-order:
        T: %s
        Z: %s
      spacetime:
        T:
          space: %s
          time: %s
        Z:
          space: %s
          time: %s
    format:
      Z:
        default:
          rank-order: [M, N]
          M:
            format: C
          N:
            format: C
            pbits: 32
    architecture:
      configA:
      - name: System
        attributes:
          clock_frequency: 1000
        local:
        - name: FPMul0
          class: compute
          attributes:
            type: mul
        - name: FPMul1
          class: compute
          attributes:
            type: mul
    bindings:
      T:
      - config: configA
        prefix: tmp/T
      - component: FPMul0
        bindings:
        - op: mul
      Z:
      - config: configA
        prefix: tmp/Z
      - component: FPMul1
        bindings:
        - op: mul
    """ % (loop_t, loop_z, space_t, time_t, space_z, time_z)


def temporal_prefix(loop, space):
    """Independent oracle: loop ranks ahead of the first spatial loop rank"""
    prefix = []
    for rank in loop:
        if rank in space:
            break
        prefix.append(rank)
    return prefix


def blocks_from_fusion(yaml):
    program = Program(Einsum.from_str(yaml), Mapping.from_str(yaml))
    hardware = Hardware(
        Architecture.from_str(yaml),
        Bindings.from_str(yaml),
        program)
    fusion = Fusion(hardware)
    for i in range(2):
        program.add_einsum(i)
        fusion.add_einsum(program)
        program.reset()
    return fusion.get_blocks()


def blocks_from_dump(yaml):
    text = str(HiFiber(Einsum.from_str(yaml), Mapping.from_str(yaml),
                       Architecture.from_str(yaml), Bindings.from_str(yaml),
                       Format.from_str(yaml)))
    for stmt in ast.parse(text).body:
        if isinstance(stmt, ast.Assign) and \
                ast.unparse(stmt.targets[0]) == "metrics['blocks']":
            return ast.literal_eval(stmt.value)
    raise AssertionError("no metrics[\"blocks\"] in the dump")


def check(name, loop_t, loop_z, space_t, time_t, space_z, time_z):
    yaml = make_yaml(loop_t, loop_z, space_t, time_t, space_z, time_z)

    # Same configuration, disjoint components: only the temporal prefixes
    # decide
    same = temporal_prefix(loop_t, space_t) == temporal_prefix(loop_z, space_z)
    expected = [["T", "Z"]] if same else [["T"], ["Z"]]

    for how, blocks in [("Fusion.get_blocks()", blocks_from_fusion(yaml)),
                        ("metrics[\"blocks\"]", blocks_from_dump(yaml))]:
        assert blocks == expected, \
            "%s: %s is %s but the temporal prefixes are T: %s, Z: %s, " \
            "so the legal partition is %s" % (
                name, how, blocks,
                temporal_prefix(loop_t, space_t),
                temporal_prefix(loop_z, space_z), expected)


# Control: single space rank (what the test-suite pins)
check("control", ["K", "M", "N"], ["K", "M", "N"],
      ["N"], ["K", "M"], ["N"], ["K", "M"])
check("control-2", ["K", "M", "N"], ["K", "M", "N"],
      ["M"], ["K", "N"], ["N"], ["K", "M"])

# T: loop [K, M, N], space [N, M] -> M is the first spatial loop rank, the
#    temporal prefix is [K]
# Z: loop [K, M, N], space [N]    -> temporal prefix [K, M]
# The prefixes differ, so T and Z must not share a block
check("fused-although-prefixes-differ", ["K", "M", "N"], ["K", "M", "N"],
      ["N", "M"], ["K"], ["N"], ["K", "M"])

# Both Einsums have the same loop order and the same set of space ranks
# {M, N}; only the order in which the space stamp is written differs.  The
# temporal prefix of both is [K], so they fuse
check("split-although-prefixes-equal", ["K", "M", "N"], ["K", "M", "N"],
      ["N", "M"], ["K"], ["M", "N"], ["K"])

print("OK")
