"""
C18: a rank that is flattened by one rank tuple may not be partitioned anywhere
else ("Cannot flatten rank K because it will also be independently
partitioned").  Partitioning.__check_flatten only looks for a single-rank key
(K,), so a rank that occurs in TWO flatten tuples - (K, M) and (K, N) - passes.
With the default loop order the compiler happens to die with an incidental
ValueError ('K' is not in list), but as soon as the loop order is spelled out
the specification is compiled silently, and the emitted loop nest has lost the
contraction over k: every (k, m) element of A is multiplied with every (k', n)
element of B.
"""
import ast
import sys

sys.path.insert(0, sys.argv[1])

from teaal.parse import Einsum, Mapping  # noqa: E402
from teaal.trans.hifiber import HiFiber  # noqa: E402

SPEC = """
einsum:
  declaration:
    A: [K, M]
    B: [K, N]
    Z: [M, N]
  expressions:
    - Z[m, n] = A[k, m] * B[k, n]
mapping:
  partitioning:
    Z:
      (K, M): [flatten()]
      (K, N): [flatten()]
  loop-order:
    Z: [KM, KN]
"""

# The legal neighbour: only one tuple uses K
LEGAL = SPEC.replace("      (K, N): [flatten()]\n", "").replace("[KM, KN]", "[KM, N]")


def compile_(spec):
    return str(HiFiber(Einsum.from_str(spec), Mapping.from_str(spec)))


# sanity: the neighbouring legal specification compiles
ast.parse(compile_(LEGAL))

try:
    text = compile_(SPEC)
except ValueError as e:
    print("rejected as required:", e)
    sys.exit(0)

# Show what was silently emitted: two nested loops that both bind k and never
# compare/intersect the two k coordinates
fors = [n for n in ast.walk(ast.parse(text)) if isinstance(n, ast.For)]
targets = [ast.unparse(f.target) for f in fors]
iters = [ast.unparse(f.iter) for f in fors]
print(text)
assert False, (
    "rank K is flattened by two different rank tuples, (K, M) and (K, N), yet the "
    "specification was compiled instead of being rejected with ValueError; emitted loops "
    + str(list(zip(targets, iters))) +
    " iterate A's and B's k independently, so the contraction over k is lost")
