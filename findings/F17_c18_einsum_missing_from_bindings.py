"""
C18: "an Einsum without accelerator config in the bindings is rejected with a
ValueError".  Bindings.__init__ enforces this only for Einsums that have an
entry in the bindings section.  An Einsum that is left out of the bindings
altogether (the most direct way of having no accelerator config) is not
diagnosed: Hardware.__init__ looks the config up with a bare dictionary access
and the user gets KeyError('T') instead of the stated ValueError
"Accelerator config and prefix missing for Einsum T".
"""
import sys

sys.path.insert(0, sys.argv[1])

from teaal.parse import Architecture, Bindings, Einsum, Format, Mapping  # noqa: E402
from teaal.trans.hifiber import HiFiber  # noqa: E402

EINSUM = """
einsum:
  declaration:
    A: [M]
    T: [M]
    Z: [M]
  expressions:
    - T[m] = A[m]
    - Z[m] = T[m]
mapping:
  spacetime:
    T:
      space: []
      time: [M]
    Z:
      space: []
      time: [M]
architecture:
  Config0:
  - name: System
    attributes:
      clock_frequency: 1000000000
    local:
    - name: Memory
      class: DRAM
      attributes:
        datawidth: 8
        bandwidth: 128
    subtree:
    - name: PE[0..7]
      local:
      - name: MAC
        class: compute
        attributes:
          type: add
format:
  A:
    default:
      rank-order: [M]
      M:
        format: C
        pbits: 32
  T:
    default:
      rank-order: [M]
      M:
        format: C
        pbits: 32
  Z:
    default:
      rank-order: [M]
      M:
        format: C
        pbits: 32
"""

BIND_T = """  T:
  - config: Config0
    prefix: tmp/T
  - component: MAC
    bindings:
    - op: add
"""
BIND_Z = """  Z:
  - config: Config0
    prefix: tmp/Z
  - component: MAC
    bindings:
    - op: add
"""


def compile_(bindings):
    spec = EINSUM + "bindings:\n" + bindings
    return str(HiFiber(Einsum.from_str(spec), Mapping.from_str(spec),
                       Architecture.from_str(spec), Bindings.from_str(spec),
                       Format.from_str(spec)))


# sanity: with a config for both Einsums the specification is legal
assert "Metrics" in compile_(BIND_T + BIND_Z)

# the literal instance pinned by the tests: T listed, but without a config
try:
    compile_("  T:\n  - component: MAC\n    bindings:\n    - op: add\n" + BIND_Z)
    assert False, "T listed without config was compiled"
except ValueError:
    pass

# the injected instance: T has no entry (hence no accelerator config) at all
try:
    text = compile_(BIND_Z)
except ValueError as e:
    print("rejected as required:", e)
    sys.exit(0)
except Exception as e:
    assert False, (
        "Einsum T has no accelerator config in the bindings, but the compiler raised " +
        type(e).__name__ + "(" + str(e) + ") instead of the stated ValueError")

assert False, "Einsum T has no accelerator config in the bindings, but a program was returned:\n" + text
