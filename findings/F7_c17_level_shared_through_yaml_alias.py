#!/usr/bin/env python3
"""
F7 (C17 / C14): an architecture level that two configurations share through a YAML
anchor/alias is one dictionary; Architecture.__init__ rewrote its name in place and
visited it twice, so 'PE[0..7]' ended up with num = 1 (for both configurations).

usage: F7_...py [repo root]   exit 0: 8 instances read back, exit 1: defect present
"""
import sys
sys.path.insert(0, sys.argv[1] if len(sys.argv) > 1 else "/repo")
from teaal.parse.arch import Architecture

TXT = """
architecture:
  ConfigA:
  - name: System
    subtree:
    - &pe
      name: PE[0..7]
      local:
      - name: Mul
        class: compute
        attributes: {type: mul}
  ConfigB:
  - name: System
    subtree:
    - *pe
"""
spec = Architecture.from_str(TXT).get_spec()["architecture"]
got = {c: spec[c][0]["subtree"][0]["num"] for c in ("ConfigA", "ConfigB")}
print(got)
assert got == {"ConfigA": 8, "ConfigB": 8}, "PE[0..7] was read as %s instances" % got
