"""
F5 (C14/M7): Hardware.components is keyed by component name only.  When two
architecture configurations contain a component of the same name (the
repository's own OuterSPACE specification does: MainMemory, RegFile), the
object of the configuration built last answers every lookup, so an Einsum that
runs on the first configuration is timed with the other configuration's
instance count.

Here: T runs on `small` (FPMul in PE[0..3]: 4 instances), Z on `big` (FPMul in
PE[0..7]: 8 instances), both at 1 kHz.  Expected divisors 4000 and 8000.
"""
import re
import sys

sys.path.insert(0, sys.argv[1] if len(sys.argv) > 1 else "/repo")

from teaal.parse import Architecture, Bindings, Einsum, Format, Mapping  # noqa
from teaal.trans.hifiber import HiFiber  # noqa

YAML = """
einsum:
  declaration:
    A: [M]
    B: [M]
    T: [M]
    Z: [M]
  expressions:
  - T[m] = A[m] * B[m]
  - Z[m] = T[m] * B[m]
mapping:
  spacetime:
    T:
      space: []
      time: [M]
    Z:
      space: []
      time: [M]
format:
  T:
    default:
      rank-order: [M]
      M:
        format: C
        pbits: 64
  Z:
    default:
      rank-order: [M]
      M:
        format: C
        pbits: 64
architecture:
  small:
  - name: System
    attributes:
      clock_frequency: 1000
    subtree:
    - name: PE[0..3]
      local:
      - name: FPMul
        class: compute
        attributes:
          type: mul
  big:
  - name: System
    attributes:
      clock_frequency: 1000
    subtree:
    - name: PE[0..7]
      local:
      - name: FPMul
        class: compute
        attributes:
          type: mul
bindings:
  T:
  - config: small
    prefix: tmp/T
  - component: FPMul
    bindings:
    - op: mul
  Z:
  - config: big
    prefix: tmp/Z
  - component: FPMul
    bindings:
    - op: mul
"""
objs = [c.from_str(YAML) for c in (Einsum, Mapping, Architecture, Bindings, Format)]
text = str(HiFiber(*objs))
got = dict(re.findall(r'metrics\["(\w)"\]\["FPMul"\]\["time"\] = .* / (\d+)', text))
print("divisors:", got)
assert got == {"T": "4000", "Z": "8000"}, got
