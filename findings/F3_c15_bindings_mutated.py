import sys, copy
from teaal.parse import *
from teaal.trans.hifiber import HiFiber
for name in ["extensor", "gamma", "outerspace", "sigma", "extensor-energy"]:
    fn = "/repo/tests/integration/%s.yaml" % name
    try:
        open(fn)
    except OSError:
        print("skip", name); continue
    e = Einsum.from_file(fn); m = Mapping.from_file(fn); a = Architecture.from_file(fn); b = Bindings.from_file(fn); f = Format.from_file(fn)
    snap = copy.deepcopy(b.__dict__)
    s1 = str(HiFiber(e, m, a, b, f))
    print(name, "bindings unchanged:", snap == b.__dict__)
    try:
        s2 = str(HiFiber(e, m, a, b, f))
        print(name, "second compile same:", s1 == s2)
    except Exception as ex:
        print(name, "second compile FAILED:", type(ex).__name__, str(ex)[:100])
