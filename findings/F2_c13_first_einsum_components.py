import sys
sys.path.insert(0, '/repo' if len(sys.argv) < 2 else sys.argv[1])
sys.path.insert(0, (sys.path[0]) + '/tests/ir')
from test_fusion import make_yaml, parse_yamls
from teaal.ir.fusion import Fusion
spacetime = """
        T:
          space: [N]
          time: [M, K]
        Z:
          space: [N]
          time: [M, K]
"""
bindings = """
      T:
      - config: configA
        prefix: tmp/T
      - component: FPMul0
        bindings:
        - op: mul
      Z:
      - config: configA
        prefix: tmp/Z
      - component: FPMul0
        bindings:
        - op: mul
"""
program, hardware, format_ = parse_yamls(make_yaml(spacetime, bindings))
fusion = Fusion(hardware)
program.add_einsum(0); fusion.add_einsum(program)
program.add_einsum(1); fusion.add_einsum(program)
print(fusion.get_blocks())
assert fusion.get_blocks() == [["T"], ["Z"]]
