"""
C15 (and C17, instance count N+1): Architecture.__init__ rewrites the YAML
dictionary it is given in place ("PE[0..7]" -> name "PE", num 8) and keeps a
reference to it.  Parsing the same loaded YAML dictionary a second time - a
legal call of the public constructor, and exactly what a driver does that
loads a file once and compiles it twice - sees the already rewritten name
"PE", takes it for a single level and overwrites num with 1.  Because the
first Architecture object shares the dictionary, it silently changes too, and
compiling again FROM THE SAME FIVE PARSED OBJECTS emits a different program
(the compute time is divided by 1 instance instead of 8).

Exits non-zero on the unchanged tree.
"""
import copy
import sys

sys.path.insert(0, sys.argv[1])

from teaal.parse import Architecture, Bindings, Einsum, Format, Mapping  # noqa: E402
from teaal.parse.yaml import YamlParser  # noqa: E402
from teaal.trans.hifiber import HiFiber  # noqa: E402

SPEC = """
einsum:
  declaration:
    A: [M]
    B: [M]
    Z: [M]
  expressions:
    - Z[m] = A[m] * B[m]
mapping:
  spacetime:
    Z:
      space: []
      time: [M]
architecture:
  accel:
  - name: System
    attributes:
      clock_frequency: 1000
    subtree:
    - name: PE[0..7]
      local:
      - name: MAC
        class: compute
        attributes:
          type: mul
bindings:
  Z:
  - config: accel
    prefix: tmp/Z
  - component: MAC
    bindings:
    - op: mul
format:
  Z:
    default:
      rank-order: [M]
      M:
        format: C
        pbits: 32
"""

yaml = YamlParser.parse_str(SPEC)

# First compilation
objs = (Einsum(yaml), Mapping(yaml), Architecture(yaml), Bindings(yaml),
        Format(yaml))
arch = objs[2]
before = copy.deepcopy(arch.get_spec())
pe_before = before["architecture"]["accel"][0]["subtree"][0]
assert (pe_before["name"], pe_before["num"]) == ("PE", 8), pe_before
text1 = str(HiFiber(*objs))

# Second compilation from the same loaded YAML (fresh parser objects)
objs2 = (Einsum(yaml), Mapping(yaml), Architecture(yaml), Bindings(yaml),
         Format(yaml))
text2 = str(HiFiber(*objs2))

pe2 = objs2[2].get_spec()["architecture"]["accel"][0]["subtree"][0]
errors = []
if pe2["num"] != 8:
    errors.append("re-parsing the same YAML gives PE[0..7] %d instance(s) "
                  "instead of 8" % pe2["num"])

if arch.get_spec() != before:
    errors.append("the first Architecture object was changed by constructing "
                  "another Architecture")

# Third compilation: the very same five objects as the first one
text3 = str(HiFiber(*objs))
if text3 != text1:
    diff = [(a, b) for a, b in zip(text1.split("\n"), text3.split("\n"))
            if a != b]
    errors.append("compiling again from the same five parsed objects emits a "
                  "different program, e.g. %r -> %r" % diff[0])

if text2 != text1:
    errors.append("the second compilation of the same YAML differs from the "
                  "first")

assert not errors, "; ".join(errors)
print("ok")
