import ast, sys
sys.path.insert(0, sys.argv[1] if len(sys.argv) > 1 else "/repo")
from teaal.parse import *
from teaal.trans.hifiber import HiFiber
y = """
einsum:
  declaration:
    A: [M, K]
    Z: [M, K]
  expressions:
    - Z[m, k] = A[m, k]
mapping:
  partitioning:
    Z:
      (M, K): [flatten()]
  loop-order:
    Z: [MK]
  spacetime:
    Z:
      space: []
      time: [MK.STYLE]
"""
for style in ("pos", "coord"):
    yy = y.replace("STYLE", style)
    t = str(HiFiber(Einsum.from_str(yy), Mapping.from_str(yy)))
    tree = ast.parse(t)
    bound = {n.id for n in ast.walk(tree) if isinstance(n, ast.Name) and isinstance(n.ctx, ast.Store)}
    read = {n.id for n in ast.walk(tree) if isinstance(n, ast.Name) and isinstance(n.ctx, ast.Load)}
    print(style, sorted(x for x in read - bound if x.islower()))
    if style == "coord": print(t)
