"""
C10: in metrics mode the loop header that traces an eagerly buffered fiber
(MetricsHeaderNode) has no dependence edge on the statement that produces the
fiber.  When the fiber is produced between two loops -- by a getPayload() of a
tensor that cannot co-iterate a flattened rank, or by dynamic partitioning --
the sorted statement list puts the header BEFORE the statement it reads from.

usage: demo.py <repository root>
"""
import ast
import sys

sys.path.insert(0, sys.argv[1])

from teaal.ir.flow_graph import FlowGraph  # noqa: E402
from teaal.ir.flow_nodes import *  # noqa: E402,F401,F403
from teaal.ir.hardware import Hardware  # noqa: E402
from teaal.ir.metrics import Metrics  # noqa: E402
from teaal.ir.program import Program  # noqa: E402
from teaal.parse import *  # noqa: E402,F401,F403
from teaal.trans.hifiber import HiFiber  # noqa: E402

ARCH = """
architecture:
  Accel:
  - name: System
    attributes:
      clock_frequency: 1000000000
    local:
    - name: MainMemory
      class: DRAM
      attributes:
        bandwidth: 1024
    subtree:
    - name: Chip
      local:
      - name: Buf
        class: Buffet
        attributes:
          width: 64
          depth: 1024
          bandwidth: 4096
"""

# Same shape as tests/integration/sigma.yaml: A is flattened, B and Z are
# reached with getPayload() inside the loop over the flattened rank.  The
# buffet eagerly loads the N fiber of B and evicts it when KM advances.
SPEC_GET_PAYLOAD = """
einsum:
  declaration:
    A: [K, M]
    B: [K, N]
    Z: [M, N]
  expressions:
    - Z[m, n] = A[k, m] * B[k, n]
mapping:
  partitioning:
    Z:
      (K, M): [flatten()]
  loop-order:
    Z: [KM, N]
  spacetime:
    Z:
      space: []
      time: [KM, N]
format:
  A:
    default:
      rank-order: [KM]
      KM:
        format: C
        cbits: 32
        pbits: 64
  B:
    default:
      rank-order: [K, N]
      K:
        format: U
        pbits: 32
      N:
        format: C
        cbits: 32
        pbits: 64
""" + ARCH + """
bindings:
  Z:
  - config: Accel
    prefix: tmp/z
  - component: MainMemory
    bindings:
    - tensor: B
      rank: N
      type: coord
      format: default
  - component: Buf
    bindings:
    - tensor: B
      rank: N
      type: coord
      format: default
      evict-on: KM
      style: eager
"""

# B is split by occupancy inside the K loop; the buffet eagerly loads the
# whole tile below N1
SPEC_DYN_PART = """
einsum:
  declaration:
    A: [K, M]
    B: [K, N]
    Z: [M, N]
  expressions:
    - Z[m, n] = A[k, m] * B[k, n]
mapping:
  partitioning:
    Z:
      N: [uniform_occupancy(B.4)]
  loop-order:
    Z: [K, N1, N0, M]
  spacetime:
    Z:
      space: []
      time: [K, N1, N0, M]
format:
  B:
    default:
      rank-order: [K, N1, N0]
      K:
        format: C
      N1:
        format: C
        cbits: 32
        pbits: 32
      N0:
        format: C
        cbits: 32
        pbits: 64
""" + ARCH + """
bindings:
  Z:
  - config: Accel
    prefix: tmp/z
  - component: MainMemory
    bindings:
    - tensor: B
      rank: N1
      type: payload
      format: default
  - component: Buf
    bindings:
    - tensor: B
      rank: N1
      type: payload
      format: default
      evict-on: K
      style: eager
"""


def parse(spec):
    return Einsum.from_str(spec), Mapping.from_str(spec), \
        Architecture.from_str(spec), Bindings.from_str(spec), \
        Format.from_str(spec)


def sorted_nodes(spec, eager_rank):
    """Build the IR through the public API and return the sorted node list"""
    einsum, mapping, arch, bindings, format_ = parse(spec)
    program = Program(einsum, mapping)
    hardware = Hardware(arch, bindings, program)
    program.add_einsum(0)
    metrics = Metrics(program, hardware, format_)

    # Premise: B is eagerly buffered from eager_rank, so the header of that
    # loop emits b_<rank>.trace("eager_b_<rank>_read")
    info = metrics.get_collected_tensor_info("B")
    assert (eager_rank, eager_rank, False) in info, \
        "test premise: eager binding rooted at " + eager_rank + ": " + str(info)

    return FlowGraph(program, metrics, ["hoist"]).get_sorted()


def check_order(order, header, producers, what):
    for node in [header] + producers:
        assert node in order, "test premise: " + repr(node) + " is a node"
    pos = {node: i for i, node in enumerate(order)}
    late = [node for node in producers if pos[node] > pos[header]]
    assert not late, \
        "C10 violated (" + what + "): " + repr(header) + " reads the fiber " \
        "produced by " + ", ".join(repr(n) for n in late) + " but is sorted " \
        "before it.\n  sorted: " + \
        ", ".join(repr(n) for n in order[pos[header] - 1:max(pos[n] for n in late) + 2])


def check_text(spec, fiber, what):
    einsum, mapping, arch, bindings, format_ = parse(spec)
    try:
        text = str(HiFiber(einsum, mapping, arch, bindings, format_))
    except AssertionError as e:
        raise AssertionError(
            "C10 violated (" + what + "): the header is translated before "
            "the statements producing " + fiber + "; the compiler dies with "
            "a bare AssertionError in Collector.trace_tree") from e

    ast.parse(text)
    lines = text.split("\n")
    defs = [i for i, line in enumerate(lines)
            if line.strip().startswith(fiber + " = ")]
    uses = [i for i, line in enumerate(lines) if fiber + ".trace(" in line]
    assert defs and uses, fiber + " is defined and traced\n" + text
    assert defs[0] < uses[0], \
        "C10 violated (" + what + "): " + fiber + " is traced on line " + \
        str(uses[0] + 1) + " but only assigned on line " + \
        str(defs[0] + 1) + " of the emitted program:\n" + \
        "\n".join(lines[min(uses[0], defs[0]) - 4:max(uses[0], defs[0]) + 3])


# 1. getPayload() between the loops: the emitted program is silently wrong
check_text(SPEC_GET_PAYLOAD, "b_n", "getPayload between loops, emitted text")
check_order(
    sorted_nodes(SPEC_GET_PAYLOAD, "N"),
    MetricsHeaderNode("N"),
    [GetPayloadNode("B", ["K"])],
    "getPayload between loops, FlowGraph.get_sorted()")

# 2. dynamic partitioning between the loops
check_order(
    sorted_nodes(SPEC_DYN_PART, "N1"),
    MetricsHeaderNode("N1"),
    [FromFiberNode("B", "N"), PartNode("B", ("N",)),
     GetRootNode("B", ["N1", "N0"])],
    "dynamic partition between loops, FlowGraph.get_sorted()")
check_text(SPEC_DYN_PART, "b_n1", "dynamic partition between loops")

print("ok")
