import ast, sys
from teaal.parse import *
from teaal.trans.hifiber import HiFiber
yaml = """
einsum:
  declaration:
    F: [S]
    I: [W]
    O: [Q]
  expressions:
    - O[q] = I[q + s] * F[s]
mapping:
  partitioning:
    O:
      Q: [uniform_shape(10)]
      W: [follow(Q)]
  loop-order:
    O: [Q1, W0, Q0]
  spacetime:
    O:
      space: []
      time: [Q1.coord, W0.coord, Q0.coord]
format:
  O:
    default:
      rank-order: [Q]
      Q:
        format: C
        pbits: 32
architecture:
  accel:
  - name: System
    attributes:
      clock_frequency: 1000000000
    local:
    - name: FPMul
      class: compute
      attributes:
        type: mul
bindings:
  O:
  - config: accel
    prefix: tmp/O
  - component: FPMul
    bindings:
    - op: mul
"""
objs = [c.from_str(yaml) for c in (Einsum, Mapping, Architecture, Bindings, Format)]
text = str(HiFiber(*objs))
print(text.split("Metrics.endCollect")[0][-900:])
# closedness of q1_pos
tree = ast.parse(text)
bound = {n.id for n in ast.walk(tree) if isinstance(n, ast.Name) and isinstance(n.ctx, ast.Store)}
read = {n.id for n in ast.walk(tree) if isinstance(n, ast.Name) and isinstance(n.ctx, ast.Load)}
print("q1_pos read:", "q1_pos" in read, "bound:", "q1_pos" in bound)
assert ("q1_pos" not in read) or ("q1_pos" in bound)
