from teaal.parse import *
from teaal.trans.hifiber import HiFiber
yaml = """
einsum:
  declaration:
    F: [S]
    I: [W]
    O: [Q]
  expressions:
    - O[q] = I[2*q + s] * F[s]
mapping:
  partitioning:
    O:
      Q: [nway_shape(3)]
      W: [follow(Q)]
  loop-order:
    O: [Q1, W0, Q0]
"""
e = Einsum.from_str(yaml); m = Mapping.from_str(yaml)
print(HiFiber(e, m))
