"""
Abstract values of the builder abstract interpreter (DESIGN.md 2.4).

All values are immutable and hashable (they key the call memo).
"""

from __future__ import annotations

from dataclasses import dataclass, field
from typing import FrozenSet, Optional, Tuple

HOLE = ("HOLE",)          # unknown piece of a string template
MAX_TEMPLATES = 24
MAX_KNOWN = 12


class AV:
    tag = "av"


@dataclass(frozen=True)
class Bot(AV):
    tag = "bot"


@dataclass(frozen=True)
class Top(AV):
    tag = "top"
    why: str = ""

    def __eq__(self, other):
        return isinstance(other, Top)

    def __hash__(self):
        return hash("TOP")


BOT = Bot()
TOP = Top()


@dataclass(frozen=True)
class HE(AV):
    """HiFiber expression: set of top-level kinds.
    kinds: "ATOM", "NEG", "LAMBDA", "BIN:<op text>"
    leaf:  the value itself may be a bare variable leaf (EVar)
    ctx:   positions (op text, side) in which a variable leaf may occur inside;
           side in L, R, RECV (postfix receiver), ITER"""
    tag = "he"
    kinds: FrozenSet[str] = frozenset()
    leaf: bool = False
    ctx: FrozenSet[Tuple[str, str]] = frozenset()


@dataclass(frozen=True)
class HStmt(AV):
    """Statement: 'E' certainly prints nothing, 'N' certainly prints something, 'M' either."""
    tag = "hstmt"
    state: str = "M"


@dataclass(frozen=True)
class HArg(AV):
    tag = "harg"
    expr: AV = TOP


@dataclass(frozen=True)
class HAssn(AV):
    tag = "hassn"
    kind: str = "var"


@dataclass(frozen=True)
class HPay(AV):
    tag = "hpay"


@dataclass(frozen=True)
class HOp(AV):
    tag = "hop"
    ops: FrozenSet[str] = frozenset()


@dataclass(frozen=True)
class Str(AV):
    tag = "str"
    tmpls: FrozenSet[Tuple] = frozenset()    # each template: tuple of str | HOLE

    @staticmethod
    def lit(s: str) -> "Str":
        return Str(frozenset({(s,) if s != "" else ()}))

    @staticmethod
    def hole() -> "Str":
        return Str(frozenset({(HOLE,)}))

    def known(self) -> Optional[str]:
        if len(self.tmpls) == 1:
            t = next(iter(self.tmpls))
            if all(isinstance(p, str) for p in t):
                return "".join(t)
        return None


def _norm_tmpl(t: Tuple) -> Tuple:
    out = []
    for p in t:
        if p == HOLE:
            if out and out[-1] == HOLE:
                continue
            out.append(HOLE)
        elif p == "":
            continue
        elif out and isinstance(out[-1], str) and out[-1] != HOLE and isinstance(p, str):
            out[-1] = out[-1] + p
        else:
            out.append(p)
    return tuple(out)


def str_concat(a: Str, b: Str) -> Str:
    res = set()
    for x in a.tmpls:
        for y in b.tmpls:
            res.add(_norm_tmpl(x + y))
            if len(res) > MAX_TEMPLATES:
                return Str.hole()
    return Str(frozenset(res))


def str_map(a: Str, fn) -> Str:
    return Str(frozenset(_norm_tmpl(tuple(fn(p) if isinstance(p, str) and p != HOLE else p for p in t))
                         for t in a.tmpls))


@dataclass(frozen=True)
class Int(AV):
    tag = "int"
    val: Optional[int] = None


@dataclass(frozen=True)
class Bool(AV):
    tag = "bool"
    val: Optional[bool] = None


@dataclass(frozen=True)
class NoneV(AV):
    tag = "none"


NONE = NoneV()


@dataclass(frozen=True)
class Lst(AV):
    """List / tuple / set / sequence.  items known -> exact; else summary."""
    tag = "lst"
    items: Optional[Tuple[AV, ...]] = None
    elem: AV = BOT
    may_empty: bool = True

    def element(self) -> AV:
        if self.items is not None:
            return join_all(self.items)
        return self.elem

    def length(self) -> Optional[int]:
        return len(self.items) if self.items is not None else None


@dataclass(frozen=True)
class Dct(AV):
    tag = "dct"
    key: AV = BOT
    val: AV = BOT


@dataclass(frozen=True)
class Obj(AV):
    """Opaque instance of a repo class."""
    tag = "obj"
    cls: str = ""


@dataclass(frozen=True)
class ClsRef(AV):
    tag = "clsref"
    names: FrozenSet[str] = frozenset()


@dataclass(frozen=True)
class Sym(AV):
    """sympy expression of the affine fragment; classes subset of
    Symbol, Integer, Rational, Add, Mul"""
    tag = "sym"
    classes: FrozenSet[str] = frozenset()


SYM_ALL = Sym(frozenset({"Symbol", "Integer", "Rational", "Add", "Mul"}))


@dataclass(frozen=True)
class Func(AV):
    """A callable value that is only passed around (lambda, nested function)."""
    tag = "func"
    name: str = ""


@dataclass(frozen=True)
class Alt(AV):
    """Alternatives of different tags (e.g. None | HE)."""
    tag = "alt"
    alts: Tuple[AV, ...] = ()


def alts_of(v: AV) -> Tuple[AV, ...]:
    if isinstance(v, Alt):
        return v.alts
    if isinstance(v, Bot):
        return ()
    return (v,)


def mk_alt(vs) -> AV:
    vs = [v for v in vs if not isinstance(v, Bot)]
    if not vs:
        return BOT
    if any(isinstance(v, Top) for v in vs):
        return TOP
    by_tag = {}
    for v in vs:
        for a in alts_of(v):
            key = a.tag if a.tag != "obj" else ("obj", a.cls)
            if key in by_tag:
                by_tag[key] = _join_same(by_tag[key], a)
            else:
                by_tag[key] = a
    out = tuple(sorted(by_tag.values(), key=repr))
    if len(out) == 1:
        return out[0]
    return Alt(out)


def _join_same(a: AV, b: AV) -> AV:
    if a == b:
        return a
    if isinstance(a, HE):
        return HE(a.kinds | b.kinds, a.leaf or b.leaf, a.ctx | b.ctx)
    if isinstance(a, HStmt):
        return HStmt(a.state if a.state == b.state else "M")
    if isinstance(a, HArg):
        return HArg(join(a.expr, b.expr))
    if isinstance(a, HAssn):
        return HAssn(a.kind if a.kind == b.kind else "any")
    if isinstance(a, HPay):
        return a
    if isinstance(a, HOp):
        return HOp(a.ops | b.ops)
    if isinstance(a, Str):
        t = a.tmpls | b.tmpls
        if len(t) > MAX_TEMPLATES:
            return Str.hole()
        return Str(t)
    if isinstance(a, Int):
        return Int(a.val if a.val == b.val else None)
    if isinstance(a, Bool):
        return Bool(a.val if a.val == b.val else None)
    if isinstance(a, NoneV):
        return a
    if isinstance(a, Lst):
        if a.items is not None and b.items is not None and len(a.items) == len(b.items):
            return Lst(tuple(join(x, y) for x, y in zip(a.items, b.items)))
        ea, eb = a.element(), b.element()
        may = (a.may_empty if a.items is None else len(a.items) == 0) or \
              (b.may_empty if b.items is None else len(b.items) == 0)
        return Lst(None, join(ea, eb), may)
    if isinstance(a, Dct):
        return Dct(join(a.key, b.key), join(a.val, b.val))
    if isinstance(a, ClsRef):
        return ClsRef(a.names | b.names)
    if isinstance(a, Sym):
        return Sym(a.classes | b.classes)
    if isinstance(a, Func):
        return a
    if isinstance(a, Obj):
        return a
    return TOP


def join(a: AV, b: AV) -> AV:
    if a == b:
        return a
    if isinstance(a, Bot):
        return b
    if isinstance(b, Bot):
        return a
    if isinstance(a, Top) or isinstance(b, Top):
        return TOP
    return mk_alt([a, b])


def join_all(vs) -> AV:
    out: AV = BOT
    for v in vs:
        out = join(out, v)
    return out


def he_atom(leaf: bool = False) -> HE:
    return HE(frozenset({"ATOM"}), leaf, frozenset())


def he_all() -> HE:
    from sa.printer import PREC
    kinds = {"ATOM", "NEG", "LAMBDA"} | {"BIN:" + o for o in PREC}
    return HE(frozenset(kinds), True, frozenset())
