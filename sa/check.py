"""
Command line: /venv/bin/python -m sa.check <ID> [--tier quick|thorough] [--replay <path>]
              /venv/bin/python -m sa.check --self      (setup: sanity + fixtures)
              /venv/bin/python -m sa.check --all       (every claimed property, quick)

cwd is /verif.  The repository analysed is $SA_REPO (default /repo).
"""

from __future__ import annotations

import argparse
import importlib
import json
import os
import sys
import traceback

from sa import report
from sa.db import DB, AnalysisError

CLAIMED = ["C05", "C06", "C07", "C09", "C10", "C12", "C13", "C14", "C15", "C16", "C17", "C18"]


def available():
    out = []
    for pid in CLAIMED:
        try:
            importlib.import_module("sa.rules." + pid.lower())
            out.append(pid)
        except ModuleNotFoundError as e:
            if e.name != "sa.rules." + pid.lower():
                raise
    return out


def run_property(pid: str, tier: str, seed: int, write: bool = True, repo=None) -> int:
    mod = importlib.import_module("sa.rules." + pid.lower())
    rep = report.Report(pid, tier, seed)
    db = DB(repo)
    rep.digest = db.digest
    mod.run(db, rep)
    if tier != "thorough":
        return report.finish(rep, write=write)
    if tier == "thorough":
        from sa import selftest
        st = selftest.run(pid, seed)
        rep.extra["selftest"] = st["summary"]
        rep.notes.append("self-test: %(mutants)d mutants (%(caught)d caught), "
                         "%(benign)d benign variants (%(silent)d silent); stored corpus: "
                         "%(stored_breakages_reported)d of %(stored_breakages)d breakages reported, "
                         "%(refactorings_without_violation)d of %(refactorings)d refactorings without a "
                         "violation, %(corpus_patches_not_applicable)d patches not applicable" % st["summary"])
        code2 = report.finish(rep, write=write)
        if st["errors"]:
            for e in st["errors"]:
                print("ANALYSIS-ERROR: self-test: " + e)
            if code2 == 0:
                code2 = 2
        return code2
    return 2


def main(argv=None) -> int:
    ap = argparse.ArgumentParser()
    ap.add_argument("prop", nargs="?")
    ap.add_argument("--tier", default=os.environ.get("VERIF_TIER", "quick"))
    ap.add_argument("--replay")
    ap.add_argument("--self", dest="self_", action="store_true")
    ap.add_argument("--all", action="store_true")
    ap.add_argument("--no-write", action="store_true")
    a = ap.parse_args(argv)
    seed = int(os.environ.get("VERIF_SEED", "0") or 0)
    tier = a.tier if a.tier in ("quick", "thorough") else "quick"
    try:
        if a.self_:
            db = DB()
            print("parsed %d modules, %d classes, %d functions; digest %s" %
                  (len(db.modules), len(db.classes), len(db.functions), db.digest[:12]))
            from sa import fixtures
            errs = fixtures.run()
            for e in errs:
                print("ANALYSIS-ERROR: fixture: " + e)
            return 2 if errs else 0
        if a.all:
            worst = 0
            for pid in available():
                worst = max(worst, run_property(pid, tier, seed, write=not a.no_write))
            return worst
        if not a.prop:
            ap.error("property id required")
        pid = a.prop.upper()
        if a.replay:
            with open(a.replay) as fh:
                rp = json.load(fh)
            print("replaying %s rule %s at %s (%s)" %
                  (pid, rp.get("rule"), rp.get("where"), rp.get("function")))
            rep = report.Report(pid, tier, seed)
            db = DB()
            mod = importlib.import_module("sa.rules." + pid.lower())
            mod.run(db, rep)
            hits = [v for v in rep.violations
                    if v.rule == rp.get("rule") and v.func == rp.get("function")
                    and v.construct == rp.get("construct")]
            if hits:
                for v in hits:
                    print("  still present: %s %s: %s" % (v.where, v.rule, v.message))
                print("VIOLATION property=%s replay=%s" % (pid, a.replay))
                return 1
            print("  not present on the current tree")
            return 0
        return run_property(pid, tier, seed, write=not a.no_write)
    except AnalysisError as e:
        print("ANALYSIS-ERROR: %s" % e)
        return 2
    except Exception:  # a crash of the checker is never a verdict
        traceback.print_exc()
        print("ANALYSIS-ERROR: checker crashed")
        return 2


if __name__ == "__main__":
    sys.exit(main())
