"""
Compilation modes and interprocedural guard sets (DESIGN.md 2.3, C06/N2, C16).

A *mode atom* is one of the per-Einsum constants
    metrics=on|off      (self.metrics is None / truthy)
    spacetime=on|off    (program.get_spacetime() is None / not)
    slip=on|off         (spacetime.get_slip())
``site_modes(node)`` gives the atoms implied by the control dependence of a
node inside its function; ``function_modes()`` propagates them over the call
graph: the guard of a function is the intersection over all its call sites of
(caller's guard + local guard of the call).  A call of a repo predicate method
in a test contributes the atoms its ``return`` expressions imply.
"""

from __future__ import annotations

import ast
from typing import Dict, List, Optional, Set, Tuple

from sa import paths
from sa.db import DB, FuncInfo, norm, walk_no_nested

NEG = {"metrics=on": "metrics=off", "metrics=off": "metrics=on",
       "spacetime=on": "spacetime=off", "spacetime=off": "spacetime=on",
       "slip=on": "slip=off", "slip=off": "slip=on"}


class Modes:
    def __init__(self, db: DB):
        self.db = db
        self._pred_cache: Dict[str, Set[str]] = {}
        self._fmodes: Optional[Dict[str, Set[str]]] = None
        self._node_kind_modes: Optional[Dict[str, Set[str]]] = None
        self._site_cache: Dict[int, Set[str]] = {}
        self._test_cache: Dict[Tuple[int, bool], Set[str]] = {}

    # ------------------------------------------------------------ one atom
    def atom_modes(self, atom: ast.AST, pol: bool, f: FuncInfo, at: ast.AST, depth: int = 0) -> Set[str]:
        """Mode atoms implied when ``atom`` evaluates to ``pol``."""
        out: Set[str] = set()
        # <local> is not None, the local being None on some paths and a value on one other:
        # the value's own definition site (and its guards) is what holds
        if isinstance(atom, ast.Compare) and len(atom.ops) == 1 and isinstance(atom.ops[0], (ast.Is, ast.IsNot)) \
                and isinstance(atom.comparators[0], ast.Constant) and atom.comparators[0].value is None and \
                isinstance(atom.left, ast.Name) and (isinstance(atom.ops[0], ast.IsNot) == pol) and depth < 4 \
                and hasattr(at, "parent"):
            rdefs = paths.reaching_defs(atom.left.id, at, f.node)
            vals = [(st, v) for st, v in rdefs if not (isinstance(v, ast.Constant) and v.value is None)]
            if len(rdefs) > 1 and len(vals) == 1 and vals[0][1] is not None and isinstance(vals[0][0], ast.stmt):
                st, v = vals[0]
                for t, tp in paths.guards(st, stop=f.node):
                    out |= self._implies(t, tp, f, st, max(depth, 1))
                sub = ast.Compare(left=v, ops=[ast.IsNot()], comparators=[ast.Constant(value=None)])
                out |= self.atom_modes(sub, True, f, st, depth=max(depth, 1) + 1)
                return out
        e = paths.resolve_flow(atom, at, f.node) if depth == 0 else atom
        e = paths.inline_locals(e, f.node)
        # x is None / x is not None
        if isinstance(e, ast.Compare) and len(e.ops) == 1 and isinstance(e.ops[0], (ast.Is, ast.IsNot)) and \
                isinstance(e.comparators[0], ast.Constant) and e.comparators[0].value is None:
            is_none = isinstance(e.ops[0], ast.Is) == pol
            # (A if T else None) is not None  =>  T and A is not None
            if isinstance(e.left, ast.IfExp) and not is_none:
                ie = e.left
                for branch, other, bpol in ((ie.body, ie.orelse, True), (ie.orelse, ie.body, False)):
                    if isinstance(other, ast.Constant) and other.value is None:
                        out |= self._implies(ie.test, bpol, f, at, max(depth, 1))
                        sub = ast.Compare(left=branch, ops=[ast.IsNot()], comparators=[ast.Constant(value=None)])
                        out |= self.atom_modes(sub, True, f, at, depth=max(depth, 1) + 1)
                return out
            k = self._subject(e.left)
            if k == "metrics":
                out.add("metrics=off" if is_none else "metrics=on")
            elif k == "spacetime":
                out.add("spacetime=off" if is_none else "spacetime=on")
            return out
        k = self._subject(e)
        if k == "metrics":
            out.add("metrics=on" if pol else "metrics=off")
            return out
        if k == "spacetime":
            out.add("spacetime=on" if pol else "spacetime=off")
            return out
        if isinstance(e, ast.Call) and isinstance(e.func, ast.Attribute):
            if e.func.attr == "get_slip":
                out.add("slip=on" if pol else "slip=off")
                if pol:
                    out.add("spacetime=on")
                return out
            # any other argument-less query of the Einsum's spacetime object is a configuration
            # fact of this compilation, just like the modes themselves
            if self._subject(e.func.value) == "spacetime" and not e.args and not e.keywords:
                out.add("st.%s()=%s" % (e.func.attr, "true" if pol else "false"))
                out.add("spacetime=on")
                return out
            # predicate method of the repo
            if pol and depth < 3:
                for g in self.db.resolve_call(e, f):
                    out |= self.predicate_true(g, depth + 1)
                return out
            if isinstance(e.func, ast.Name) or True:
                pass
        # a comparison built only from argument-less queries of the spacetime object and constants
        # (len(<st>.get_space()) > 0, <st>.get_style(..) is excluded: it has an argument)
        if isinstance(e, (ast.Compare, ast.Call)) and not out:
            calls = [x for x in ast.walk(e) if isinstance(x, ast.Call) and isinstance(x.func, ast.Attribute)
                     and self._subject(x.func.value) == "spacetime" and not x.args and not x.keywords]
            if calls:
                t = norm(e)
                for c in calls:
                    t = t.replace(norm(c.func.value), "<st>")
                rest = {x.id for x in ast.walk(e) if isinstance(x, ast.Name)} - {"self", "len", "bool", "spacetime"}
                if not rest and "self." not in t.replace("<st>", ""):
                    out.add("st:%s=%s" % (t, "true" if pol else "false"))
                    out.add("spacetime=on")
                    return out
        if isinstance(e, ast.Call) and isinstance(e.func, ast.Name) and e.func.id == "isinstance" and pol \
                and len(e.args) == 2 and isinstance(e.args[1], ast.Name):
            out |= self.node_kind_modes().get(e.args[1].id, set())
        return out

    @staticmethod
    def _subject(e: ast.AST) -> Optional[str]:
        t = norm(e)
        if t == "metrics" or t.endswith(".metrics"):
            return "metrics"
        if t.endswith("get_spacetime()") or t == "spacetime":
            return "spacetime"
        return None

    def test_modes(self, test: ast.AST, pol: bool, f: FuncInfo, at: ast.AST) -> Set[str]:
        out: Set[str] = set()
        e = paths.inline_locals(paths.resolve_flow(test, at, f.node), f.node)
        for atom, p in paths.conjuncts(e, pol):
            out |= self.atom_modes(atom, p, f, at, depth=1)
        return out

    def predicate_true(self, g: FuncInfo, depth: int = 0) -> Set[str]:
        """Atoms implied by ``g(...)`` returning a true value."""
        if g.qualname in self._pred_cache:
            return self._pred_cache[g.qualname]
        self._pred_cache[g.qualname] = set()
        res: Optional[Set[str]] = None
        for n in walk_no_nested(g.node):
            if not isinstance(n, ast.Return) or n.value is None:
                continue
            v = n.value
            if isinstance(v, ast.Constant) and not v.value:
                continue   # return False / None
            here = self.site_modes(n, g) | self.implies_true(v, g, n, depth)
            res = here if res is None else (res & here)
        out = res or set()
        self._pred_cache[g.qualname] = out
        return out

    def implies_true(self, e: ast.AST, f: FuncInfo, at: ast.AST, depth: int) -> Set[str]:
        e = paths.inline_locals(paths.resolve_flow(e, at, f.node), f.node)
        return self._implies(e, True, f, at, depth)

    def _implies(self, e: ast.AST, pol: bool, f: FuncInfo, at: ast.AST, depth: int) -> Set[str]:
        if isinstance(e, ast.UnaryOp) and isinstance(e.op, ast.Not):
            return self._implies(e.operand, not pol, f, at, depth)
        if isinstance(e, ast.BoolOp):
            conj = (isinstance(e.op, ast.And) and pol) or (isinstance(e.op, ast.Or) and not pol)
            parts = [self._implies(v, pol, f, at, depth) for v in e.values]
            if conj:
                out: Set[str] = set()
                for p in parts:
                    out |= p
                return out
            out = parts[0]
            for p in parts[1:]:
                out = out & p
            return set(out)
        return self.atom_modes(e, pol, f, at, depth=max(depth, 1))

    # ----------------------------------------------------------- site level
    def site_modes(self, node: ast.AST, f: FuncInfo) -> Set[str]:
        key = id(node)
        if key in self._site_cache:
            return self._site_cache[key]
        out: Set[str] = set()
        for t, pol in paths.guards(node, stop=f.node):
            tk = (id(t), pol)
            if tk not in self._test_cache:
                self._test_cache[tk] = self.test_modes(t, pol, f, t)
            out |= self._test_cache[tk]
        self._site_cache[key] = out
        return out

    def node_kind_modes(self) -> Dict[str, Set[str]]:
        """flow-node class -> mode atoms under which FlowGraph constructs it."""
        if self._node_kind_modes is not None:
            return self._node_kind_modes
        self._node_kind_modes = {}
        fg = self.db.classes.get("teaal.ir.flow_graph.FlowGraph")
        res: Dict[str, Optional[Set[str]]] = {}
        if fg is not None:
            for f in fg.methods.values():
                for n in walk_no_nested(f.node):
                    if isinstance(n, ast.Call) and isinstance(n.func, ast.Name) and n.func.id.endswith("Node"):
                        m = self.site_modes(n, f)
                        cur = res.get(n.func.id)
                        res[n.func.id] = m if cur is None else (cur & m)
        self._node_kind_modes = {k: (v or set()) for k, v in res.items()}
        return self._node_kind_modes

    # ------------------------------------------------------ function level
    def function_modes(self) -> Dict[str, Set[str]]:
        if self._fmodes is not None:
            return self._fmodes
        callers = self.db.callers()
        ALL = set(NEG)
        fm: Dict[str, Set[str]] = {}
        for q, f in self.db.functions.items():
            cs = [c for c in callers.get(q, []) if c[0].qualname != q]
            fm[q] = set(ALL) if cs else set()
        # nested functions inherit their outer function's guard at definition
        changed = True
        it = 0
        while changed and it < 30:
            changed = False
            it += 1
            for q, f in self.db.functions.items():
                cs = [c for c in callers.get(q, []) if c[0].qualname != q]
                if not cs:
                    continue
                new: Optional[Set[str]] = None
                for g, call in cs:
                    here = fm[g.qualname] | self.site_modes(call, g)
                    # contradictory sets (unreachable call) do not constrain
                    new = here if new is None else (new & here)
                new = new or set()
                if new != fm[q]:
                    fm[q] = new
                    changed = True
        self._fmodes = fm
        return fm

    def full_modes(self, node: ast.AST, f: FuncInfo) -> Set[str]:
        return self.function_modes().get(f.qualname, set()) | self.site_modes(node, f)
