"""Static analysis of teaal-compiler for properties C01-C19 (see /verif/DESIGN.md)."""
