"""
Abstract interpreter for the code that *builds* HiFiber trees (DESIGN.md 2.4).

It executes function bodies of teaal/trans (plus the name generators of
ir/tensor.py) over the abstract values of sa/values.py.  Repository code is
never run concretely.  Anything not understood becomes TOP; TOP at a position
an obligation cares about makes that obligation fail (conservative).
"""

from __future__ import annotations

import ast
from typing import Any, Dict, List, Optional, Set, Tuple

from sa.db import DB, ClassInfo, FuncInfo, norm
from sa.hmodel import HModel, stmt_add
from sa.printer import PREC
from sa.values import (AV, BOT, NONE, SYM_ALL, TOP, Alt, Bool, Bot, ClsRef, Dct, Func, HArg, HAssn, HE,
                       HOLE, HOp, HPay, HStmt, Int, Lst, NoneV, Obj, Str, Sym, Top, alts_of, he_all,
                       he_atom, join, join_all, mk_alt, str_concat, str_map)

ANALYSE = ("teaal.trans.", "teaal.ir.tensor")
SYMPY_CLASSES = {"Symbol", "Integer", "Rational", "Add", "Mul", "Number", "Basic", "Expr"}
MAX_UNROLL = 10
MAX_FIX = 8

Env = Dict[str, AV]


class _Return(Exception):
    pass


class Interp:
    def __init__(self, db: DB, hm: HModel):
        self.db = db
        self.hm = hm
        self.memo: Dict[Tuple, AV] = {}
        self.active: List[Tuple] = []
        self.recursed: Set[Tuple] = set()
        self.calls = 0
        self.analysed: Set[str] = set()
        self.sub_sites: List[Dict[str, Any]] = []
        self.hifiber_names = set(hm.pm.shapes)
        self.frames: List[Dict[str, Any]] = []
        self.notes: Set[str] = set()

    # ------------------------------------------------------------ abstraction
    def abs_type(self, t: tuple) -> AV:
        k = t[0] if t else "any"
        if k == "cls":
            name = t[1].split(".")[-1]
            if t[1].startswith("teaal.hifiber."):
                if name in ("Expression", "Base"):
                    return he_all()
                if name == "Statement":
                    return HStmt("M")
                if name == "Argument":
                    return HArg(he_all())
                if name == "Operator":
                    return HOp(frozenset(PREC))
                if name == "Payload":
                    return HPay()
                if name == "Assignable":
                    return HAssn("any")
                sh = self.hm.pm.shapes.get(name)
                if sh is not None:
                    if sh.family == "expr":
                        if name == "EVar":
                            return HE(frozenset({"ATOM"}), True, frozenset())
                        if sh.kind in ("atom", "postfix", "leaf"):
                            return he_atom()
                        return he_all()
                    if sh.family == "stmt":
                        return HStmt("N" if name != "SBlock" else "M")
                    if sh.family == "op":
                        return HOp(frozenset({sh.op_text}))
                    if sh.family == "arg":
                        return HArg(he_all())
                    if sh.family == "payload":
                        return HPay()
                    if sh.family == "assn":
                        return HAssn("any")
            return Obj(t[1])
        if k == "str":
            return Str.hole()
        if k in ("int", "float"):
            return Int()
        if k == "bool":
            return Bool()
        if k == "none":
            return NONE
        if k in ("list", "set", "iter"):
            return Lst(None, self.abs_type(t[1]), True)
        if k == "tuple":
            return Lst(tuple(self.abs_type(x) for x in t[1]))
        if k == "dict":
            return Dct(self.abs_type(t[1]), self.abs_type(t[2]))
        if k == "type":
            if t[1][0] == "cls":
                c = self.db.classes.get(t[1][1])
                if c is not None:
                    return ClsRef(frozenset([c.name] + [s.name for s in c.all_subclasses()]))
            return TOP
        if k == "ext":
            nm = t[1].split(".")[-1]
            if nm == "Symbol":
                return Sym(frozenset({"Symbol"}))
            if nm in SYMPY_CLASSES:
                return SYM_ALL
            return Obj("ext:" + t[1])
        if k == "union":
            return join_all(self.abs_type(x) for x in t[1])
        return TOP

    def abs_ann(self, f: FuncInfo, ann: Optional[ast.AST]) -> AV:
        if ann is None:
            return TOP
        v = self.abs_type(self.db.ann_type(f.module, ann))
        txt = norm(ann)
        if txt.startswith("Optional[") or txt.startswith("typing.Optional["):
            v = join(v, NONE)
        return v

    # ------------------------------------------------------------------ calls
    def entry(self, f: FuncInfo) -> AV:
        """Analyse f with parameters abstracted from their annotations."""
        args: List[AV] = []
        a = f.node.args
        allargs = a.posonlyargs + a.args + a.kwonlyargs
        for i, arg in enumerate(allargs):
            if i == 0 and f.cls is not None and not f.is_static:
                args.append(Obj(f.cls.qualname) if not f.is_classmethod
                            else ClsRef(frozenset({f.cls.name})))
            else:
                args.append(self.abs_ann(f, arg.annotation))
        return self.call(f, args, {}, None)

    def analysable(self, f: FuncInfo) -> bool:
        return f.module.name.startswith(ANALYSE[0]) or f.module.name == ANALYSE[1]

    def summary(self, f: FuncInfo) -> AV:
        return self.abs_ann(f, f.node.returns)

    def call(self, f: FuncInfo, args: List[AV], kwargs: Dict[str, AV], closure: Optional[Env]) -> AV:
        if not self.analysable(f) or f.is_abstract:
            return self.summary(f)
        # flag splitting: an unknown boolean argument is analysed once per value
        # so that statements correlated with the flag stay correlated
        for i, a in enumerate(args):
            if isinstance(a, Bool) and a.val is None and i < 8:
                outs = []
                for b in (True, False):
                    a2 = list(args)
                    a2[i] = Bool(b)
                    outs.append(self.call(f, a2, kwargs, closure))
                return join_all(outs)
        key = (f.qualname, tuple(args), tuple(sorted(kwargs.items())),
               tuple(sorted(closure.items())) if closure else None)
        try:
            hash(key)
        except TypeError:
            return self.summary(f)
        if key in self.active:
            self.recursed.add(key)
            return self.memo.get(key, BOT)
        if key in self.memo and key not in self.recursed:
            return self.memo[key]
        self.calls += 1
        if self.calls > 20000 or len(self.active) > 60:
            self.notes.add("call budget exceeded at " + f.qualname)
            return self.summary(f)
        self.analysed.add(f.qualname)
        self.active.append(key)
        try:
            result: AV = self.memo.get(key, BOT)
            for _ in range(MAX_FIX):
                new = self._run(f, args, kwargs, closure)
                new = join(result, new)
                stable = new == result
                result = new
                self.memo[key] = result
                if stable or key not in self.recursed:
                    break
            self.recursed.discard(key)
            if isinstance(result, Top):
                # the repository type-checks: fall back on the declared return type
                result = self.summary(f)
                self.memo[key] = result
            return result
        finally:
            self.active.pop()

    def _run(self, f: FuncInfo, args: List[AV], kwargs: Dict[str, AV], closure: Optional[Env]) -> AV:
        env: Env = dict(closure) if closure else {}
        a = f.node.args
        params = a.posonlyargs + a.args + a.kwonlyargs
        defaults = [None] * (len(a.posonlyargs + a.args) - len(a.defaults)) + list(a.defaults) + \
            list(a.kw_defaults)
        for i, p in enumerate(params):
            if i < len(args):
                env[p.arg] = args[i]
            elif p.arg in kwargs:
                env[p.arg] = kwargs[p.arg]
            elif defaults[i] is not None:
                env[p.arg] = self.ev(defaults[i], env, f)
            else:
                env[p.arg] = self.abs_ann(f, p.annotation)
        frame = {"ret": BOT, "loops": []}
        self.frames.append(frame)
        try:
            out = self.block(f.node.body, env, f)
            if out is not None:
                frame["ret"] = join(frame["ret"], NONE)
        finally:
            self.frames.pop()
        return frame["ret"]

    # ------------------------------------------------------------- statements
    def block(self, stmts: List[ast.stmt], env: Env, f: FuncInfo) -> Optional[Env]:
        for s in stmts:
            env = self.stmt(s, env, f)
            if env is None:
                return None
        return env

    def stmt(self, s: ast.stmt, env: Env, f: FuncInfo) -> Optional[Env]:
        if isinstance(s, ast.Expr):
            if isinstance(s.value, ast.Constant):
                return env
            return self.expr_stmt(s.value, env, f)
        if isinstance(s, ast.Assign):
            v = self.ev(s.value, env, f)
            env = dict(env)
            for t in s.targets:
                self.assign(t, v, env, f)
            return env
        if isinstance(s, ast.AnnAssign):
            if s.value is None:
                return env
            v = self.ev(s.value, env, f)
            env = dict(env)
            self.assign(s.target, v, env, f)
            return env
        if isinstance(s, ast.AugAssign):
            cur = self.ev(self._load(s.target), env, f)
            v = self.binop(s.op, cur, self.ev(s.value, env, f))
            env = dict(env)
            self.assign(s.target, v, env, f)
            return env
        if isinstance(s, ast.Return):
            v = self.ev(s.value, env, f) if s.value is not None else NONE
            self.frames[-1]["ret"] = join(self.frames[-1]["ret"], v)
            return None
        if isinstance(s, ast.Raise):
            return None
        if isinstance(s, ast.Pass):
            return env
        if isinstance(s, ast.Assert):
            b, et, ef = self.cond(s.test, env, f)
            return et
        if isinstance(s, ast.If):
            b, et, ef = self.cond(s.test, env, f)
            outs = []
            if et is not None:
                outs.append(self.block(s.body, et, f))
            if ef is not None:
                outs.append(self.block(s.orelse, ef, f))
            return self.join_envs([o for o in outs if o is not None])
        if isinstance(s, ast.For):
            return self.for_(s, env, f)
        if isinstance(s, ast.While):
            return self.while_(s, env, f)
        if isinstance(s, ast.Break):
            self.frames[-1]["loops"][-1]["break"].append(env)
            return None
        if isinstance(s, ast.Continue):
            self.frames[-1]["loops"][-1]["cont"].append(env)
            return None
        if isinstance(s, (ast.FunctionDef, ast.AsyncFunctionDef)):
            env = dict(env)
            env[s.name] = Func(f.qualname + ".<locals>." + s.name)
            return env
        if isinstance(s, (ast.Import, ast.ImportFrom, ast.Global, ast.Nonlocal, ast.Delete)):
            return env
        self.notes.add("UNSOUND: unsupported statement %s in %s" % (type(s).__name__, f.qualname))
        return env

    @staticmethod
    def _load(t: ast.AST) -> ast.AST:
        import copy
        from sa.paths import clone
        n = clone(t)
        for x in ast.walk(n):
            if hasattr(x, "ctx"):
                x.ctx = ast.Load()
        # keep back-links for site identity
        n.parent = getattr(t, "parent", None)
        return n

    def join_envs(self, envs: List[Env]) -> Optional[Env]:
        if not envs:
            return None
        out = dict(envs[0])
        for e in envs[1:]:
            keys = set(out) | set(e)
            for k in keys:
                if k in out and k in e:
                    out[k] = join(out[k], e[k])
                else:
                    # defined on one path only
                    out[k] = join(out.get(k, BOT), e.get(k, BOT))
        return out

    def assign(self, t: ast.AST, v: AV, env: Env, f: FuncInfo) -> None:
        if isinstance(t, ast.Name):
            env[t.id] = v
        elif isinstance(t, (ast.Tuple, ast.List)):
            n = len(t.elts)
            parts: List[AV] = [BOT] * n
            for a in alts_of(v):
                if isinstance(a, Lst) and a.items is not None and len(a.items) == n:
                    parts = [join(p, x) for p, x in zip(parts, a.items)]
                elif isinstance(a, Lst):
                    parts = [join(p, a.element()) for p in parts]
                else:
                    parts = [TOP] * n
            if isinstance(v, (Top,)):
                parts = [TOP] * n
            for e, p in zip(t.elts, parts):
                self.assign(e, p, env, f)
        elif isinstance(t, ast.Subscript) and isinstance(t.value, ast.Name):
            cur = env.get(t.value.id, TOP)
            idx = self.ev(t.slice, env, f) if not isinstance(t.slice, ast.Slice) else None
            new: List[AV] = []
            for a in alts_of(cur):
                if isinstance(a, Lst):
                    if a.items is not None and isinstance(idx, Int) and idx.val is not None and \
                            -len(a.items) <= idx.val < len(a.items):
                        items = list(a.items)
                        items[idx.val] = v
                        new.append(Lst(tuple(items)))
                    else:
                        new.append(Lst(None, join(a.element(), v), a.may_empty if a.items is None else len(a.items) == 0))
                elif isinstance(a, Dct):
                    new.append(Dct(join(a.key, idx if idx is not None else TOP), join(a.val, v)))
                else:
                    new.append(a)
            env[t.value.id] = mk_alt(new) if new else cur
        # attribute stores and deeper subscripts are not tracked

    def expr_stmt(self, e: ast.AST, env: Env, f: FuncInfo) -> Optional[Env]:
        # in-place mutation of a local container / block
        if isinstance(e, ast.Call) and isinstance(e.func, ast.Attribute) and isinstance(e.func.value, ast.Name) \
                and e.func.value.id in env:
            nm = e.func.value.id
            meth = e.func.attr
            cur = env[nm]
            if meth in ("append", "add", "extend", "update", "insert", "remove", "discard", "sort",
                        "reverse", "clear", "pop"):
                args = [self.ev(a, env, f) for a in e.args]
                new: List[AV] = []
                handled = False
                for a in alts_of(cur):
                    if isinstance(a, HStmt) and meth == "add" and args:
                        new.append(stmt_add(a, args[0]))
                        handled = True
                    elif isinstance(a, Lst):
                        handled = True
                        if meth in ("append", "add") and args:
                            if a.items is not None and len(a.items) < MAX_UNROLL and meth == "append":
                                new.append(Lst(a.items + (args[0],)))
                            else:
                                new.append(Lst(None, join(a.element(), args[0]), False))
                        elif meth == "insert" and len(args) == 2:
                            new.append(Lst(None, join(a.element(), args[1]), False))
                        elif meth in ("extend", "update") and args:
                            el = join_all(self.elem(x) for x in alts_of(args[0]))
                            new.append(Lst(None, join(a.element(), el), a.may_empty if a.items is None else False))
                        elif meth in ("remove", "discard", "pop", "clear"):
                            new.append(Lst(None, a.element(), True))
                        else:
                            new.append(Lst(None, a.element(), a.may_empty if a.items is None else len(a.items) == 0))
                    elif isinstance(a, Dct) and meth == "update" and args:
                        handled = True
                        d = args[0]
                        dd = [x for x in alts_of(d) if isinstance(x, Dct)]
                        new.append(Dct(join(a.key, dd[0].key), join(a.val, dd[0].val)) if dd else Dct(TOP, TOP))
                    else:
                        new.append(a)
                if handled:
                    env = dict(env)
                    env[nm] = mk_alt(new)
                    return env
        # mutation of a list held in a local dictionary: d[k].append(v) / d.setdefault(k, []).append(v)
        if isinstance(e, ast.Call) and isinstance(e.func, ast.Attribute) and \
                e.func.attr in ("append", "add", "extend", "update", "insert"):
            recv = e.func.value
            dname = None
            keyexpr = None
            dflt: AV = BOT
            if isinstance(recv, ast.Subscript) and isinstance(recv.value, ast.Name) and recv.value.id in env:
                dname, keyexpr = recv.value.id, recv.slice
            elif isinstance(recv, ast.Call) and isinstance(recv.func, ast.Attribute) and \
                    recv.func.attr == "setdefault" and isinstance(recv.func.value, ast.Name) and \
                    recv.func.value.id in env and recv.args:
                dname, keyexpr = recv.func.value.id, recv.args[0]
                if len(recv.args) > 1:
                    dflt = self.ev(recv.args[1], env, f)
            if dname is not None:
                cur = env[dname]
                ds = [a for a in alts_of(cur) if isinstance(a, Dct)]
                if ds and len(alts_of(cur)) == 1 and e.args:
                    d = ds[0]
                    arg = self.ev(e.args[-1], env, f)
                    k = self.ev(keyexpr, env, f) if not isinstance(keyexpr, ast.Slice) else TOP
                    inner = join(d.val, dflt)
                    new_inner: List[AV] = []
                    for a in alts_of(inner):
                        if isinstance(a, Lst):
                            el = arg if e.func.attr in ("append", "add", "insert") else \
                                join_all(self.elem(x) for x in alts_of(arg))
                            new_inner.append(Lst(None, join(a.element(), el), False))
                        else:
                            new_inner.append(a)
                    if not alts_of(inner):
                        new_inner.append(Lst(None, arg, False))
                    env = dict(env)
                    env[dname] = Dct(join(d.key, k), join(d.val, mk_alt(new_inner)))
                    return env
        self.ev(e, env, f)
        return env

    def for_(self, s: ast.For, env: Env, f: FuncInfo) -> Optional[Env]:
        it = self.ev(s.iter, env, f)
        known = None
        for a in alts_of(it):
            if isinstance(a, Lst) and a.items is not None and len(alts_of(it)) == 1 and \
                    len(a.items) <= MAX_UNROLL:
                known = a.items
        loops = self.frames[-1]["loops"]
        if known is not None:
            ctl = {"break": [], "cont": []}
            loops.append(ctl)
            cur: Optional[Env] = env
            # kind splitting: when the loop walks a local list (directly or via
            # enumerate) the body runs once per singleton kind of the element,
            # with the list slot refined as well, and the results are joined
            src = s.iter
            via_enum = False
            if isinstance(src, ast.Call) and isinstance(src.func, ast.Name) and src.func.id == "enumerate" \
                    and len(src.args) == 1:
                src, via_enum = src.args[0], True
            list_name = src.id if isinstance(src, ast.Name) else None
            for j, item in enumerate(known):
                if cur is None:
                    break
                elem_val = item.items[1] if via_enum and isinstance(item, Lst) and item.items and \
                    len(item.items) == 2 else item
                variants = self.split_kinds(elem_val) if list_name else [elem_val]
                outs_j: List[Optional[Env]] = []
                ctl["cont"] = []
                for var in variants:
                    e2 = dict(cur)
                    it_val = Lst((item.items[0], var)) if via_enum and isinstance(item, Lst) and \
                        item.items and len(item.items) == 2 else var
                    if list_name and len(variants) > 1:
                        lv = e2.get(list_name)
                        if isinstance(lv, Lst) and lv.items is not None and j < len(lv.items):
                            li = list(lv.items)
                            li[j] = var
                            e2[list_name] = Lst(tuple(li))
                    self.assign(s.target, it_val, e2, f)
                    outs_j.append(self.block(s.body, e2, f))
                cur = self.join_envs([x for x in outs_j + ctl["cont"] if x is not None])
            loops.pop()
            exits = [x for x in [cur] + ctl["break"] if x is not None]
            res = self.join_envs(exits)
            if res is not None and s.orelse and cur is not None:
                res = self.block(s.orelse, res, f)
            return res
        elem = join_all(self.elem(a) for a in alts_of(it)) if not isinstance(it, (Top, Bot)) else TOP
        head = env
        ctl = {"break": [], "cont": []}
        loops.append(ctl)
        last_out: Optional[Env] = None
        for _ in range(MAX_FIX):
            e2 = dict(head)
            self.assign(s.target, elem, e2, f)
            ctl["cont"] = []
            out = self.block(s.body, e2, f)
            back = self.join_envs([x for x in [out] + ctl["cont"] if x is not None])
            last_out = back
            if back is None:
                break
            new_head = self.join_envs([head, back])
            if new_head == head:
                break
            head = new_head
        else:
            self.notes.add("UNSOUND: loop fixed point not reached in %s" % f.qualname)
        loops.pop()
        exits = [head] + ctl["break"]
        return self.join_envs([x for x in exits if x is not None])

    def while_(self, s: ast.While, env: Env, f: FuncInfo) -> Optional[Env]:
        head = env
        loops = self.frames[-1]["loops"]
        ctl = {"break": [], "cont": []}
        loops.append(ctl)
        exit_envs: List[Env] = []
        for _ in range(MAX_FIX):
            b, et, ef = self.cond(s.test, head, f)
            if ef is not None:
                exit_envs.append(ef)
            if et is None:
                break
            ctl["cont"] = []
            out = self.block(s.body, et, f)
            back = self.join_envs([x for x in [out] + ctl["cont"] if x is not None])
            if back is None:
                break
            new_head = self.join_envs([head, back])
            if new_head == head:
                break
            head = new_head
        else:
            self.notes.add("UNSOUND: while-loop fixed point not reached in %s" % f.qualname)
        loops.pop()
        b, et, ef = self.cond(s.test, head, f)
        if ef is not None:
            exit_envs.append(ef)
        return self.join_envs(exit_envs + ctl["break"])

    # ------------------------------------------------------------- conditions
    def truth(self, v: AV) -> Optional[bool]:
        """definite truthiness of an abstract value, if any"""
        res = set()
        for a in alts_of(v):
            if isinstance(a, NoneV):
                res.add(False)
            elif isinstance(a, Bool):
                res.add(a.val)
            elif isinstance(a, (HE, HStmt, HArg, HOp, HPay, HAssn, Obj, Func, ClsRef)):
                res.add(True)
            elif isinstance(a, Lst):
                if a.items is not None:
                    res.add(len(a.items) > 0)
                else:
                    res.add(None if a.may_empty else True)
            elif isinstance(a, Int):
                res.add(None if a.val is None else a.val != 0)
            elif isinstance(a, Str):
                k = a.known()
                res.add(None if k is None else k != "")
            else:
                res.add(None)
        if isinstance(v, (Top, Bot)) or not res or None in res or len(res) > 1:
            return None
        return res.pop()

    def split_truth(self, v: AV) -> Tuple[AV, AV]:
        """(part of v that can be truthy, part that can be falsy)"""
        t: List[AV] = []
        fl: List[AV] = []
        for a in alts_of(v):
            tr = self.truth(a)
            if tr is not False:
                if isinstance(a, Lst) and a.items is None:
                    t.append(Lst(None, a.elem, False))
                else:
                    t.append(a)
            if tr is not True:
                if isinstance(a, Lst) and a.items is None:
                    fl.append(Lst(()))
                else:
                    fl.append(a)
        return (mk_alt(t) if t else BOT, mk_alt(fl) if fl else BOT)

    def cond(self, e: ast.AST, env: Env, f: FuncInfo) -> Tuple[Bool, Optional[Env], Optional[Env]]:
        """(value, env if true or None if impossible, env if false or None)"""
        if isinstance(e, ast.UnaryOp) and isinstance(e.op, ast.Not):
            b, et, ef = self.cond(e.operand, env, f)
            return Bool(None if b.val is None else not b.val), ef, et
        if isinstance(e, ast.BoolOp):
            if isinstance(e.op, ast.And):
                cur: Optional[Env] = env
                falses: List[Env] = []
                for v in e.values:
                    if cur is None:
                        break
                    b, et, ef = self.cond(v, cur, f)
                    if ef is not None:
                        falses.append(ef)
                    cur = et
                fe = self.join_envs(falses)
                val = None if (cur is not None and fe is not None) else (cur is not None)
                return Bool(val), cur, fe
            else:
                cur = env
                trues: List[Env] = []
                for v in e.values:
                    if cur is None:
                        break
                    b, et, ef = self.cond(v, cur, f)
                    if et is not None:
                        trues.append(et)
                    cur = ef
                te = self.join_envs(trues)
                val = None if (cur is not None and te is not None) else (te is not None)
                return Bool(val), te, cur
        # isinstance(name, C)
        if isinstance(e, ast.Call) and isinstance(e.func, ast.Name) and e.func.id == "isinstance" and \
                len(e.args) == 2:
            v = self.ev(e.args[0], env, f)
            classes = [norm(x).split(".")[-1] for x in
                       (e.args[1].elts if isinstance(e.args[1], ast.Tuple) else [e.args[1]])]
            yes, no = self.split_isinstance(v, classes)
            et = ef = None
            if not isinstance(yes, Bot):
                et = dict(env)
                if isinstance(e.args[0], ast.Name):
                    et[e.args[0].id] = yes
            if not isinstance(no, Bot):
                ef = dict(env)
                if isinstance(e.args[0], ast.Name):
                    ef[e.args[0].id] = no
            val = None if (et is not None and ef is not None) else (et is not None)
            return Bool(val), et, ef
        # x is None / x is not None
        if isinstance(e, ast.Compare) and len(e.ops) == 1 and isinstance(e.ops[0], (ast.Is, ast.IsNot)) and \
                isinstance(e.comparators[0], ast.Constant) and e.comparators[0].value is None:
            v = self.ev(e.left, env, f)
            nones = [a for a in alts_of(v) if isinstance(a, NoneV)]
            others = [a for a in alts_of(v) if not isinstance(a, NoneV)]
            maybe_none = bool(nones) or isinstance(v, Top) or any(isinstance(a, Obj) for a in others)
            maybe_other = bool(others) or isinstance(v, Top)
            en = dict(env) if maybe_none else None
            eo = dict(env) if maybe_other else None
            if isinstance(e.left, ast.Name):
                if en is not None:
                    en[e.left.id] = NONE
                if eo is not None and others:
                    eo[e.left.id] = mk_alt(others)
            if isinstance(e.ops[0], ast.Is):
                val = None if (en is not None and eo is not None) else (en is not None)
                return Bool(val), en, eo
            val = None if (en is not None and eo is not None) else (eo is not None)
            return Bool(val), eo, en
        # truthiness of a name
        if isinstance(e, ast.Name):
            v = env.get(e.id)
            if v is not None:
                t, fl = self.split_truth(v)
                et = ef = None
                if not isinstance(t, Bot) or isinstance(v, Top):
                    et = dict(env)
                    if not isinstance(t, Bot):
                        et[e.id] = t
                if not isinstance(fl, Bot) or isinstance(v, Top):
                    ef = dict(env)
                    if not isinstance(fl, Bot):
                        ef[e.id] = fl
                val = None if (et is not None and ef is not None) else (et is not None)
                return Bool(val), et, ef
        v = self.ev(e, env, f)
        tr = self.truth(v)
        if tr is True:
            return Bool(True), env, None
        if tr is False:
            return Bool(False), None, env
        return Bool(None), env, env

    def split_kinds(self, v: AV) -> List[AV]:
        """Singleton-kind variants of an expression value (else [v])."""
        if isinstance(v, HE) and 1 < len(v.kinds) <= 24:
            return [HE(frozenset({k}), v.leaf and k == "ATOM", v.ctx) for k in sorted(v.kinds)]
        return [v]

    def split_isinstance(self, v: AV, classes: List[str]) -> Tuple[AV, AV]:
        yes: List[AV] = []
        no: List[AV] = []
        if isinstance(v, (Top, Bot)):
            return TOP, TOP
        for a in alts_of(v):
            if isinstance(a, HE):
                # which kinds are instances of the named hifiber classes?
                ky = set()
                kn = set()
                for k in a.kinds:
                    inst = self.kind_isinstance(k, classes)
                    if inst is not False:
                        ky.add(k)
                    if inst is not True:
                        kn.add(k)
                if ky:
                    yes.append(HE(frozenset(ky), a.leaf and "ATOM" in ky, a.ctx))
                if kn:
                    no.append(HE(frozenset(kn), a.leaf and "ATOM" in kn, a.ctx))
            elif isinstance(a, Sym):
                cy = set()
                cn = set()
                for c in a.classes:
                    inst = c in classes or (c == "Integer" and ("Rational" in classes or "Number" in classes)) \
                        or (c == "Rational" and "Number" in classes) or "Basic" in classes or "Expr" in classes
                    (cy if inst else cn).add(c)
                if cy:
                    yes.append(Sym(frozenset(cy)))
                if cn:
                    no.append(Sym(frozenset(cn)))
            elif isinstance(a, Str):
                (yes if "str" in classes else no).append(a)
            elif isinstance(a, Int):
                if "int" in classes or "float" in classes:
                    yes.append(a)
                    if not ("int" in classes and "float" in classes):
                        no.append(a)
                else:
                    no.append(a)
            elif isinstance(a, Bool):
                (yes if ("bool" in classes or "int" in classes) else no).append(a)
            elif isinstance(a, Lst):
                if "list" in classes or "tuple" in classes or "set" in classes:
                    yes.append(a)
                    if not ("list" in classes and "tuple" in classes):
                        no.append(a)
                else:
                    no.append(a)
            elif isinstance(a, Dct):
                (yes if "dict" in classes else no).append(a)
            elif isinstance(a, NoneV):
                no.append(a)
            elif isinstance(a, Obj):
                c = self.db.classes.get(a.cls)
                if c is None:
                    yes.append(a)
                    no.append(a)
                    continue
                names = {k.name for k in c.mro()}
                subs = {k.name for k in c.all_subclasses()}
                if names & set(classes):
                    yes.append(a)
                elif subs & set(classes):
                    for k in c.all_subclasses():
                        if {x.name for x in k.mro()} & set(classes):
                            yes.append(Obj(k.qualname))
                    no.append(a)
                else:
                    no.append(a)
            elif isinstance(a, HStmt):
                if "SBlock" in classes:
                    yes.append(a)
                    no.append(a)
                elif "Statement" in classes:
                    yes.append(a)
                else:
                    yes.append(a)
                    no.append(a)
            else:
                yes.append(a)
                no.append(a)
        return (mk_alt(yes) if yes else BOT, mk_alt(no) if no else BOT)

    def kind_isinstance(self, kind: str, classes: List[str]) -> Optional[bool]:
        """True / False / None(unknown) whether an expression of this kind is an
        instance of one of the named classes."""
        if "Expression" in classes or "Base" in classes:
            return True
        shapes = self.hm.pm.shapes
        if kind.startswith("BIN:"):
            return any(c in shapes and shapes[c].kind == "infix" for c in classes)
        if kind == "LAMBDA":
            return any(c in shapes and shapes[c].kind == "lambda" for c in classes)
        # ATOM / NEG cover several classes
        cand = [c for c in classes if c in shapes and shapes[c].family == "expr"
                and shapes[c].kind in ("atom", "postfix", "leaf", "transparent")]
        return None if cand else False

    # ------------------------------------------------------------ expressions
    def elem(self, a: AV) -> AV:
        if isinstance(a, Lst):
            return a.element()
        if isinstance(a, Dct):
            return a.key
        if isinstance(a, Str):
            return Str.hole()
        if isinstance(a, Sym):
            return SYM_ALL
        return TOP

    def ev(self, e: Optional[ast.AST], env: Env, f: FuncInfo) -> AV:
        if e is None:
            return NONE
        if isinstance(e, ast.Constant):
            v = e.value
            if isinstance(v, bool):
                return Bool(v)
            if isinstance(v, int):
                return Int(v)
            if isinstance(v, str):
                return Str.lit(v)
            if v is None:
                return NONE
            return Int()
        if isinstance(e, ast.Name):
            if e.id in env:
                return env[e.id]
            ent = f.module.ns.get(e.id)
            if ent:
                if ent[0] == "class":
                    return ClsRef(frozenset({ent[1].name}))
                if ent[0] == "func":
                    return Func(ent[1].qualname)
                if ent[0] == "ext":
                    return ClsRef(frozenset({"ext:" + ent[1].split(".")[-1]}))
            if e.id in ("True", "False"):
                return Bool(e.id == "True")
            return TOP
        if isinstance(e, ast.Attribute):
            return self.attr(e, env, f)
        if isinstance(e, ast.Call):
            return self.callexpr(e, env, f)
        if isinstance(e, ast.Subscript):
            return self.subscript(e, env, f)
        if isinstance(e, ast.BinOp):
            return self.binop(e.op, self.ev(e.left, env, f), self.ev(e.right, env, f))
        if isinstance(e, ast.UnaryOp):
            v = self.ev(e.operand, env, f)
            if isinstance(e.op, ast.Not):
                t = self.truth(v)
                return Bool(None if t is None else not t)
            if isinstance(e.op, ast.USub):
                if isinstance(v, Int) and v.val is not None:
                    return Int(-v.val)
                if any(isinstance(a, Sym) for a in alts_of(v)):
                    return SYM_ALL
                return Int()
            return v
        if isinstance(e, (ast.Compare, ast.BoolOp)):
            return self.compare(e, env, f)
        if isinstance(e, (ast.Tuple, ast.List, ast.Set)):
            items: List[AV] = []
            for x in e.elts:
                if isinstance(x, ast.Starred):
                    v = self.ev(x.value, env, f)
                    if isinstance(v, Lst) and v.items is not None:
                        items.extend(v.items)
                    else:
                        return Lst(None, join_all([self.elem(a) for a in alts_of(v)] + items), True)
                else:
                    items.append(self.ev(x, env, f))
            return Lst(tuple(items))
        if isinstance(e, ast.Dict):
            ks = join_all(self.ev(k, env, f) for k in e.keys if k is not None)
            vs = join_all(self.ev(v, env, f) for v in e.values)
            return Dct(ks, vs)
        if isinstance(e, (ast.ListComp, ast.SetComp, ast.GeneratorExp)):
            return self.comp(e, env, f)
        if isinstance(e, ast.DictComp):
            return self.dictcomp(e, env, f)
        if isinstance(e, ast.IfExp):
            b, et, ef = self.cond(e.test, env, f)
            outs = []
            if et is not None:
                outs.append(self.ev(e.body, et, f))
            if ef is not None:
                outs.append(self.ev(e.orelse, ef, f))
            return join_all(outs)
        if isinstance(e, ast.Lambda):
            return Func("<lambda>")
        if isinstance(e, ast.JoinedStr):
            out: AV = Str.lit("")
            for part in e.values:
                if isinstance(part, ast.Constant) and isinstance(part.value, str):
                    piece: AV = Str.lit(part.value)
                elif isinstance(part, ast.FormattedValue) and part.conversion == -1 and part.format_spec is None:
                    v = self.ev(part.value, env, f)
                    if isinstance(v, Str):
                        piece = v
                    elif isinstance(v, Int) and v.val is not None:
                        piece = Str.lit(str(v.val))
                    else:
                        piece = Str.hole()
                else:
                    piece = Str.hole()
                out = str_concat(out, piece)   # type: ignore[arg-type]
            return out
        if isinstance(e, ast.Starred):
            return self.ev(e.value, env, f)
        return TOP

    def attr(self, e: ast.Attribute, env: Env, f: FuncInfo) -> AV:
        base = self.ev(e.value, env, f)
        outs: List[AV] = []
        for a in alts_of(base):
            if isinstance(a, Obj):
                c = self.db.classes.get(a.cls)
                if c is None:
                    outs.append(TOP)
                    continue
                nm = e.attr
                if f.cls is not None:
                    nm = f.cls.mangle(nm)
                t = self.db.field_type(c, nm)
                v = self.abs_type(t)
                # Optional fields: keep None possible
                if self._field_optional(c, nm):
                    v = join(v, NONE)
                outs.append(v)
            elif isinstance(a, Sym):
                if e.attr == "args":
                    outs.append(self.sym_args(a))
                elif e.attr in ("p", "q"):
                    outs.append(Int())
                elif e.attr.startswith("is_"):
                    outs.append(Bool())          # sympy assumption flags: True / False / None
                else:
                    outs.append(Obj("ext:sympy." + e.attr))
            elif isinstance(a, ClsRef):
                outs.append(Func("%s.%s" % (sorted(a.names)[0], e.attr)))
            else:
                outs.append(TOP)
        if isinstance(base, (Top, Bot)):
            return TOP
        return join_all(outs)

    def _field_optional(self, c: ClassInfo, attr: str) -> bool:
        for k in c.mro():
            init = k.methods.get("__init__")
            if init is None:
                continue
            ptypes = {a.arg: a.annotation for a in init.node.args.args}
            for n in ast.walk(init.node):
                if isinstance(n, ast.AnnAssign) and isinstance(n.target, ast.Attribute) and \
                        n.target.attr == attr and norm(n.annotation).startswith("Optional["):
                    return True
                if isinstance(n, ast.Assign) and isinstance(n.targets[0], ast.Attribute) and \
                        n.targets[0].attr == attr and isinstance(n.value, ast.Name) and \
                        ptypes.get(n.value.id) is not None and \
                        norm(ptypes[n.value.id]).startswith("Optional["):
                    return True
        return False

    def sym_args(self, s: Sym) -> AV:
        outs: List[AV] = []
        for c in s.classes:
            if c == "Mul":
                # affine model: Mul(Number, Symbol), the number first
                outs.append(Lst((Sym(frozenset({"Integer", "Rational"})), Sym(frozenset({"Symbol"})))))
            elif c == "Add":
                outs.append(Lst(None, Sym(frozenset({"Integer", "Rational", "Symbol", "Mul"})), False))
            else:
                outs.append(Lst(()))
        return join_all(outs)

    def subscript(self, e: ast.Subscript, env: Env, f: FuncInfo) -> AV:
        base = self.ev(e.value, env, f)
        if isinstance(base, (Top, Bot)):
            return TOP
        outs: List[AV] = []
        if isinstance(e.slice, ast.Slice):
            lo = self.ev(e.slice.lower, env, f) if e.slice.lower is not None else None
            hi = self.ev(e.slice.upper, env, f) if e.slice.upper is not None else None
            for a in alts_of(base):
                if isinstance(a, Lst):
                    kl = lo is None or (isinstance(lo, Int) and lo.val is not None)
                    kh = hi is None or (isinstance(hi, Int) and hi.val is not None)
                    if a.items is not None and kl and kh and e.slice.step is None:
                        outs.append(Lst(a.items[(lo.val if lo else None):(hi.val if hi else None)]))
                    else:
                        outs.append(Lst(None, a.element(), True))
                elif isinstance(a, Str):
                    outs.append(Str.hole())
                else:
                    outs.append(TOP)
            return join_all(outs)
        idx = self.ev(e.slice, env, f)
        for a in alts_of(base):
            if isinstance(a, Lst):
                if a.items is not None and isinstance(idx, Int) and idx.val is not None and \
                        -len(a.items) <= idx.val < len(a.items):
                    outs.append(a.items[idx.val])
                else:
                    outs.append(a.element())
            elif isinstance(a, Dct):
                outs.append(a.val)
            elif isinstance(a, Str):
                outs.append(Str.hole())
            elif isinstance(a, Obj):
                outs.append(TOP)
            else:
                outs.append(TOP)
        return join_all(outs)

    def binop(self, op: ast.operator, l: AV, r: AV) -> AV:
        outs: List[AV] = []
        # "text" + unknown is text (anything else raises TypeError at run time)
        if isinstance(op, ast.Add):
            if isinstance(l, Str) and isinstance(r, Top):
                return str_concat(l, Str.hole())
            if isinstance(r, Str) and isinstance(l, Top):
                return str_concat(Str.hole(), r)
        for a in alts_of(l):
            for b in alts_of(r):
                if isinstance(op, ast.Add) and isinstance(a, Str) and isinstance(b, Str):
                    outs.append(str_concat(a, b))
                elif isinstance(op, ast.Add) and isinstance(a, Lst) and isinstance(b, Lst):
                    if a.items is not None and b.items is not None:
                        outs.append(Lst(a.items + b.items))
                    else:
                        outs.append(Lst(None, join(a.element(), b.element()),
                                        (a.may_empty if a.items is None else not a.items) and
                                        (b.may_empty if b.items is None else not b.items)))
                elif isinstance(a, Sym) or isinstance(b, Sym):
                    outs.append(SYM_ALL)
                elif isinstance(a, (Int, Bool)) and isinstance(b, (Int, Bool)):
                    av = a.val if isinstance(a, Int) else None
                    bv = b.val if isinstance(b, Int) else None
                    val = None
                    if av is not None and bv is not None:
                        try:
                            val = {ast.Add: av + bv, ast.Sub: av - bv, ast.Mult: av * bv}.get(type(op))
                        except Exception:
                            val = None
                    outs.append(Int(val))
                elif isinstance(a, Str) and isinstance(op, (ast.Mod, ast.Mult)):
                    outs.append(Str.hole())
                elif isinstance(a, Lst) and isinstance(op, (ast.Sub, ast.BitOr, ast.BitAnd)):
                    outs.append(Lst(None, join(a.element(), self.elem(b)), True))
                elif isinstance(a, Str) or isinstance(b, Str):
                    outs.append(Str.hole() if isinstance(op, ast.Add) else TOP)
                else:
                    outs.append(TOP)
        if isinstance(l, (Top, Bot)) or isinstance(r, (Top, Bot)):
            return TOP
        return join_all(outs)

    def compare(self, e: ast.AST, env: Env, f: FuncInfo) -> AV:
        if isinstance(e, ast.Compare) and len(e.ops) == 1:
            l = self.ev(e.left, env, f)
            r = self.ev(e.comparators[0], env, f)
            if isinstance(l, Int) and isinstance(r, Int) and l.val is not None and r.val is not None:
                op = e.ops[0]
                table = {ast.Eq: l.val == r.val, ast.NotEq: l.val != r.val, ast.Lt: l.val < r.val,
                         ast.LtE: l.val <= r.val, ast.Gt: l.val > r.val, ast.GtE: l.val >= r.val}
                if type(op) in table:
                    return Bool(table[type(op)])
            if isinstance(l, Str) and isinstance(r, Str) and l.known() is not None and r.known() is not None:
                if isinstance(e.ops[0], ast.Eq):
                    return Bool(l.known() == r.known())
                if isinstance(e.ops[0], ast.NotEq):
                    return Bool(l.known() != r.known())
            return Bool()
        if isinstance(e, ast.Compare):
            self.ev(e.left, env, f)
            for c in e.comparators:
                self.ev(c, env, f)
            return Bool()
        b, et, ef = self.cond(e, env, f)
        return b

    def comp(self, e, env: Env, f: FuncInfo) -> AV:
        gens = e.generators
        if len(gens) == 1:
            g = gens[0]
            it = self.ev(g.iter, env, f)
            if isinstance(it, Lst) and it.items is not None and not g.ifs and len(it.items) <= MAX_UNROLL:
                outs = []
                for item in it.items:
                    e2 = dict(env)
                    self.assign(g.target, item, e2, f)
                    outs.append(self.ev(e.elt, e2, f))
                return Lst(tuple(outs))
        # summary
        e2: Optional[Env] = dict(env)
        may_empty = False
        for g in gens:
            it = self.ev(g.iter, e2, f)
            el = join_all(self.elem(a) for a in alts_of(it)) if not isinstance(it, (Top, Bot)) else TOP
            for a in alts_of(it):
                if isinstance(a, Lst):
                    if a.items is None and a.may_empty:
                        may_empty = True
                    if a.items is not None and not a.items:
                        may_empty = True
                else:
                    may_empty = True
            if isinstance(it, (Top, Bot)):
                may_empty = True
            self.assign(g.target, el, e2, f)
            for c in g.ifs:
                may_empty = True
                b, et, ef = self.cond(c, e2, f)
                if et is None:
                    return Lst(())
                e2 = et
        return Lst(None, self.ev(e.elt, e2, f), may_empty)

    def dictcomp(self, e: ast.DictComp, env: Env, f: FuncInfo) -> AV:
        e2 = dict(env)
        for g in e.generators:
            it = self.ev(g.iter, e2, f)
            el = join_all(self.elem(a) for a in alts_of(it)) if not isinstance(it, (Top, Bot)) else TOP
            self.assign(g.target, el, e2, f)
        return Dct(self.ev(e.key, e2, f), self.ev(e.value, e2, f))


from sa import absint_calls  # noqa: E402

absint_calls.attach(Interp)


# modelled natively (absint_calls.sub_hifiber); its body is checked structurally by C09/P3m
NATIVE = {"teaal.trans.utils.TransUtils.sub_hifiber"}


def analyse_trans(db: DB, hm: HModel) -> Interp:
    """Analyse every function of teaal/trans: public ones from their
    annotations, private ones in the contexts of their call sites; a private
    function no analysed caller reaches is analysed from its annotations too."""
    it = Interp(db, hm)
    funcs = [f for q, f in sorted(db.functions.items()) if q.startswith("teaal.trans.") and f.outer is None]
    public = [f for f in funcs if not (f.name.startswith("__") and not f.name.endswith("__"))]
    for f in public:
        if f.name in ("__init__", "__str__", "__eq__", "__repr__", "__hash__") or f.qualname in NATIVE:
            continue
        it.entry(f)
    for f in funcs:
        if f.qualname not in it.analysed and f.qualname not in NATIVE and \
                f.name not in ("__init__", "__str__", "__eq__", "__repr__", "__hash__"):
            it.entry(f)
    return it
