"""
Printer model of the HiFiber classes, *derived* from their ``gen()`` methods.

Each ``gen`` body is executed symbolically (all paths) over a small template
domain: a template is a list of pieces

    ("lit", text)              literal text
    ("ind", delta)             indentation of depth + delta
    ("fld", name, arg)         self.<name>.gen(<arg>)   arg: None | "depth+k" | "True"/"False"/<param>
    ("str", name)              self.<name> or str(self.<name>)  (a raw string / number field)
    ("join", sep, name, arg)   sep.join(x.gen(arg) for x in self.<name>)
    ("joinl", sep, tmpl)       sep.join(<local list whose elements have template tmpl>)
    ("rep", tmpl)              tmpl repeated zero or more times (loop)
    ("sub", name, idx, arg)    self.<name>[idx].gen(arg)  / loop variable over self.<name>

From the templates of a class its *shape* is classified: which fields are
printed exposed next to an operator (and on which side), which are enclosed in
brackets, what kind of expression the printed text is, whether block bodies
are indented one level deeper after a ":\\n" header.  The abstract interpreter
takes every precedence obligation from these shapes - if EParens.gen stopped
printing its brackets, EParens would stop being an atom and every site relying
on it would fail.
"""

from __future__ import annotations

import ast
from typing import Any, Dict, List, Optional, Set, Tuple

from sa.db import DB, AnalysisError, ClassInfo, norm

Piece = Tuple[Any, ...]
Template = Tuple[Piece, ...]

HIFIBER_MODULES = ["teaal.hifiber.expr", "teaal.hifiber.stmt", "teaal.hifiber.arg",
                   "teaal.hifiber.assn", "teaal.hifiber.payload", "teaal.hifiber.op"]


class _Unsupported(Exception):
    pass


class _GenEval:
    """Symbolic all-paths evaluation of one gen() method."""

    def __init__(self, cls: ClassInfo):
        self.cls = cls
        self.results: List[Template] = []

    def run(self) -> List[Template]:
        g = self.cls.methods.get("gen")
        if g is None:
            raise _Unsupported("no gen()")
        self.params = g.call_params
        self.block(g.node.body, {}, [])
        return self.results

    # env: local name -> ("tmpl", Template) | ("list", elemTemplate|None) | ("loopvar", field) | ("pair", field)
    def block(self, stmts: List[ast.stmt], env: Dict[str, Any], conds: List[str]) -> Optional[Dict[str, Any]]:
        for i, s in enumerate(stmts):
            if isinstance(s, ast.Expr) and isinstance(s.value, ast.Constant):
                continue   # docstring
            if isinstance(s, ast.Return):
                self.results.append(self.tmpl(s.value, env))
                return None
            if isinstance(s, (ast.Assign, ast.AnnAssign)):
                tgt = s.targets[0] if isinstance(s, ast.Assign) else s.target
                if s.value is None:
                    continue
                if isinstance(tgt, ast.Name):
                    env = dict(env)
                    if isinstance(s.value, ast.List) and not s.value.elts:
                        env[tgt.id] = ("list", None)
                    else:
                        env[tgt.id] = ("tmpl", self.tmpl(s.value, env))
                    continue
                raise _Unsupported("assignment target " + norm(tgt))
            if isinstance(s, ast.AugAssign) and isinstance(s.target, ast.Name) and isinstance(s.op, ast.Add):
                env = dict(env)
                old = env.get(s.target.id)
                if not old or old[0] != "tmpl":
                    raise _Unsupported("+= on non-template")
                env[s.target.id] = ("tmpl", old[1] + self.tmpl(s.value, env))
                continue
            if isinstance(s, ast.If):
                e1 = self.block(s.body, dict(env), conds + [norm(s.test)])
                e2 = self.block(s.orelse, dict(env), conds + ["not " + norm(s.test)])
                rest = stmts[i + 1:]
                for e in (e1, e2):
                    if e is not None:
                        self.block(rest, e, conds)
                return None
            if isinstance(s, ast.For):
                env = self.loop(s, env)
                continue
            if isinstance(s, ast.Expr) and isinstance(s.value, ast.Call) and \
                    isinstance(s.value.func, ast.Attribute) and s.value.func.attr == "append" and \
                    isinstance(s.value.func.value, ast.Name):
                nm = s.value.func.value.id
                env = dict(env)
                env[nm] = ("list", self.tmpl(s.value.args[0], env))
                continue
            if isinstance(s, ast.Raise):
                return None
            raise _Unsupported("statement " + type(s).__name__)
        return env

    def loop(self, s: ast.For, env: Dict[str, Any]) -> Dict[str, Any]:
        it = s.iter
        env2 = dict(env)
        fld = None
        if isinstance(it, ast.Attribute) and norm(it.value) == "self":
            fld = it.attr
        elif isinstance(it, ast.Call) and isinstance(it.func, ast.Attribute) and \
                it.func.attr == "items" and isinstance(it.func.value, ast.Attribute) and \
                norm(it.func.value.value) == "self":
            fld = it.func.value.attr
        if fld is None:
            raise _Unsupported("loop over " + norm(it))
        if isinstance(s.target, ast.Name):
            env2[s.target.id] = ("loopvar", fld)
        elif isinstance(s.target, ast.Tuple):
            for k, e in enumerate(s.target.elts):
                env2[e.id] = ("loopvar", fld + "#%d" % k)
        out = self.block(s.body, env2, [])
        if out is None:
            raise _Unsupported("loop body returns")
        res = dict(env)
        for k, v in out.items():
            if k in env and env[k] != v:
                if v[0] == "tmpl" and env[k][0] == "tmpl":
                    old = env[k][1]
                    delta = v[1][len(old):]
                    res[k] = ("tmpl", old + (("rep", delta),))
                elif v[0] == "list":
                    res[k] = v
        return res

    def tmpl(self, e: ast.AST, env: Dict[str, Any]) -> Template:
        if isinstance(e, ast.Constant) and isinstance(e.value, str):
            return (("lit", e.value),) if e.value != "" else ()
        if isinstance(e, ast.BinOp) and isinstance(e.op, ast.Add):
            return self.tmpl(e.left, env) + self.tmpl(e.right, env)
        if isinstance(e, ast.BinOp) and isinstance(e.op, ast.Mult):
            for a, b in ((e.left, e.right), (e.right, e.left)):
                if isinstance(a, ast.Constant) and a.value == "    ":
                    return (("ind", self.depth(b)),)
            raise _Unsupported("multiplication " + norm(e))
        if isinstance(e, ast.Name):
            v = env.get(e.id)
            if v and v[0] == "tmpl":
                return v[1]
            raise _Unsupported("name " + e.id)
        if isinstance(e, ast.Attribute) and norm(e.value) == "self":
            return (("str", e.attr),)
        if isinstance(e, ast.Call):
            fn = e.func
            if isinstance(fn, ast.Name) and fn.id == "str" and len(e.args) == 1:
                a = e.args[0]
                if isinstance(a, ast.Attribute) and norm(a.value) == "self":
                    return (("str", a.attr),)
            if isinstance(fn, ast.Attribute) and fn.attr == "gen":
                arg = self.genarg(e)
                recv = fn.value
                if isinstance(recv, ast.Attribute) and norm(recv.value) == "self":
                    return (("fld", recv.attr, arg),)
                if isinstance(recv, ast.Subscript) and isinstance(recv.value, ast.Attribute) and \
                        norm(recv.value.value) == "self":
                    return (("sub", recv.value.attr, norm(recv.slice), arg),)
                if isinstance(recv, ast.Name) and env.get(recv.id, ("",))[0] == "loopvar":
                    return (("sub", env[recv.id][1], "*", arg),)
            if isinstance(fn, ast.Attribute) and fn.attr == "join" and \
                    isinstance(fn.value, ast.Constant) and len(e.args) == 1:
                sep = fn.value.value
                a = e.args[0]
                if isinstance(a, (ast.ListComp, ast.GeneratorExp)) and len(a.generators) == 1:
                    gen = a.generators[0]
                    if isinstance(gen.iter, ast.Attribute) and norm(gen.iter.value) == "self" and \
                            isinstance(a.elt, ast.Call) and isinstance(a.elt.func, ast.Attribute) and \
                            a.elt.func.attr == "gen" and not gen.ifs:
                        return (("join", sep, gen.iter.attr, self.genarg(a.elt)),)
                if isinstance(a, ast.Attribute) and norm(a.value) == "self":
                    return (("joinstr", sep, a.attr),)
                if isinstance(a, ast.Name) and env.get(a.id, ("",))[0] == "list":
                    return (("joinl", sep, env[a.id][1] or ()),)
        raise _Unsupported("expression " + norm(e))

    def genarg(self, call: ast.Call) -> Optional[str]:
        if not call.args:
            return None
        return self.depth(call.args[0])

    def depth(self, e: ast.AST) -> Any:
        if isinstance(e, ast.Name):
            return e.id + "+0" if e.id == "depth" else e.id
        if isinstance(e, ast.BinOp) and isinstance(e.op, ast.Add) and isinstance(e.left, ast.Name) and \
                isinstance(e.right, ast.Constant):
            return "%s+%d" % (e.left.id, e.right.value)
        if isinstance(e, ast.Constant):
            return repr(e.value)
        return norm(e)


OPEN = {"(": ")", "[": "]", "{": "}"}


class Shape:
    """What the printer does with one HiFiber class."""

    def __init__(self, name: str):
        self.name = name
        self.kind = "unknown"        # atom | infix | postfix | leaf | lambda | transparent | stmt | arg | payload | op | assn | unknown
        self.roles: Dict[str, str] = {}   # field -> left | right | recv | enclosed | body | iter | stmt-body | expr-top | name
        self.op_text: Optional[str] = None
        self.templates: List[Template] = []
        self.problems: List[str] = []
        self.neg_possible = False    # leaf that may print a leading minus
        self.block_fields: List[str] = []   # statement fields printed at depth+1 after ":\n"

    def __repr__(self) -> str:
        return "<Shape %s %s %s>" % (self.name, self.kind, self.roles)


def _flat(t: Template) -> str:
    out = []
    for p in t:
        if p[0] == "lit":
            out.append(p[1])
        elif p[0] == "ind":
            out.append("<ind%s>" % p[1])
        elif p[0] in ("fld", "sub"):
            out.append("<%s>" % p[1])
        elif p[0] == "str":
            out.append("<$%s>" % p[1])
        elif p[0] in ("join", "joinstr"):
            out.append("<%s*%s>" % (p[2], p[1]))
        elif p[0] == "joinl":
            out.append("<[%s]*%s>" % (_flat(p[2]), p[1]))
        elif p[0] == "rep":
            out.append("(%s)*" % _flat(p[1]))
    return "".join(out)


def _enclosure(t: Template) -> Dict[str, bool]:
    """field -> True if every occurrence lies strictly inside a bracket pair of
    the template's own literals."""
    depth = 0
    res: Dict[str, bool] = {}

    def walk(pieces: Template) -> None:
        nonlocal depth
        for p in pieces:
            if p[0] == "lit":
                for ch in p[1]:
                    if ch in "([{":
                        depth += 1
                    elif ch in ")]}":
                        depth -= 1
            elif p[0] in ("fld", "sub", "join", "joinstr", "str"):
                nm = p[1] if p[0] in ("fld", "sub", "str") else p[2]
                nm = nm.split("#")[0]
                res[nm] = res.get(nm, True) and depth > 0
            elif p[0] in ("rep",):
                walk(p[1])
            elif p[0] == "joinl":
                walk(p[2])
    walk(t)
    return res


def classify(c: ClassInfo, templates: List[Template], family: str) -> Shape:
    sh = Shape(c.name)
    sh.templates = templates
    flats = [_flat(t) for t in templates]
    if family == "op":
        sh.kind = "op"
        if len(templates) == 1 and len(templates[0]) == 1 and templates[0][0][0] == "lit":
            sh.op_text = templates[0][0][1]
        else:
            sh.problems.append("operator does not print a single literal: %s" % flats)
        return sh
    if family == "expr":
        # bracket-delimited on every path -> atom
        def delimited(t: Template) -> bool:
            if not t or t[0][0] != "lit" or t[-1][0] != "lit":
                return False
            first, last = t[0][1], t[-1][1]
            if first[:1] in OPEN and last[-1:] == OPEN[first[:1]]:
                # the opening bracket must stay open until the end
                depth = 0
                n_total = sum(len(p[1]) if p[0] == "lit" else 1 for p in t)
                pos = 0
                for p in t:
                    if p[0] == "lit":
                        for ch in p[1]:
                            pos += 1
                            if ch in "([{":
                                depth += 1
                            elif ch in ")]}":
                                depth -= 1
                                if depth == 0 and pos != n_total:
                                    return False
                    else:
                        pos += 1
                        if depth == 0:
                            return False
                return depth == 0
            if first == '"' and last == '"':
                return True
            return False
        if all(delimited(t) for t in templates):
            sh.kind = "atom"
            for t in templates:
                for f, enc in _enclosure(t).items():
                    sh.roles[f] = "enclosed"
            # a comprehension's iterable follows " in " and cannot be a lambda
            for t in templates:
                for i, p in enumerate(t):
                    if p[0] == "lit" and p[1].endswith(" in ") and i + 1 < len(t) and t[i + 1][0] == "fld":
                        sh.roles[t[i + 1][1]] = "iter"
            return sh
        if len(templates) == 1:
            t = templates[0]
            # transparent: prints exactly one sub-expression
            if len(t) == 1 and t[0][0] == "fld":
                sh.kind = "transparent"
                sh.roles[t[0][1]] = "transparent"
                return sh
            # infix: <a> " " <op> " " <b>
            if len(t) == 5 and t[0][0] == "fld" and t[2][0] == "fld" and t[4][0] == "fld" and \
                    t[1] == ("lit", " ") and t[3] == ("lit", " "):
                sh.kind = "infix"
                sh.roles[t[0][1]] = "left"
                sh.roles[t[2][1]] = "op"
                sh.roles[t[4][1]] = "right"
                return sh
            # lambda
            if t[0][0] == "lit" and t[0][1].startswith("lambda ") and t[-1][0] == "fld":
                sh.kind = "lambda"
                sh.roles[t[-1][1]] = "body"
                for p in t[1:-1]:
                    if p[0] in ("joinstr", "str"):
                        sh.roles[p[2] if p[0] == "joinstr" else p[1]] = "name"
                return sh
            # postfix on an expression receiver: <obj> "." ... "(" ... ")"  or <obj> "[" <ind> "]"
            if t[0][0] == "fld" and t[1][0] == "lit" and t[1][1][:1] in (".", "[") and \
                    t[-1][0] == "lit" and t[-1][1][-1:] in (")", "]"):
                sh.kind = "postfix"
                sh.roles[t[0][1]] = "recv"
                enc = _enclosure(t[1:])
                for f, e in enc.items():
                    if f != t[0][1]:
                        sh.roles[f] = "enclosed" if e else "name"
                return sh
            # call / field on a *name*: <$name> "(" ... ")"   or  <$obj> "." <$field>
            if t[0][0] == "str" and all(p[0] in ("str", "lit", "join") for p in t):
                txt = flats[0]
                if (len(t) >= 2 and t[1][0] == "lit" and t[1][1][:1] in ("(", ".")) or len(t) == 1:
                    sh.kind = "atom" if len(t) > 1 else "leaf"
                    enc = _enclosure(t)
                    for f, e in enc.items():
                        sh.roles[f] = "enclosed" if e else "name"
                    if len(t) == 1:
                        sh.roles[t[0][1]] = "name"
                    return sh
        # several return paths, all leaves (EFloat) -> leaf, may print a minus
        if all(all(p[0] in ("lit", "str") for p in t) for t in templates):
            sh.kind = "leaf"
            for t in templates:
                if t and t[0][0] == "lit" and t[0][1].startswith("-"):
                    sh.neg_possible = True
                for p in t:
                    if p[0] == "str":
                        sh.roles[p[1]] = "value"
            return sh
        sh.problems.append("unrecognised expression shape: %s" % flats)
        return sh
    if family in ("arg", "assn"):
        sh.kind = family
        if len(templates) != 1:
            sh.problems.append("several print paths: %s" % flats)
            return sh
        t = templates[0]
        if len(t) == 1 and t[0][0] == "fld":
            sh.roles[t[0][1]] = "arg-expr"            # AJust
        elif len(t) == 1 and t[0][0] == "str":
            sh.roles[t[0][1]] = "name"                # AVar
        elif len(t) == 3 and t[0][0] == "str" and t[1] == ("lit", "=") and t[2][0] == "fld":
            sh.roles[t[0][1]] = "name"                # AParam
            sh.roles[t[2][1]] = "arg-expr"
        elif len(t) == 3 and t[0][0] == "str" and t[1] == ("lit", ".") and t[2][0] == "str":
            sh.roles[t[0][1]] = "name"                # AField
            sh.roles[t[2][1]] = "name"
        elif len(t) == 4 and t[0][0] == "fld" and t[1] == ("lit", "[") and t[2][0] == "fld" and t[3] == ("lit", "]"):
            sh.roles[t[0][1]] = "recv"                # AAccess
            sh.roles[t[2][1]] = "enclosed"
        else:
            sh.problems.append("unrecognised %s shape: %s" % (family, flats))
        return sh
    if family == "payload":
        sh.kind = "payload"
        for t in templates:
            for p in t:
                if p[0] == "join" and p[3] != "True":
                    sh.problems.append("nested payloads are not parenthesised: %s" % _flat(t))
        # a tuple payload must have a parenthesised variant selected by its argument
        if any(p[0] == "join" for t in templates for p in t):
            if not any(t and t[0] == ("lit", "(") and t[-1] == ("lit", ")") for t in templates):
                sh.problems.append("tuple payload never prints parentheses: %s" % flats)
        return sh
    if family == "stmt":
        sh.kind = "stmt"
        for t in templates:
            # every statement field printed at depth+1 must follow a ":\n" header
            def scan(pieces: Template) -> None:
                for i, p in enumerate(pieces):
                    if p[0] == "rep":
                        scan(p[1])
                        continue
                    is_stmt_fld = p[0] in ("fld", "sub") and isinstance(p[-1], str) and \
                        p[-1].startswith("depth+")
                    if is_stmt_fld:
                        delta = int(p[-1].split("+")[1])
                        prev = pieces[i - 1] if i > 0 else None
                        after_colon = prev is not None and prev[0] == "lit" and prev[1].endswith(":\n")
                        if delta == 1:
                            if not after_colon:
                                sh.problems.append("body %s printed deeper without a ':\\n' header" % p[1])
                            if p[1] not in sh.block_fields:
                                sh.block_fields.append(p[1])
                            sh.roles[p[1]] = "stmt-body"
                        elif delta == 0:
                            if after_colon:
                                sh.problems.append("body %s after ':\\n' is not indented" % p[1])
                            sh.roles.setdefault(p[1], "stmt-seq")
                        else:
                            sh.problems.append("body %s printed at depth+%d" % (p[1], delta))
                    elif p[0] in ("fld", "sub", "join"):
                        nm = p[1] if p[0] != "join" else p[2]
                        sh.roles.setdefault(nm, "expr-top")
                    elif p[0] == "str":
                        sh.roles.setdefault(p[1], "name")
            scan(t)
            # simple statements start with the indentation
            if t and t[0][0] != "ind" and not (t[0][0] in ("join",) or (t[0][0] == "lit" and t[0][1] == "")):
                if c.name != "SBlock":
                    sh.problems.append("statement does not start with its indentation: %s" % _flat(t))
        return sh
    sh.problems.append("unknown family")
    return sh


class PrinterModel:
    def __init__(self, db: DB):
        self.db = db
        self.shapes: Dict[str, Shape] = {}
        fam = {"teaal.hifiber.expr": "expr", "teaal.hifiber.stmt": "stmt", "teaal.hifiber.arg": "arg",
               "teaal.hifiber.assn": "assn", "teaal.hifiber.payload": "payload", "teaal.hifiber.op": "op"}
        for modname, family in fam.items():
            m = db.module(modname)
            for c in m.classes.values():
                try:
                    ts = _GenEval(c).run()
                    sh = classify(c, ts, family)
                except _Unsupported as e:
                    sh = Shape(c.name)
                    sh.problems.append("gen() uses a construct the printer model cannot follow: %s" % e)
                sh.family = family
                sh.cls = c
                self.shapes[c.name] = sh
        if len(self.shapes) < 40:
            raise AnalysisError("only %d HiFiber classes found" % len(self.shapes))

    def op_symbol(self, clsname: str) -> Optional[str]:
        sh = self.shapes.get(clsname)
        return sh.op_text if sh else None


# Python operator precedence (higher binds tighter), for the operator texts the
# printer can emit.  Comparisons are non-associative (they chain).
PREC = {"in": 1, "not in": 1, "==": 1, "<": 1, "!=": 1, ">": 1, "<=": 1, ">=": 1,
        "|": 2, "^": 3, "&": 4, "<<": 5, ">>": 5, "+": 6, "-": 6,
        "*": 7, "/": 7, "//": 7, "%": 7, "@": 7}
COMPARISONS = {"in", "not in", "==", "<", "!=", ">", "<=", ">="}
ASSOCIATIVE = {"+", "*", "&", "|", "^"}
