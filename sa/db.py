"""
Program database over /repo's current working tree (pure ``ast``).

Nothing here imports or runs ``teaal``.  Every check constructs a fresh ``DB``
so the verdict always reflects the sources as they are on disk now.

Provides
* modules / classes (resolved bases, MRO, subclasses) / functions with
  qualified names (private methods keep their source spelling ``__name``),
* star-import aware name resolution per module,
* an annotation-driven expression typer (the repository is fully annotated and
  type-checks under mypy, so parameter, field and return annotations resolve
  the receiver class of almost every method call) and a call resolver built on
  it,
* parent links and normalised statement text for reporting.
"""

from __future__ import annotations

import ast
import hashlib
import os
from typing import Dict, Iterable, Iterator, List, Optional, Sequence, Tuple

REPO = os.environ.get("SA_REPO", "/repo")
PKG = "teaal"


class AnalysisError(Exception):
    """The analysis itself cannot run (missing anchor, parse failure, floor)."""


# --------------------------------------------------------------------------
# Types: small tuples
#   ("cls", qualname) ("list", T) ("set", T) ("dict", K, V) ("tuple", (T..))
#   ("str",) ("int",) ("bool",) ("float",) ("none",) ("any",) ("type", T)
#   ("iter", T)  ("func",)  ("ext", dotted-name)  ("union", (T..))
# --------------------------------------------------------------------------
ANY = ("any",)
STR = ("str",)
INT = ("int",)
BOOL = ("bool",)
NONE = ("none",)


def ty_is_cls(t) -> bool:
    return bool(t) and t[0] == "cls"


def elem_of(t):
    """Element type when iterating a value of type t."""
    if not t:
        return ANY
    if t[0] in ("list", "set", "iter"):
        return t[1]
    if t[0] == "dict":
        return t[1]
    if t[0] == "tuple":
        ts = set(t[1])
        return t[1][0] if len(ts) == 1 else ANY
    if t[0] == "str":
        return STR
    return ANY


class Module:
    def __init__(self, name: str, path: str, rel: str, src: str):
        self.name = name
        self.path = path
        self.rel = rel
        self.src = src
        self.lines = src.splitlines()
        self.tree = ast.parse(src, filename=path)
        self.ns: Dict[str, Tuple[str, object]] = {}
        self.classes: Dict[str, "ClassInfo"] = {}
        self.functions: Dict[str, "FuncInfo"] = {}
        for node in ast.walk(self.tree):
            for child in ast.iter_child_nodes(node):
                child.parent = node  # type: ignore[attr-defined]
                child._mod = self  # type: ignore[attr-defined]
        self.tree.parent = None  # type: ignore[attr-defined]


class ClassInfo:
    def __init__(self, module: Module, node: ast.ClassDef):
        self.module = module
        self.node = node
        self.name = node.name
        self.qualname = module.name + "." + node.name
        self.bases: List["ClassInfo"] = []
        self.base_names: List[str] = []
        self.subclasses: List["ClassInfo"] = []
        self.methods: Dict[str, "FuncInfo"] = {}
        self.field_types: Dict[str, tuple] = {}
        self.class_attrs: Dict[str, ast.AST] = {}

    def mro(self) -> List["ClassInfo"]:
        out: List[ClassInfo] = []
        todo = [self]
        while todo:
            c = todo.pop(0)
            if c in out:
                continue
            out.append(c)
            todo.extend(c.bases)
        return out

    def all_subclasses(self) -> List["ClassInfo"]:
        out: List[ClassInfo] = []
        todo = list(self.subclasses)
        while todo:
            c = todo.pop()
            if c in out:
                continue
            out.append(c)
            todo.extend(c.subclasses)
        return out

    def is_subclass_of(self, other: "ClassInfo") -> bool:
        return other in self.mro()

    def lookup(self, name: str) -> Optional["FuncInfo"]:
        for c in self.mro():
            if name in c.methods:
                return c.methods[name]
        return None

    def mangle(self, name: str) -> str:
        if name.startswith("__") and not name.endswith("__"):
            return "_" + self.name.lstrip("_") + name
        return name

    def __repr__(self) -> str:
        return "<class %s>" % self.qualname


class FuncInfo:
    def __init__(self, module: Module, node, cls: Optional[ClassInfo],
                 outer: Optional["FuncInfo"] = None):
        self.module = module
        self.node = node
        self.cls = cls
        self.outer = outer
        self.name = node.name
        if outer is not None:
            self.qualname = outer.qualname + ".<locals>." + node.name
        elif cls is not None:
            self.qualname = cls.qualname + "." + node.name
        else:
            self.qualname = module.name + "." + node.name
        decos = [d.id for d in node.decorator_list if isinstance(d, ast.Name)]
        self.is_static = "staticmethod" in decos
        self.is_classmethod = "classmethod" in decos
        self.is_abstract = any(
            (isinstance(d, ast.Attribute) and d.attr == "abstractmethod") or
            (isinstance(d, ast.Name) and d.id == "abstractmethod")
            for d in node.decorator_list)
        self._locals: Optional[Dict[str, tuple]] = None

    @property
    def short(self) -> str:
        """Class.method (or function) — stable key for findings."""
        if self.cls is not None:
            return self.cls.name + "." + self.name
        return self.name

    @property
    def params(self) -> List[str]:
        a = self.node.args
        return [x.arg for x in a.posonlyargs + a.args + a.kwonlyargs]

    @property
    def call_params(self) -> List[str]:
        """Parameters as seen by a caller (without self / cls)."""
        p = self.params
        if self.cls is not None and not self.is_static and p:
            return p[1:]
        return p

    def __repr__(self) -> str:
        return "<func %s>" % self.qualname


def norm(node: ast.AST) -> str:
    """Normalised text of a node (independent of layout and line numbers)."""
    try:
        return ast.unparse(node)
    except Exception:  # pragma: no cover
        return ast.dump(node)


def enclosing_stmt(node: ast.AST) -> ast.AST:
    while not isinstance(node, ast.stmt):
        node = node.parent  # type: ignore[attr-defined]
    return node


def walk_no_nested(node: ast.AST) -> Iterator[ast.AST]:
    """ast.walk that does not descend into nested function/class/lambda defs."""
    todo = list(ast.iter_child_nodes(node))
    while todo:
        n = todo.pop(0)
        yield n
        if isinstance(n, (ast.FunctionDef, ast.AsyncFunctionDef, ast.ClassDef)):
            continue
        todo.extend(ast.iter_child_nodes(n))


class DB:
    def __init__(self, repo: Optional[str] = None, flatten: bool = True):
        self.repo = repo or REPO
        self.modules: Dict[str, Module] = {}
        self.classes: Dict[str, ClassInfo] = {}      # qualname -> class
        self.functions: Dict[str, FuncInfo] = {}     # qualname -> function
        self.by_short: Dict[str, List[FuncInfo]] = {}
        self._load()
        self._link()
        self._fields()
        self._fields(deep=True)
        for f in self.functions.values():
            f._locals = None
        self.flattened = False
        if flatten and not os.environ.get("SA_NO_FLATTEN"):
            from sa.flatten import Flattener
            fl = Flattener(self)
            fl.run()
            self.flattened = True
            self.inlined_helpers = dict(fl.inlined_sites)
        self._callers: Optional[Dict[str, List[Tuple[FuncInfo, ast.Call]]]] = None

    # ------------------------------------------------------------------ load
    def _load(self) -> None:
        root = os.path.join(self.repo, PKG)
        if not os.path.isdir(root):
            raise AnalysisError("package directory %s not found" % root)
        h = hashlib.sha256()
        paths = []
        for d, dirs, files in os.walk(root):
            dirs.sort()
            if "__pycache__" in dirs:
                dirs.remove("__pycache__")
            for f in sorted(files):
                if f.endswith(".py"):
                    paths.append(os.path.join(d, f))
        for p in paths:
            rel = os.path.relpath(p, self.repo)
            name = rel[:-3].replace(os.sep, ".")
            if name.endswith(".__init__"):
                name = name[:-9]
            with open(p, encoding="utf-8") as fh:
                src = fh.read()
            h.update(rel.encode())
            h.update(src.encode())
            try:
                m = Module(name, p, rel, src)
            except SyntaxError as e:
                raise AnalysisError("cannot parse %s: %s" % (rel, e))
            self.modules[name] = m
        self.digest = h.hexdigest()
        if len(self.modules) < 40:
            raise AnalysisError(
                "only %d modules parsed under %s (expected >= 40)" %
                (len(self.modules), root))

        for m in self.modules.values():
            for node in m.tree.body:
                if isinstance(node, ast.ClassDef):
                    c = ClassInfo(m, node)
                    m.classes[c.name] = c
                    self.classes[c.qualname] = c
                    for sub in node.body:
                        if isinstance(sub, (ast.FunctionDef, ast.AsyncFunctionDef)):
                            f = FuncInfo(m, sub, c)
                            c.methods[f.name] = f
                            self._add_func(f)
                        elif isinstance(sub, ast.Assign):
                            for t in sub.targets:
                                if isinstance(t, ast.Name):
                                    c.class_attrs[t.id] = sub.value
                        elif isinstance(sub, ast.AnnAssign) and sub.value is not None \
                                and isinstance(sub.target, ast.Name):
                            c.class_attrs[sub.target.id] = sub.value
                elif isinstance(node, (ast.FunctionDef, ast.AsyncFunctionDef)):
                    f = FuncInfo(m, node, None)
                    m.functions[f.name] = f
                    self._add_func(f)

    def _add_func(self, f: FuncInfo) -> None:
        self.functions[f.qualname] = f
        self.by_short.setdefault(f.short, []).append(f)
        f.node.finfo = f
        for n in walk_no_nested(f.node):
            if isinstance(n, (ast.FunctionDef, ast.AsyncFunctionDef)):
                g = FuncInfo(f.module, n, f.cls, outer=f)
                self._add_func(g)

    # ------------------------------------------------------------------ link
    def _module_exports(self, m: Module, seen=None) -> Dict[str, Tuple[str, object]]:
        return self._ns(m, seen or set())

    def _ns(self, m: Module, seen: set) -> Dict[str, Tuple[str, object]]:
        if m.ns:
            return m.ns
        if m.name in seen:
            return {}
        seen = seen | {m.name}
        ns: Dict[str, Tuple[str, object]] = {}
        is_pkg = m.path.endswith("__init__.py")
        for node in m.tree.body:
            if isinstance(node, ast.ImportFrom):
                modname = node.module or ""
                if node.level:
                    base = m.name.split(".")
                    if not is_pkg:
                        base = base[:-1]
                    base = base[:len(base) - (node.level - 1)]
                    modname = ".".join(base + ([modname] if modname else []))
                target = self.modules.get(modname)
                for a in node.names:
                    if a.name == "*":
                        if target is not None:
                            for k, v in self._ns(target, seen).items():
                                if not k.startswith("_"):
                                    ns[k] = v
                        continue
                    asname = a.asname or a.name
                    if target is not None:
                        tns = self._ns(target, seen)
                        if a.name in tns:
                            ns[asname] = tns[a.name]
                        elif (modname + "." + a.name) in self.modules:
                            ns[asname] = ("mod", self.modules[modname + "." + a.name])
                        else:
                            ns[asname] = ("ext", modname + "." + a.name)
                    else:
                        ns[asname] = ("ext", modname + "." + a.name)
            elif isinstance(node, ast.Import):
                for a in node.names:
                    asname = a.asname or a.name.split(".")[0]
                    if a.name in self.modules:
                        ns[asname] = ("mod", self.modules[a.name])
                    else:
                        ns[asname] = ("ext", a.name)
            elif isinstance(node, ast.ClassDef):
                ns[node.name] = ("class", m.classes[node.name])
            elif isinstance(node, (ast.FunctionDef, ast.AsyncFunctionDef)):
                ns[node.name] = ("func", m.functions[node.name])
            elif isinstance(node, ast.Assign):
                for t in node.targets:
                    if isinstance(t, ast.Name):
                        ns[t.id] = ("var", node.value)
        m.ns = ns
        return ns

    def _link(self) -> None:
        for m in self.modules.values():
            self._ns(m, set())
        for c in self.classes.values():
            for b in c.node.bases:
                nm = b.id if isinstance(b, ast.Name) else (
                    b.attr if isinstance(b, ast.Attribute) else None)
                if nm is None:
                    continue
                c.base_names.append(nm)
                ent = c.module.ns.get(nm)
                if ent and ent[0] == "class":
                    c.bases.append(ent[1])  # type: ignore[arg-type]
                    ent[1].subclasses.append(c)  # type: ignore[union-attr]

    # ---------------------------------------------------------------- lookup
    def module(self, name: str) -> Module:
        m = self.modules.get(name)
        if m is None:
            raise AnalysisError("anchor module %s not found" % name)
        return m

    def cls(self, qualname: str) -> ClassInfo:
        c = self.classes.get(qualname)
        if c is None:
            raise AnalysisError("anchor class %s not found" % qualname)
        return c

    def func(self, qualname: str) -> FuncInfo:
        f = self.functions.get(qualname)
        if f is None:
            raise AnalysisError("anchor function %s not found" % qualname)
        return f

    def try_func(self, qualname: str) -> Optional[FuncInfo]:
        return self.functions.get(qualname)

    def resolve_name(self, m: Module, name: str):
        return m.ns.get(name)

    def loc(self, node: ast.AST) -> str:
        m = getattr(node, "_mod", None)
        while m is None and getattr(node, "parent", None) is not None:
            node = node.parent  # type: ignore[attr-defined]
            m = getattr(node, "_mod", None)
        rel = m.rel if m else "?"
        return "%s:%d" % (rel, getattr(node, "lineno", 0))

    def func_of(self, node: ast.AST) -> Optional[FuncInfo]:
        n = node
        while n is not None:
            fi = getattr(n, "finfo", None)
            if fi is not None and n is not node:
                return fi
            if fi is not None and n is node and isinstance(node, (ast.FunctionDef,)):
                return fi
            n = getattr(n, "parent", None)
        return None

    def all_functions(self, prefixes: Sequence[str] = ()) -> List[FuncInfo]:
        out = []
        for q, f in sorted(self.functions.items()):
            if not prefixes or any(q.startswith(p) for p in prefixes):
                out.append(f)
        return out

    # ----------------------------------------------------------------- types
    def ann_type(self, m: Module, ann: Optional[ast.AST]) -> tuple:
        if ann is None:
            return ANY
        if isinstance(ann, ast.Constant):
            if ann.value is None:
                return NONE
            if isinstance(ann.value, str):
                try:
                    return self.ann_type(m, ast.parse(ann.value, mode="eval").body)
                except SyntaxError:
                    return ANY
            return ANY
        if isinstance(ann, ast.Name):
            nm = ann.id
            prim = {"str": STR, "int": INT, "bool": BOOL, "float": ("float",),
                    "None": NONE, "Any": ANY, "object": ANY, "dict": ("dict", ANY, ANY),
                    "list": ("list", ANY), "set": ("set", ANY), "tuple": ("tuple", ())}
            if nm in prim:
                return prim[nm]
            ent = m.ns.get(nm)
            if ent and ent[0] == "class":
                return ("cls", ent[1].qualname)  # type: ignore[union-attr]
            if ent and ent[0] == "ext":
                return ("ext", ent[1])
            return ANY
        if isinstance(ann, ast.Attribute):
            return ("ext", norm(ann))
        if isinstance(ann, ast.Subscript):
            head = norm(ann.value).split(".")[-1]
            sl = ann.slice
            args = list(sl.elts) if isinstance(sl, ast.Tuple) else [sl]
            if head == "Optional":
                return self.ann_type(m, args[0])
            if head in ("List", "Sequence", "list", "Iterable", "Iterator", "Generator"):
                return ("list", self.ann_type(m, args[0]))
            if head in ("Set", "set", "FrozenSet"):
                return ("set", self.ann_type(m, args[0]))
            if head in ("Dict", "dict", "Mapping", "OrderedDict", "DefaultDict"):
                if len(args) == 2:
                    return ("dict", self.ann_type(m, args[0]), self.ann_type(m, args[1]))
                return ("dict", ANY, ANY)
            if head in ("Tuple", "tuple"):
                if len(args) == 2 and isinstance(args[1], ast.Constant) and args[1].value is Ellipsis:
                    return ("list", self.ann_type(m, args[0]))
                return ("tuple", tuple(self.ann_type(m, a) for a in args))
            if head == "Type":
                return ("type", self.ann_type(m, args[0]))
            if head == "Union":
                ts = [self.ann_type(m, a) for a in args]
                ts = [t for t in ts if t != NONE]
                if len(ts) == 1:
                    return ts[0]
                return ("union", tuple(ts))
            return ANY
        if isinstance(ann, ast.BinOp) and isinstance(ann.op, ast.BitOr):
            ts = [self.ann_type(m, ann.left), self.ann_type(m, ann.right)]
            ts = [t for t in ts if t != NONE]
            return ts[0] if len(ts) == 1 else ("union", tuple(ts))
        return ANY

    def _fields(self, deep: bool = False) -> None:
        """Field types from annotated assignments / parameter annotations."""
        for c in self.classes.values():
            for f in c.methods.values():
                ptypes = self.param_types(f)
                for n in walk_no_nested(f.node):
                    tgt = None
                    val = None
                    ann = None
                    if isinstance(n, ast.AnnAssign):
                        tgt, val, ann = n.target, n.value, n.annotation
                    elif isinstance(n, ast.Assign) and len(n.targets) == 1:
                        tgt, val = n.targets[0], n.value
                    if not (isinstance(tgt, ast.Attribute) and isinstance(tgt.value, ast.Name)
                            and tgt.value.id == "self"):
                        continue
                    nm = c.mangle(tgt.attr)
                    t = ANY
                    if ann is not None:
                        t = self.ann_type(c.module, ann)
                    elif isinstance(val, ast.Name) and val.id in ptypes:
                        t = ptypes[val.id]
                    elif val is not None:
                        t = self._quick_type(c.module, val)
                        if t == ANY and deep:
                            try:
                                t = self.type_of(val, f)
                            except RecursionError:  # pragma: no cover
                                t = ANY
                    if t != ANY and (nm not in c.field_types or ann is not None):
                        c.field_types[nm] = t

    def _quick_type(self, m: Module, val: ast.AST) -> tuple:
        if isinstance(val, ast.Call) and isinstance(val.func, ast.Name):
            ent = m.ns.get(val.func.id)
            if ent and ent[0] == "class":
                return ("cls", ent[1].qualname)  # type: ignore[union-attr]
            if val.func.id == "set":
                return ("set", ANY)
            if val.func.id == "list":
                return ("list", ANY)
            if val.func.id == "dict":
                return ("dict", ANY, ANY)
        if isinstance(val, ast.Constant):
            if isinstance(val.value, bool):
                return BOOL
            if isinstance(val.value, int):
                return INT
            if isinstance(val.value, str):
                return STR
        if isinstance(val, (ast.List, ast.ListComp)):
            return ("list", ANY)
        if isinstance(val, (ast.Dict, ast.DictComp)):
            return ("dict", ANY, ANY)
        if isinstance(val, (ast.Set, ast.SetComp)):
            return ("set", ANY)
        return ANY

    def param_types(self, f: FuncInfo) -> Dict[str, tuple]:
        out: Dict[str, tuple] = {}
        a = f.node.args
        allargs = a.posonlyargs + a.args + a.kwonlyargs
        for i, arg in enumerate(allargs):
            if i == 0 and f.cls is not None and not f.is_static:
                if f.is_classmethod:
                    out[arg.arg] = ("type", ("cls", f.cls.qualname))
                else:
                    out[arg.arg] = ("cls", f.cls.qualname)
                continue
            out[arg.arg] = self.ann_type(f.module, arg.annotation)
        return out

    def field_type(self, c: ClassInfo, attr: str) -> tuple:
        for k in c.mro():
            if attr in k.field_types:
                return k.field_types[attr]
        return ANY

    def return_type(self, f: FuncInfo) -> tuple:
        return self.ann_type(f.module, f.node.returns)

    def local_types(self, f: FuncInfo) -> Dict[str, tuple]:
        if f._locals is not None:
            return f._locals
        env: Dict[str, tuple] = dict(self.param_types(f))
        if f.outer is not None:
            for k, v in self.local_types(f.outer).items():
                env.setdefault(k, v)
        f._locals = env
        annotated = set(env)
        for _ in range(2):
            for n in walk_no_nested(f.node):
                if isinstance(n, ast.AnnAssign) and isinstance(n.target, ast.Name):
                    env[n.target.id] = self.ann_type(f.module, n.annotation)
                    annotated.add(n.target.id)
                elif isinstance(n, ast.Assign):
                    t = None
                    for tgt in n.targets:
                        if t is None:
                            t = self.type_of(n.value, f)
                        self._bind(tgt, t, env, annotated)
                elif isinstance(n, (ast.For, ast.comprehension)):
                    t = elem_of(self.type_of(n.iter, f))
                    self._bind(n.target, t, env, annotated)
                elif isinstance(n, ast.NamedExpr):
                    self._bind(n.target, self.type_of(n.value, f), env, annotated)
        return env

    def _bind(self, tgt: ast.AST, t: tuple, env: Dict[str, tuple], annotated: set) -> None:
        if isinstance(tgt, ast.Name):
            if tgt.id in annotated:
                return
            if env.get(tgt.id, ANY) == ANY or t != ANY:
                if tgt.id not in env or env[tgt.id] == ANY:
                    env[tgt.id] = t
        elif isinstance(tgt, (ast.Tuple, ast.List)):
            for i, e in enumerate(tgt.elts):
                if isinstance(e, ast.Starred):
                    continue
                if t and t[0] == "tuple" and i < len(t[1]):
                    self._bind(e, t[1][i], env, annotated)
                elif t and t[0] in ("list", "set"):
                    self._bind(e, t[1], env, annotated)
                else:
                    self._bind(e, ANY, env, annotated)

    def type_of(self, e: ast.AST, f: FuncInfo) -> tuple:
        """Static type of expression e inside function f (best effort)."""
        m = f.module
        if isinstance(e, ast.Name):
            env = f._locals if f._locals is not None else self.local_types(f)
            if e.id in env:
                return env[e.id]
            ent = m.ns.get(e.id)
            if ent:
                if ent[0] == "class":
                    return ("type", ("cls", ent[1].qualname))  # type: ignore[union-attr]
                if ent[0] == "ext":
                    return ("ext", ent[1])
                if ent[0] == "mod":
                    return ("mod", ent[1].name)  # type: ignore[union-attr]
            return ANY
        if isinstance(e, ast.Constant):
            v = e.value
            if isinstance(v, bool):
                return BOOL
            if isinstance(v, int):
                return INT
            if isinstance(v, str):
                return STR
            if v is None:
                return NONE
            if isinstance(v, float):
                return ("float",)
            return ANY
        if isinstance(e, ast.Attribute):
            bt = self.type_of(e.value, f)
            if ty_is_cls(bt):
                c = self.classes.get(bt[1])
                if c is not None:
                    nm = e.attr
                    if f.cls is not None:
                        nm = f.cls.mangle(nm)
                    return self.field_type(c, nm)
            return ANY
        if isinstance(e, ast.Call):
            fn = e.func
            if isinstance(fn, ast.Name):
                if fn.id == "cast" and len(e.args) == 2:
                    return self.ann_type(m, e.args[0])
                if fn.id in ("list", "sorted", "reversed"):
                    if e.args:
                        return ("list", elem_of(self.type_of(e.args[0], f)))
                    return ("list", ANY)
                if fn.id == "set":
                    if e.args:
                        return ("set", elem_of(self.type_of(e.args[0], f)))
                    return ("set", ANY)
                if fn.id == "tuple":
                    if e.args:
                        return ("list", elem_of(self.type_of(e.args[0], f)))
                    return ("tuple", ())
                if fn.id == "dict":
                    return ("dict", ANY, ANY)
                if fn.id == "str":
                    return STR
                if fn.id in ("int", "len"):
                    return INT
                if fn.id == "enumerate" and e.args:
                    return ("list", ("tuple", (INT, elem_of(self.type_of(e.args[0], f)))))
                if fn.id == "zip":
                    return ("list", ("tuple", tuple(elem_of(self.type_of(a, f)) for a in e.args)))
                if fn.id == "deepcopy" and e.args:
                    return self.type_of(e.args[0], f)
                if fn.id == "next" and e.args:
                    return elem_of(self.type_of(e.args[0], f))
                if fn.id == "iter" and e.args:
                    return ("iter", elem_of(self.type_of(e.args[0], f)))
            cs = self.resolve_call(e, f)
            if cs:
                g = cs[0]
                if g.name == "__init__" and g.cls is not None:
                    # constructor call: type is the class named at the call
                    tt = self.type_of(fn, f)
                    if tt and tt[0] == "type":
                        return tt[1]
                    return ("cls", g.cls.qualname)
                return self.return_type(g)
            tt = self.type_of(fn, f) if isinstance(fn, (ast.Name, ast.Attribute)) else ANY
            if tt and tt[0] == "type":
                return tt[1]
            # builtin container methods
            if isinstance(fn, ast.Attribute):
                bt = self.type_of(fn.value, f)
                a = fn.attr
                if bt[0] == "dict":
                    if a == "items":
                        return ("list", ("tuple", (bt[1], bt[2])))
                    if a == "keys":
                        return ("list", bt[1])
                    if a == "values":
                        return ("list", bt[2])
                    if a in ("get", "pop", "setdefault"):
                        return bt[2]
                    if a == "copy":
                        return bt
                if bt[0] in ("list", "set"):
                    if a in ("copy", "union", "intersection", "difference"):
                        return bt
                    if a == "pop":
                        return bt[1]
                    if a == "index":
                        return INT
                if bt[0] == "str":
                    if a in ("lower", "upper", "strip", "join", "replace", "format"):
                        return STR
                    if a == "split":
                        return ("list", STR)
            return ANY
        if isinstance(e, ast.Subscript):
            bt = self.type_of(e.value, f)
            if isinstance(e.slice, ast.Slice):
                return bt if bt[0] in ("list", "str") else ANY
            if bt[0] == "list":
                return bt[1]
            if bt[0] == "dict":
                return bt[2]
            if bt[0] == "tuple":
                if isinstance(e.slice, ast.Constant) and isinstance(e.slice.value, int):
                    i = e.slice.value
                    if -len(bt[1]) <= i < len(bt[1]):
                        return bt[1][i]
                return elem_of(bt)
            if bt[0] == "str":
                return STR
            return ANY
        if isinstance(e, (ast.List, ast.ListComp)):
            if isinstance(e, ast.List):
                ts = {self.type_of(x, f) for x in e.elts}
                return ("list", ts.pop() if len(ts) == 1 else ANY)
            return ("list", self.type_of(e.elt, f))
        if isinstance(e, (ast.Set, ast.SetComp)):
            if isinstance(e, ast.Set):
                ts = {self.type_of(x, f) for x in e.elts}
                return ("set", ts.pop() if len(ts) == 1 else ANY)
            return ("set", self.type_of(e.elt, f))
        if isinstance(e, ast.GeneratorExp):
            return ("iter", self.type_of(e.elt, f))
        if isinstance(e, (ast.Dict, ast.DictComp)):
            return ("dict", ANY, ANY)
        if isinstance(e, ast.Tuple):
            return ("tuple", tuple(self.type_of(x, f) for x in e.elts))
        if isinstance(e, ast.JoinedStr):
            return STR
        if isinstance(e, ast.BinOp):
            lt = self.type_of(e.left, f)
            rt = self.type_of(e.right, f)
            if isinstance(e.op, ast.Add) and lt[0] in ("str", "list"):
                return lt
            if isinstance(e.op, ast.Add) and rt[0] in ("str", "list"):
                return rt
            if lt == INT and rt == INT:
                return INT
            if isinstance(e.op, (ast.Sub, ast.BitOr, ast.BitAnd)) and lt[0] == "set":
                return lt
            return ANY
        if isinstance(e, (ast.Compare, ast.BoolOp)) or (
                isinstance(e, ast.UnaryOp) and isinstance(e.op, ast.Not)):
            return BOOL
        if isinstance(e, ast.IfExp):
            t = self.type_of(e.body, f)
            return t if t != ANY and t != NONE else self.type_of(e.orelse, f)
        return ANY

    # ----------------------------------------------------------------- calls
    def by_method_name(self, name: str) -> List[FuncInfo]:
        """All public methods of repo classes with this name (may-call fallback)."""
        if name.startswith("__"):
            return []
        return [c.methods[name] for c in self.classes.values() if name in c.methods]

    def resolve_call(self, call: ast.Call, f: FuncInfo, with_subclasses: bool = False,
                     fallback: bool = False) -> List[FuncInfo]:
        """Possible repo callees of a call expression (empty if external).

        With ``fallback`` a receiver of unknown static type resolves to every
        repo method of that name (sound over-approximation for may-call
        questions); without it the result is exact or empty."""
        fn = call.func
        m = f.module
        if isinstance(fn, ast.Name):
            if f._locals is None:
                self.local_types(f)
            # nested function defined in f
            q = f.qualname + ".<locals>." + fn.id
            if q in self.functions:
                return [self.functions[q]]
            if f.outer is not None:
                q = f.outer.qualname + ".<locals>." + fn.id
                if q in self.functions:
                    return [self.functions[q]]
            ent = m.ns.get(fn.id)
            if ent and ent[0] == "func":
                return [ent[1]]  # type: ignore[list-item]
            if ent and ent[0] == "class":
                init = ent[1].lookup("__init__")  # type: ignore[union-attr]
                return [init] if init else []
            lt = (f._locals or {}).get(fn.id)
            if lt and lt[0] == "type" and ty_is_cls(lt[1]):
                c = self.classes.get(lt[1][1])
                if c is not None:
                    outs = []
                    for k in [c] + c.all_subclasses():
                        init = k.lookup("__init__")
                        if init and init not in outs:
                            outs.append(init)
                    return outs
            return []
        if isinstance(fn, ast.Attribute):
            # super().m()
            if isinstance(fn.value, ast.Call) and isinstance(fn.value.func, ast.Name) \
                    and fn.value.func.id == "super" and f.cls is not None:
                for k in f.cls.mro()[1:]:
                    if fn.attr in k.methods:
                        return [k.methods[fn.attr]]
                return []
            bt = self.type_of(fn.value, f)
            target: Optional[ClassInfo] = None
            static_ref = False
            if ty_is_cls(bt):
                target = self.classes.get(bt[1])
            elif bt and bt[0] == "type" and ty_is_cls(bt[1]):
                target = self.classes.get(bt[1][1])
                static_ref = True
            elif bt and bt[0] == "mod":
                mod = self.modules.get(bt[1])
                if mod is not None:
                    ent = mod.ns.get(fn.attr)
                    if ent and ent[0] == "func":
                        return [ent[1]]  # type: ignore[list-item]
                    if ent and ent[0] == "class":
                        init = ent[1].lookup("__init__")  # type: ignore[union-attr]
                        return [init] if init else []
                return []
            elif bt and bt[0] == "union":
                outs: List[FuncInfo] = []
                for t in bt[1]:
                    if ty_is_cls(t):
                        c = self.classes.get(t[1])
                        if c is not None:
                            g = c.lookup(fn.attr)
                            if g and g not in outs:
                                outs.append(g)
                return outs
            if target is None:
                if fallback and (not bt or bt[0] in ("any", "union")):
                    return self.by_method_name(fn.attr)
                return []
            name = fn.attr
            # private names are resolved against the *enclosing* class
            if name.startswith("__") and not name.endswith("__"):
                if f.cls is not None and name in f.cls.methods:
                    return [f.cls.methods[name]]
                return []
            g = target.lookup(name)
            outs = [g] if g else []
            if with_subclasses or (g is not None and g.is_abstract) or g is None:
                for k in target.all_subclasses():
                    if name in k.methods and k.methods[name] not in outs:
                        outs.append(k.methods[name])
            if static_ref and name in ("__init__",):
                return outs
            return outs
        return []

    def callers(self) -> Dict[str, List[Tuple[FuncInfo, ast.Call]]]:
        """qualname -> [(caller, call node)] over the whole package."""
        if self._callers is not None:
            return self._callers
        out: Dict[str, List[Tuple[FuncInfo, ast.Call]]] = {}
        for f in self.functions.values():
            for n in walk_no_nested(f.node):
                if isinstance(n, ast.Call):
                    for g in self.resolve_call(n, f, with_subclasses=True, fallback=True):
                        out.setdefault(g.qualname, []).append((f, n))
            for n, gs in self._method_values(f):
                for g in gs:
                    out.setdefault(g.qualname, []).append((f, n))
        self._callers = out
        return out

    def _method_values(self, f: FuncInfo) -> List[Tuple[ast.Call, List[FuncInfo]]]:
        """Bound methods of the own class used as values (``self.__build_x`` put into a table,
        a dict of translators, a list of section builders): wherever the value is called later,
        it may be called; a synthetic argument-less call at the reference site stands for it."""
        out: List[Tuple[ast.Call, List[FuncInfo]]] = []
        if f.cls is None:
            return out
        for n in walk_no_nested(f.node):
            if isinstance(n, ast.Attribute) and isinstance(n.ctx, ast.Load) and isinstance(n.value, ast.Name) \
                    and n.value.id in ("self", "cls", f.cls.name):
                p = getattr(n, "parent", None)
                if isinstance(p, ast.Call) and p.func is n:
                    continue
                g = f.cls.lookup(n.attr)
                if g is None or g is f:
                    continue
                call = ast.Call(func=n, args=[], keywords=[])
                ast.copy_location(call, n)
                call.parent = p            # type: ignore[attr-defined]
                call._mod = getattr(n, "_mod", None)   # type: ignore[attr-defined]
                call.synthetic = True      # type: ignore[attr-defined]
                out.append((call, [g]))
        return out

    def callees(self, f: FuncInfo) -> List[Tuple[ast.Call, List[FuncInfo]]]:
        out = []
        for n in walk_no_nested(f.node):
            if isinstance(n, ast.Call):
                gs = self.resolve_call(n, f, with_subclasses=True, fallback=True)
                if gs:
                    out.append((n, gs))
        out.extend(self._method_values(f))
        return out

    def reachable(self, roots: Iterable[FuncInfo]) -> Dict[str, FuncInfo]:
        seen: Dict[str, FuncInfo] = {}
        todo = list(roots)
        while todo:
            f = todo.pop()
            if f.qualname in seen:
                continue
            seen[f.qualname] = f
            for _, gs in self.callees(f):
                todo.extend(gs)
            # nested functions are part of their outer function
            for q, g in self.functions.items():
                if g.outer is f:
                    todo.append(g)
        return seen
