"""
Abstract semantics of constructing HiFiber objects, driven by the printer model.

``construct(cls, fields, site, func)`` returns the abstract value of
``Cls(...)`` and records the precedence / nesting obligations that the printer
shape of ``Cls`` imposes on its arguments (rules P0, P1, P2, B1 of C09) plus
the *name sites*: every string that becomes an identifier, callee name or
string literal in the emitted text (used by C06, C07, C12, C16).
"""

from __future__ import annotations

import ast
from typing import Any, Dict, List, Optional, Set, Tuple

from sa.db import DB, FuncInfo
from sa.printer import ASSOCIATIVE, COMPARISONS, PREC, PrinterModel
from sa.values import (AV, BOT, TOP, Bot, HArg, HAssn, HE, HOp, HPay, HStmt, Int, Lst, NoneV, Str,
                       Top, alts_of, he_atom, join, join_all)

# role of each name-bearing field: binder / reader / callee / method / string / keyword
NAME_ROLE = {
    ("EVar", "name"): "reader", ("AVar", "name"): "binder", ("PVar", "var"): "binder",
    ("EFunc", "name"): "callee", ("EMethod", "name"): "method", ("ELambda", "args"): "binder",
    ("EComp", "var"): "binder", ("EField", "obj"): "reader", ("AField", "obj"): "reader",
    ("EField", "field"): "field", ("AField", "field"): "field",
    ("SFunc", "name"): "binder", ("EString", "string"): "string", ("AParam", "name"): "keyword",
}


def operand_ok(kind: str, op: str, side: str) -> bool:
    """May an expression of top-level kind ``kind`` be printed bare at position
    (op, side)?  side: L / R of infix ``op``; RECV postfix receiver; ITER the
    iterable of a comprehension."""
    if kind == "LAMBDA":
        return False
    if kind in ("ATOM",):
        return True
    if kind == "NEG":
        return side != "RECV"
    if kind.startswith("BIN:"):
        o2 = kind[4:]
        if side == "RECV":
            return False
        if side == "ITER":
            return True
        if o2 not in PREC or op not in PREC:
            return False
        if op in COMPARISONS and o2 in COMPARISONS:
            return False
        if side == "L":
            return PREC[o2] >= PREC[op]
        return PREC[o2] > PREC[op] or (o2 == op and op in ASSOCIATIVE)
    return False


class HModel:
    def __init__(self, db: DB, pm: PrinterModel):
        self.db = db
        self.pm = pm
        # obligations: key -> dict(rule, node, func, what, ok, detail)
        self.obligs: Dict[Tuple, Dict[str, Any]] = {}
        # name sites: id(node) -> dict(cls, field, role, node, func, tmpls)
        self.names: Dict[Tuple[int, str], Dict[str, Any]] = {}
        self.fields_cache: Dict[str, List[str]] = {}

    # ------------------------------------------------------------------ util
    def fields_of(self, clsname: str) -> List[str]:
        """constructor parameter i initialises which field"""
        if clsname in self.fields_cache:
            return self.fields_cache[clsname]
        sh = self.pm.shapes[clsname]
        init = sh.cls.lookup("__init__")
        out: List[str] = []
        if init is not None and init.cls is not None and init.cls.module.name.startswith("teaal.hifiber"):
            p2f = {}
            for n in ast.walk(init.node):
                if isinstance(n, ast.Assign) and isinstance(n.targets[0], ast.Attribute) and \
                        isinstance(n.value, ast.Name):
                    p2f[n.value.id] = n.targets[0].attr
            for p in init.call_params:
                out.append(p2f.get(p, p))
        self.fields_cache[clsname] = out
        return out

    def oblige(self, rule: str, node: ast.AST, func: Optional[FuncInfo], what: str, ok: bool,
               detail: str = "", decided: bool = True) -> None:
        key = (rule, id(node), what)
        o = self.obligs.get(key)
        if o is None:
            self.obligs[key] = {"rule": rule, "node": node, "func": func, "what": what, "ok": ok,
                                "detail": detail if not ok else "", "decided": decided or ok}
        elif not ok:
            if o["ok"]:
                o["decided"] = decided
            else:
                o["decided"] = o.get("decided", True) or decided
            o["ok"] = False
            if detail and detail not in o["detail"]:
                o["detail"] = (o["detail"] + "; " + detail).strip("; ")

    def name_site(self, clsname: str, fld: str, node: ast.AST, func: Optional[FuncInfo], v: AV) -> None:
        role = NAME_ROLE.get((clsname, fld))
        if role is None:
            return
        vs: List[AV] = []
        if isinstance(v, Lst):
            vs = list(v.items) if v.items is not None else [v.elem]
        else:
            vs = [v]
        key = (id(node), fld)
        rec = self.names.setdefault(key, {"cls": clsname, "field": fld, "role": role, "node": node,
                                          "func": func, "tmpls": set()})
        for x in vs:
            for a in alts_of(x):
                if isinstance(a, Str):
                    rec["tmpls"] |= set(a.tmpls)
                elif isinstance(a, (Top, Bot)):
                    rec["tmpls"].add((("HOLE",),))
                else:
                    rec["tmpls"].add((("HOLE",),))

    # -------------------------------------------------------------- operands
    def _he_parts(self, v: AV) -> Tuple[Optional[HE], bool]:
        """(HE part of v, whether v may be something that is not an expression)"""
        he = None
        other = False
        for a in alts_of(v):
            if isinstance(a, HE):
                he = a if he is None else HE(he.kinds | a.kinds, he.leaf or a.leaf, he.ctx | a.ctx)
            else:
                other = True
        if isinstance(v, (Top, Bot)):
            other = True
        return he, other

    def check_operand(self, rule: str, v: AV, op: str, side: str, node: ast.AST, func, what: str) -> HE:
        he, other = self._he_parts(v)
        if isinstance(v, Bot):
            # no value reaches this operand (yet): nothing to check in this context
            return HE(frozenset(), False, frozenset())
        if he is None or other:
            self.oblige(rule, node, func, what, False,
                        "operand value is not known to be a HiFiber expression (%s)" % type(v).__name__)
            return he or he_atom()
        bad = sorted(k for k in he.kinds if not operand_ok(k, op, side))
        self.oblige(rule, node, func, what, not bad,
                    "operand may be %s, which printed bare %s changes the parse" %
                    (", ".join(_kind_text(k) for k in bad), _pos_text(op, side)) if bad else "")
        return he

    def nested_ctx(self, v: AV) -> frozenset:
        out = set()
        for a in alts_of(v):
            if isinstance(a, HE):
                out |= a.ctx
            elif isinstance(a, HArg):
                out |= self.nested_ctx(a.expr)
            elif isinstance(a, Lst):
                for x in (a.items if a.items is not None else [a.elem]):
                    out |= self.nested_ctx(x)
        return frozenset(out)

    # ------------------------------------------------------------- construct
    def construct(self, clsname: str, args: List[AV], kwargs: Dict[str, AV], node: ast.AST,
                  func: Optional[FuncInfo]) -> AV:
        sh = self.pm.shapes[clsname]
        names = self.fields_of(clsname)
        f: Dict[str, AV] = {}
        for i, a in enumerate(args):
            if i < len(names):
                f[names[i]] = a
        init = sh.cls.lookup("__init__")
        if init is not None:
            p2f = dict(zip(init.call_params, names))
            for k, a in kwargs.items():
                f[p2f.get(k, k)] = a
        for fld, v in f.items():
            self.name_site(clsname, fld, node, func, v)
        if sh.problems:
            self.oblige("P0", node, func, "printer shape of %s" % clsname, False,
                        "; ".join(sh.problems))
            return TOP
        fam = sh.family
        if fam == "op":
            return HOp(frozenset({sh.op_text}))
        if fam == "expr":
            return self._expr(clsname, sh, f, node, func)
        if fam == "arg":
            e = [v for k, v in f.items() if sh.roles.get(k) == "arg-expr"]
            return HArg(e[0] if e else TOP)
        if fam == "assn":
            for k, v in f.items():
                if sh.roles.get(k) == "recv":
                    self.check_operand("P2", v, ".", "RECV", node, func, "%s.%s receiver" % (clsname, k))
            return HAssn("var" if clsname == "AVar" else "access" if clsname == "AAccess" else "field")
        if fam == "payload":
            return HPay()
        if fam == "stmt":
            return self._stmt(clsname, sh, f, node, func)
        return TOP

    def _expr(self, clsname: str, sh, f: Dict[str, AV], node, func) -> AV:
        if sh.kind == "infix":
            l = r = op = None
            for k, role in sh.roles.items():
                if role == "left":
                    l = f.get(k, TOP)
                elif role == "right":
                    r = f.get(k, TOP)
                elif role == "op":
                    op = f.get(k, TOP)
            ops = set()
            for a in alts_of(op):
                if isinstance(a, HOp):
                    ops |= a.ops
                else:
                    ops.add("?")
            if "?" in ops or not ops:
                # the interpreter lost track of which operator object this is (e.g. it is looked up in
                # a table): nothing is known to be wrong, the obligation cannot be decided
                self.oblige("P1", node, func, "operator of %s" % clsname, False, "operator is unknown",
                            decided=False)
                ops.discard("?")
            kinds = set()
            ctx = set()
            for o in sorted(ops):
                hl = self.check_operand("P1", l, o, "L", node, func, "left operand of '%s'" % o)
                hr = self.check_operand("P1", r, o, "R", node, func, "right operand of '%s'" % o)
                kinds.add("BIN:" + o)
                ctx |= hl.ctx | hr.ctx
                if hl.leaf:
                    ctx.add((o, "L"))
                if hr.leaf:
                    ctx.add((o, "R"))
            return HE(frozenset(kinds), False, frozenset(ctx))
        if sh.kind == "postfix":
            ctx = set()
            for k, role in sh.roles.items():
                v = f.get(k)
                if v is None:
                    continue
                if role == "recv":
                    he = self.check_operand("P2", v, ".", "RECV", node, func, "%s receiver" % clsname)
                    ctx |= he.ctx
                    if he.leaf:
                        ctx.add((".", "RECV"))
                else:
                    ctx |= self.nested_ctx(v)
            return HE(frozenset({"ATOM"}), False, frozenset(ctx))
        if sh.kind == "atom":
            ctx = set()
            for k, v in f.items():
                if sh.roles.get(k) == "iter":
                    he = self.check_operand("P1", v, "in", "ITER", node, func, "%s iterable" % clsname)
                    ctx |= he.ctx
                else:
                    ctx |= self.nested_ctx(v)
            return HE(frozenset({"ATOM"}), False, frozenset(ctx))
        if sh.kind == "leaf":
            if clsname == "EVar":
                return HE(frozenset({"ATOM"}), True, frozenset())
            # numeric leaves may print a leading minus
            vals = list(f.values())
            numeric = False
            init = sh.cls.lookup("__init__")
            if init is not None:
                for p in init.call_params:
                    t = self.db.param_types(init).get(p, ("any",))
                    if t[0] in ("int", "float"):
                        numeric = True
            if numeric or sh.neg_possible:
                nonneg = all(isinstance(a, Int) and a.val is not None and a.val >= 0
                             for v in vals for a in alts_of(v)) and bool(vals)
                if nonneg and not sh.neg_possible:
                    return HE(frozenset({"ATOM"}), False, frozenset())
                return HE(frozenset({"ATOM", "NEG"}), False, frozenset())
            return HE(frozenset({"ATOM"}), False, frozenset())
        if sh.kind == "lambda":
            body = [f.get(k) for k, role in sh.roles.items() if role == "body"]
            return HE(frozenset({"LAMBDA"}), False, self.nested_ctx(body[0]) if body and body[0] else frozenset())
        if sh.kind == "transparent":
            vs = [v for k, v in f.items() if sh.roles.get(k) == "transparent"]
            return vs[0] if vs else TOP
        self.oblige("P0", node, func, "printer shape of %s" % clsname, False, "unknown shape")
        return TOP

    # ------------------------------------------------------------ statements
    @staticmethod
    def stmt_state(v: AV) -> str:
        """E / N / M / ? (not a statement)"""
        states = set()
        for a in alts_of(v):
            if isinstance(a, HStmt):
                states.add(a.state)
            else:
                states.add("?")
        if isinstance(v, (Top, Bot)) or not states:
            return "?"
        if states == {"N"}:
            return "N"
        if states == {"E"}:
            return "E"
        if "?" in states:
            return "?"
        return "M"

    def _no_lambda(self, v: AV, node, func, what: str) -> None:
        he, other = self._he_parts(v)
        if he is None or other:
            self.oblige("P1", node, func, what, False, "value is not known to be a HiFiber expression")
            return
        self.oblige("P1", node, func, what, "LAMBDA" not in he.kinds,
                    "a bare lambda here changes the parse of the statement header")

    def _body(self, v: AV, node, func, what: str) -> None:
        st = self.stmt_state(v)
        self.oblige("B1", node, func, what, st == "N",
                    "block body may print nothing (state %s): the emitted block would be empty" % st)

    def _stmt(self, clsname: str, sh, f: Dict[str, AV], node, func) -> AV:
        if clsname == "SBlock":
            v = f.get("stmts", TOP)
            state = "M"
            for a in alts_of(v):
                if isinstance(a, Lst):
                    if a.items is not None:
                        ss = [self.stmt_state(x) for x in a.items]
                        state = "E" if all(s == "E" for s in ss) else ("N" if "N" in ss else "M")
                    else:
                        es = self.stmt_state(a.elem) if not isinstance(a.elem, Bot) else "E"
                        state = "N" if (es == "N" and not a.may_empty) else ("E" if es == "E" else "M")
            return HStmt(state)
        if sh.block_fields:
            if clsname == "SIf":
                for k in ("if_",):
                    self._pair(f.get(k, TOP), node, func, "if")
                el = f.get("elifs", TOP)
                for a in alts_of(el):
                    if isinstance(a, Lst):
                        for x in (a.items if a.items is not None else
                                  ([] if isinstance(a.elem, Bot) else [a.elem])):
                            self._pair(x, node, func, "elif")
                    else:
                        self.oblige("B1", node, func, "elif arms of SIf", False, "arms unknown")
                e = f.get("else_", NoneV())
                for a in alts_of(e):
                    if isinstance(a, NoneV):
                        continue
                    self._body(a, node, func, "else body of SIf")
            else:
                for k in sh.block_fields:
                    self._body(f.get(k, TOP), node, func, "%s body (%s)" % (clsname, k))
                for k, role in sh.roles.items():
                    if role == "expr-top" and k in f and clsname == "SFor" and k == "expr":
                        self._no_lambda(f[k], node, func, "iterable of SFor")
            return HStmt("N")
        # simple statements always print a line
        return HStmt("N")

    def _pair(self, v: AV, node, func, which: str) -> None:
        ok = False
        for a in alts_of(v):
            if isinstance(a, Lst) and a.items is not None and len(a.items) == 2:
                ok = True
                self._no_lambda(a.items[0], node, func, "%s condition of SIf" % which)
                self._body(a.items[1], node, func, "%s body of SIf" % which)
        if not ok:
            self.oblige("B1", node, func, "%s arm of SIf" % which, False, "arm is not a (cond, stmt) pair")


def _kind_text(k: str) -> str:
    if k.startswith("BIN:"):
        return "a '%s' operation" % k[4:]
    return {"LAMBDA": "a lambda", "NEG": "a negative number", "ATOM": "an atom"}.get(k, k)


def _pos_text(op: str, side: str) -> str:
    if side == "RECV":
        return "as the receiver of a call/subscript"
    if side == "ITER":
        return "as the iterable of a comprehension"
    return "%s of '%s'" % ("left" if side == "L" else "right", op)


def stmt_add(block: AV, stmt: AV) -> AV:
    """Result state of block.add(stmt)."""
    b = HModel.stmt_state(block)
    s = HModel.stmt_state(stmt)
    if b == "N" or s == "N":
        return HStmt("N")
    if b == "E" and s == "E":
        return HStmt("E")
    return HStmt("M")
