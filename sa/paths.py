"""
Syntax-directed path and guard analysis (Python has no goto: If/For/While/
Return/Raise/Break/Continue are enough; the repo has no try/with).

* ``guards(node)``      control-dependence of a node inside its function:
                        list of (test, polarity), including the negated tests
                        of earlier sibling ``if``s whose body always exits.
* ``path_counts(...)``  for every path through a statement list, how many
                        statements matching a predicate it executes (0, 1,
                        2=many) and how it leaves the list.
* ``must_precede(...)`` every execution of Q is preceded by P on the path.
* ``inline_locals``     replace single-assignment locals by their definition so
                        two functions that name a temporary differently yield
                        the same text.
"""

from __future__ import annotations

import ast
import copy
from typing import Callable, Dict, FrozenSet, Iterable, List, Optional, Set, Tuple

from sa.db import norm, walk_no_nested

FALL, RET, RAISE, BRK, CONT = "fall", "return", "raise", "break", "continue"


def always_exits(stmts: List[ast.stmt]) -> bool:
    """True if no path falls off the end of this statement list."""
    for s in stmts:
        if isinstance(s, (ast.Return, ast.Raise, ast.Break, ast.Continue)):
            return True
        if isinstance(s, ast.If):
            if s.orelse and always_exits(s.body) and always_exits(s.orelse):
                return True
    return False


def block_of(node: ast.stmt) -> Tuple[Optional[ast.AST], Optional[str], List[ast.stmt]]:
    """(parent, field name, statement list) that directly contains node."""
    p = getattr(node, "parent", None)
    if p is None:
        return None, None, []
    for fld in ("body", "orelse", "finalbody"):
        lst = getattr(p, fld, None)
        if isinstance(lst, list) and any(x is node for x in lst):
            return p, fld, lst
    return p, None, []


def guards(node: ast.AST, stop: Optional[ast.AST] = None) -> List[Tuple[ast.AST, bool]]:
    """Tests the execution of ``node`` is control-dependent on, innermost last.

    (test, True)  node runs only when test is true; (test, False) only when
    false.  Loop membership is not a guard.  ``stop`` is the function node.
    """
    out: List[Tuple[ast.AST, bool]] = []
    # climb to the enclosing statement
    n = node
    while n is not None and not isinstance(n, ast.stmt):
        p = getattr(n, "parent", None)
        # conditional expression / boolean short-circuit inside an expression
        if isinstance(p, ast.IfExp):
            if n is p.body:
                out.append((p.test, True))
            elif n is p.orelse:
                out.append((p.test, False))
        n = p
    while n is not None and n is not stop and not isinstance(n, (ast.FunctionDef, ast.AsyncFunctionDef,
                                                                 ast.ClassDef, ast.Module)):
        p, fld, lst = block_of(n)  # type: ignore[arg-type]
        # earlier siblings that always exit guard everything after them
        for s in lst:
            if s is n:
                break
            if isinstance(s, ast.If):
                if always_exits(s.body) and not s.orelse:
                    out.append((s.test, False))
                elif s.orelse and always_exits(s.orelse) and not always_exits(s.body):
                    out.append((s.test, True))
        if isinstance(p, ast.If):
            out.append((p.test, fld == "body"))
        elif isinstance(p, ast.While) and fld == "body":
            out.append((p.test, True))
        n = p
    out.reverse()
    return out


def conjuncts(test: ast.AST, polarity: bool = True) -> List[Tuple[ast.AST, bool]]:
    """Atoms that must hold (with polarity) when ``test`` evaluates to ``polarity``."""
    if isinstance(test, ast.UnaryOp) and isinstance(test.op, ast.Not):
        return conjuncts(test.operand, not polarity)
    if isinstance(test, ast.BoolOp):
        if isinstance(test.op, ast.And) and polarity:
            out = []
            for v in test.values:
                out.extend(conjuncts(v, True))
            return out
        if isinstance(test.op, ast.Or) and not polarity:
            out = []
            for v in test.values:
                out.extend(conjuncts(v, False))
            return out
        return [(test, polarity)]
    return [(test, polarity)]


def atom_text(atom: ast.AST, polarity: bool) -> str:
    """Canonical text of a guard atom: ``x is not None`` == not ``x is None``."""
    if isinstance(atom, ast.Compare) and len(atom.ops) == 1:
        op = atom.ops[0]
        flip = {ast.IsNot: ast.Is, ast.NotEq: ast.Eq, ast.NotIn: ast.In}
        for neg, pos in flip.items():
            if isinstance(op, neg):
                a2 = clone(atom)
                a2.ops = [pos()]
                return ("" if not polarity else "not ") + norm(a2)
    return ("" if polarity else "not ") + norm(atom)


# --------------------------------------------------------------------------
# Path counting
# --------------------------------------------------------------------------
Outcome = Tuple[int, str]


def _cap(n: int) -> int:
    return 2 if n >= 2 else n


def path_counts(stmts: List[ast.stmt], pred: Callable[[ast.stmt], int]) -> Set[Outcome]:
    """All (count, exit-kind) outcomes of the paths through ``stmts``.

    ``pred(stmt)`` gives the number of matches contributed by executing a
    *simple* statement (or the header expressions of a compound one).
    """
    states: Set[Outcome] = {(0, FALL)}
    for s in stmts:
        nxt: Set[Outcome] = set()
        for cnt, kind in states:
            if kind != FALL:
                nxt.add((cnt, kind))
                continue
            for c2, k2 in _stmt_counts(s, pred):
                nxt.add((_cap(cnt + c2), k2))
        states = nxt
    return states


def _stmt_counts(s: ast.stmt, pred) -> Set[Outcome]:
    if isinstance(s, ast.Return):
        return {(_cap(pred(s)), RET)}
    if isinstance(s, ast.Raise):
        return {(_cap(pred(s)), RAISE)}
    if isinstance(s, ast.Break):
        return {(0, BRK)}
    if isinstance(s, ast.Continue):
        return {(0, CONT)}
    if isinstance(s, ast.If):
        h = pred(_Header(s.test, s))
        out = set()
        for c, k in path_counts(s.body, pred) | path_counts(s.orelse, pred):
            out.add((_cap(h + c), k))
        return out
    if isinstance(s, (ast.For, ast.While)):
        hd = s.iter if isinstance(s, ast.For) else s.test
        h = pred(_Header(hd, s))
        body = path_counts(s.body, pred)
        out: Set[Outcome] = set()
        # zero iterations
        for c, k in path_counts(s.orelse, pred):
            out.add((_cap(h + c), k))
        any_match = any(c > 0 for c, _ in body)
        for c, k in body:
            if k in (RET, RAISE):
                out.add((_cap(h + c), k))
                if any_match:
                    out.add((2, k))
            else:
                # fall/continue: loop again or finish; break: finish
                tail = path_counts(s.orelse, pred) if k != BRK else {(0, FALL)}
                for c2, k2 in tail:
                    out.add((_cap(h + c + c2), k2))
                    if c > 0:
                        out.add((2, k2))
        return out
    if isinstance(s, (ast.FunctionDef, ast.AsyncFunctionDef, ast.ClassDef)):
        return {(0, FALL)}
    if isinstance(s, ast.With):
        return path_counts(s.body, pred)
    if isinstance(s, ast.Try):
        # conservative: body, handlers, orelse, finalbody all may run
        out = set()
        for blk in [s.body + s.orelse] + [h.body for h in s.handlers]:
            out |= path_counts(blk + s.finalbody, pred)
        return out
    return {(_cap(pred(s)), FALL)}


class _Header(ast.stmt):
    """Pseudo statement wrapping the test / iterable of a compound statement."""

    def __init__(self, expr: ast.AST, owner: ast.stmt):
        self.expr = expr
        self.owner = owner
        self.lineno = getattr(owner, "lineno", 0)


def count_in(stmt: ast.AST, match: Callable[[ast.AST], bool]) -> int:
    """Number of sub-nodes of a simple statement (or header) that match."""
    root = stmt.expr if isinstance(stmt, _Header) else stmt
    n = 1 if match(root) else 0
    for x in walk_no_nested(root):
        if match(x):
            n += 1
    return n


def make_pred(match: Callable[[ast.AST], bool]) -> Callable[[ast.stmt], int]:
    return lambda s: count_in(s, match)


# --------------------------------------------------------------------------
# Ordering: every Q is preceded by a P on its path
# --------------------------------------------------------------------------
def must_precede(stmts: List[ast.stmt], is_p: Callable[[ast.AST], bool],
                 is_q: Callable[[ast.AST], bool]) -> List[ast.AST]:
    """Q nodes that can execute on a path with no earlier P (evaluation order
    inside one statement follows ast field order, which is Python's order for
    calls and operators)."""
    bad: List[ast.AST] = []

    def expr_scan(root: ast.AST, seen: bool) -> bool:
        # post-order approximates evaluation order: operands before the call
        for n in _eval_order(root):
            if is_q(n) and not seen:
                bad.append(n)
            if is_p(n):
                seen = True
        return seen

    def block(sts: List[ast.stmt], seen: bool) -> Tuple[bool, bool]:
        """returns (seen at fallthrough, falls through)"""
        for s in sts:
            if isinstance(s, ast.If):
                seen = expr_scan(s.test, seen)
                s1, f1 = block(s.body, seen)
                s2, f2 = block(s.orelse, seen)
                if f1 and f2:
                    seen = s1 and s2
                elif f1:
                    seen = s1
                elif f2:
                    seen = s2
                else:
                    return seen, False
            elif isinstance(s, (ast.For, ast.While)):
                seen = expr_scan(s.iter if isinstance(s, ast.For) else s.test, seen)
                block(s.body, seen)      # first iteration: state at entry
                block(s.orelse, seen)
                # after the loop the body may not have run
            elif isinstance(s, (ast.Return, ast.Raise)):
                if getattr(s, "value", None) is not None:
                    expr_scan(s.value, seen)  # type: ignore[arg-type]
                if isinstance(s, ast.Raise) and s.exc is not None:
                    expr_scan(s.exc, seen)
                return seen, False
            elif isinstance(s, (ast.Break, ast.Continue)):
                return seen, False
            elif isinstance(s, (ast.FunctionDef, ast.ClassDef)):
                continue
            else:
                seen = expr_scan(s, seen)
        return seen, True

    block(stmts, False)
    return bad


def _eval_order(root: ast.AST) -> Iterable[ast.AST]:
    """Sub-expressions in (approximate) evaluation order, root last."""
    if isinstance(root, (ast.FunctionDef, ast.Lambda, ast.ClassDef)):
        return
    if isinstance(root, ast.Assign):
        yield from _eval_order(root.value)
        for t in root.targets:
            yield from _eval_order(t)
        yield root
        return
    if isinstance(root, ast.AugAssign):
        yield from _eval_order(root.target)
        yield from _eval_order(root.value)
        yield root
        return
    for c in ast.iter_child_nodes(root):
        yield from _eval_order(c)
    yield root


# --------------------------------------------------------------------------
# Local inlining
# --------------------------------------------------------------------------
def clone(node):
    """Deep copy of an AST subtree that does not follow the parent / module
    back-links the program database attaches to every node."""
    if isinstance(node, list):
        return [clone(x) for x in node]
    if not isinstance(node, ast.AST):
        return node
    new = type(node)()
    for fld in node._fields:
        if hasattr(node, fld):
            setattr(new, fld, clone(getattr(node, fld)))
    for a in ("lineno", "col_offset", "end_lineno", "end_col_offset"):
        if hasattr(node, a):
            setattr(new, a, getattr(node, a))
    return new


def single_assignments(fnode: ast.AST) -> Dict[str, ast.AST]:
    """name -> value for locals assigned exactly once by a plain ``x = e``
    (not in a loop target, not augmented, not a parameter)."""
    cached = getattr(fnode, "_sa_defs", None)
    if cached is not None:
        return cached
    counts: Dict[str, int] = {}
    vals: Dict[str, ast.AST] = {}
    params = set()
    if isinstance(fnode, (ast.FunctionDef, ast.AsyncFunctionDef)):
        a = fnode.args
        params = {x.arg for x in a.posonlyargs + a.args + a.kwonlyargs}

    def bump(t: ast.AST, val: Optional[ast.AST]) -> None:
        if isinstance(t, ast.Name):
            counts[t.id] = counts.get(t.id, 0) + 1
            if val is not None:
                vals[t.id] = val
            else:
                counts[t.id] += 1
        elif isinstance(t, (ast.Tuple, ast.List)):
            for e in t.elts:
                bump(e, None)
        elif isinstance(t, ast.Starred):
            bump(t.value, None)

    for n in walk_no_nested(fnode):
        if isinstance(n, ast.Assign):
            for t in n.targets:
                bump(t, n.value if len(n.targets) == 1 else None)
        elif isinstance(n, ast.AnnAssign):
            if n.value is not None:
                bump(n.target, n.value)
        elif isinstance(n, ast.AugAssign):
            bump(n.target, None)
        elif isinstance(n, (ast.For, ast.comprehension)):
            bump(n.target, None)
        elif isinstance(n, ast.NamedExpr):
            bump(n.target, None)
    res = {k: v for k, v in vals.items() if counts.get(k) == 1 and k not in params}
    try:
        fnode._sa_defs = res  # type: ignore[attr-defined]
    except Exception:  # pragma: no cover
        pass
    return res


class _Inliner(ast.NodeTransformer):
    def __init__(self, defs: Dict[str, ast.AST], depth: int = 6):
        self.defs = defs
        self.depth = depth

    def visit_Name(self, node: ast.Name):
        if isinstance(node.ctx, ast.Load) and node.id in self.defs and self.depth > 0:
            sub = _Inliner(self.defs, self.depth - 1)
            return sub.visit(clone(self.defs[node.id]))
        return node


def inline_locals(expr: ast.AST, fnode: ast.AST, defs: Optional[Dict[str, ast.AST]] = None) -> ast.AST:
    defs = single_assignments(fnode) if defs is None else defs
    return _Inliner(defs).visit(clone(expr))


def inlined_text(expr: ast.AST, fnode: ast.AST, defs=None) -> str:
    return norm(inline_locals(expr, fnode, defs))


# --------------------------------------------------------------------------
# Intra-procedural backward slice (flow-insensitive def-use closure)
# --------------------------------------------------------------------------
MUTATORS = {"append", "extend", "insert", "add", "update", "remove", "discard", "pop",
            "clear", "sort", "reverse", "setdefault", "popitem", "intersection_update",
            "difference_update", "symmetric_difference_update", "appendleft"}


def defs_of(fnode: ast.AST, name: str) -> List[Tuple[ast.AST, Optional[ast.AST]]]:
    """(statement-or-comprehension, value expression feeding ``name``)."""
    out: List[Tuple[ast.AST, Optional[ast.AST]]] = []

    def targets_has(t: ast.AST) -> bool:
        if isinstance(t, ast.Name):
            return t.id == name
        if isinstance(t, (ast.Tuple, ast.List)):
            return any(targets_has(e) for e in t.elts)
        if isinstance(t, ast.Starred):
            return targets_has(t.value)
        if isinstance(t, ast.Subscript):
            return targets_has(t.value)
        return False

    for n in walk_no_nested(fnode):
        if isinstance(n, ast.Assign) and any(targets_has(t) for t in n.targets):
            out.append((n, n.value))
        elif isinstance(n, ast.AnnAssign) and n.value is not None and targets_has(n.target):
            out.append((n, n.value))
        elif isinstance(n, ast.AugAssign) and targets_has(n.target):
            out.append((n, n.value))
        elif isinstance(n, (ast.For, ast.comprehension)) and targets_has(n.target):
            out.append((n, n.iter))
        elif isinstance(n, ast.Call) and isinstance(n.func, ast.Attribute) and \
                n.func.attr in MUTATORS and isinstance(n.func.value, ast.Name) and \
                n.func.value.id == name:
            for a in list(n.args) + [k.value for k in n.keywords]:
                out.append((n, a))
    return out


def backward_slice(fnode: ast.AST, seeds: Iterable[str], with_control: bool = True) -> Tuple[Set[str], List[ast.AST]]:
    """Names and value expressions that may flow into the seed locals
    (data dependence; with_control also adds the tests guarding the defs)."""
    names: Set[str] = set()
    exprs: List[ast.AST] = []
    todo = list(seeds)
    while todo:
        nm = todo.pop()
        if nm in names:
            continue
        names.add(nm)
        for st, val in defs_of(fnode, nm):
            srcs: List[ast.AST] = []
            if val is not None:
                srcs.append(val)
            if with_control:
                for test, _ in guards(st, stop=fnode):
                    srcs.append(test)
                # a definition inside a loop depends on the loop's iterable
                p = getattr(st, "parent", None)
                while p is not None and p is not fnode:
                    if isinstance(p, ast.For):
                        srcs.append(p.iter)
                    p = getattr(p, "parent", None)
            for v in srcs:
                if not any(v is e for e in exprs):
                    exprs.append(v)
                for x in ast.walk(v):
                    if isinstance(x, ast.Name) and isinstance(x.ctx, ast.Load):
                        todo.append(x.id)
    return names, exprs


def called_names(exprs: Iterable[ast.AST]) -> Set[str]:
    out: Set[str] = set()
    for e in exprs:
        for x in ast.walk(e):
            if isinstance(x, ast.Call):
                if isinstance(x.func, ast.Attribute):
                    out.add(x.func.attr)
                elif isinstance(x.func, ast.Name):
                    out.add(x.func.id)
    return out


def self_attrs(e: ast.AST) -> Set[str]:
    return {x.attr for x in ast.walk(e)
            if isinstance(x, ast.Attribute) and isinstance(x.value, ast.Name) and x.value.id == "self"}


def load_names(e: ast.AST) -> Set[str]:
    return {x.id for x in ast.walk(e) if isinstance(x, ast.Name) and isinstance(x.ctx, ast.Load)}


# --------------------------------------------------------------------------
# Flow-sensitive reaching definition for straight-line code
# --------------------------------------------------------------------------
def reaching_def(name: str, at: ast.AST, fnode: ast.AST) -> Optional[ast.AST]:
    """Value expression of the unique definition of ``name`` that reaches
    ``at``: the latest plain assignment that precedes it in its own block or
    in an enclosing block.  Returns None when the definition is conditional,
    comes from a loop target / augmented assignment, or does not exist."""
    stmt = at
    while not isinstance(stmt, ast.stmt):
        stmt = stmt.parent
    while stmt is not None and stmt is not fnode:
        p, fld, lst = block_of(stmt)
        idx = next((i for i, s in enumerate(lst) if s is stmt), 0)
        for s in reversed(lst[:idx]):
            if isinstance(s, ast.Assign) and len(s.targets) == 1 and \
                    isinstance(s.targets[0], ast.Name) and s.targets[0].id == name:
                return s.value
            if isinstance(s, ast.AnnAssign) and isinstance(s.target, ast.Name) and \
                    s.target.id == name and s.value is not None:
                return s.value
            # any other (conditional / nested / augmented) definition hides the answer
            for x in ast.walk(s):
                if isinstance(x, ast.Name) and isinstance(x.ctx, ast.Store) and x.id == name:
                    return None
        if isinstance(p, (ast.For, ast.comprehension)):
            if any(isinstance(x, ast.Name) and x.id == name for x in ast.walk(p.target)):
                return None
        if isinstance(p, (ast.For, ast.While)) and fld == "body":
            # back edge: a definition later in the loop body reaches the next iteration
            if any(isinstance(x, ast.Name) and isinstance(x.ctx, ast.Store) and x.id == name
                   for s_ in p.body for x in ast.walk(s_)):
                return None
        stmt = p if isinstance(p, ast.stmt) else None
    return None


def parents(n: ast.AST, stop: Optional[ast.AST] = None):
    """Ancestors of ``n`` (nearest first) up to, not including, ``stop``."""
    p = getattr(n, "parent", None)
    while p is not None and p is not stop:
        yield p
        p = getattr(p, "parent", None)


def _must_assign(stmts: List[ast.stmt], name: str) -> bool:
    """Does every normally completing path through ``stmts`` assign ``name``?"""
    for s in stmts:
        if isinstance(s, (ast.Assign, ast.AnnAssign)):
            ts = s.targets if isinstance(s, ast.Assign) else [s.target]
            if getattr(s, "value", None) is not None and \
                    any(isinstance(x, ast.Name) and x.id == name for t in ts for x in ast.walk(t)):
                return True
        elif isinstance(s, ast.If):
            if s.orelse and _must_assign(s.body, name) and _must_assign(s.orelse, name):
                return True
        elif isinstance(s, (ast.With, ast.Try)):
            if _must_assign(s.body, name):
                return True
        if always_exits([s]):
            return True     # no path completes normally beyond this point
    return False


def _defs_in(stmts, name: str) -> List[Tuple[ast.stmt, Optional[ast.AST]]]:
    out: List[Tuple[ast.stmt, Optional[ast.AST]]] = []
    for s in stmts:
        for x in ast.walk(s):
            if isinstance(x, (ast.FunctionDef, ast.Lambda)):
                continue
            if isinstance(x, ast.Assign):
                for t in x.targets:
                    if isinstance(t, ast.Name) and t.id == name:
                        out.append((x, x.value))
                    elif any(isinstance(y, ast.Name) and y.id == name and isinstance(y.ctx, ast.Store)
                             for y in ast.walk(t)):
                        out.append((x, None))
            elif isinstance(x, ast.AnnAssign) and isinstance(x.target, ast.Name) and x.target.id == name \
                    and x.value is not None:
                out.append((x, x.value))
            elif isinstance(x, ast.AugAssign) and isinstance(x.target, ast.Name) and x.target.id == name:
                out.append((x, None))
            elif isinstance(x, (ast.For, ast.comprehension)) and \
                    any(isinstance(y, ast.Name) and y.id == name for y in ast.walk(x.target)):
                out.append((x, None))   # type: ignore[arg-type]
            elif isinstance(x, ast.NamedExpr) and x.target.id == name:
                out.append((x, x.value))  # type: ignore[arg-type]
    return out


def reaching_defs(name: str, at: ast.AST, fnode: ast.AST) -> List[Tuple[ast.AST, Optional[ast.AST]]]:
    """May-reach definitions of local ``name`` at ``at``: (statement, value or
    None when the definition is not a plain assignment).  A parameter that
    may still hold its incoming value is reported as (fnode.args, None)."""
    out: List[Tuple[ast.AST, Optional[ast.AST]]] = []
    stmt = at
    while not isinstance(stmt, ast.stmt):
        stmt = stmt.parent
    killed = False
    while stmt is not None and stmt is not fnode and not killed:
        p, fld, lst = block_of(stmt)
        idx = next((i for i, s in enumerate(lst) if s is stmt), 0)
        for s in reversed(lst[:idx]):
            out.extend(_defs_in([s], name))
            if _must_assign([s], name):
                killed = True
                break
        if killed:
            break
        if isinstance(p, (ast.For, ast.While)) and fld == "body":
            # back edge: anything assigned in the body may reach the next iteration
            for d in _defs_in(p.body, name):
                if not any(d[0] is o[0] for o in out):
                    out.append(d)
            if isinstance(p, ast.For) and any(isinstance(x, ast.Name) and x.id == name
                                               for x in ast.walk(p.target)):
                out.append((p, None))
                killed = True
                break
        stmt = p if isinstance(p, ast.stmt) else None
    if not killed:
        a = fnode.args
        params = [x.arg for x in a.posonlyargs + a.args + a.kwonlyargs]
        if name in params:
            out.append((a, None))
    return out


def link_parents(tree: ast.AST) -> ast.AST:
    """Attach .parent links to a free-standing tree (fixtures)."""
    tree.parent = None  # type: ignore[attr-defined]
    for node in ast.walk(tree):
        for child in ast.iter_child_nodes(node):
            child.parent = node  # type: ignore[attr-defined]
    return tree


def coarse_dedup_skips(fnode: ast.AST) -> List[Tuple[ast.AST, ast.For, str]]:
    """``if K in S: continue`` (or the work nested under ``K not in S``) inside a
    ``for`` loop, where S is a local collection the same loop fills with K and
    K does not depend on that loop's element: after the first element every
    other one is skipped whatever it is.  Returns (test, loop, text of K)."""
    out: List[Tuple[ast.AST, ast.For, str]] = []
    for lp in [n for n in _walk_same_function(fnode) if isinstance(n, ast.For)]:
        tvars = {x.id for x in ast.walk(lp.target) if isinstance(x, ast.Name)}
        # locals computed inside the loop body from its element
        body_defs: Dict[str, List[ast.AST]] = {}
        for s_ in lp.body:
            for x in ast.walk(s_):
                if isinstance(x, ast.Assign) and len(x.targets) == 1 and isinstance(x.targets[0], ast.Name):
                    body_defs.setdefault(x.targets[0].id, []).append(x.value)
                elif isinstance(x, (ast.For, ast.comprehension)):
                    for y in ast.walk(x.target):
                        if isinstance(y, ast.Name):
                            body_defs.setdefault(y.id, []).append(x.iter)

        def depends(e: ast.AST, seen: Set[str]) -> bool:
            for nm in load_names(e):
                if nm in tvars:
                    return True
                if nm in body_defs and nm not in seen:
                    seen.add(nm)
                    if any(depends(v, seen) for v in body_defs[nm]):
                        return True
            return False
        inner_loops = [n for s_ in lp.body for n in ast.walk(s_) if isinstance(n, ast.For)]
        for s_ in lp.body:
            for t in ast.walk(s_):
                if not (isinstance(t, ast.Compare) and len(t.ops) == 1 and
                        isinstance(t.ops[0], (ast.In, ast.NotIn)) and isinstance(t.comparators[0], ast.Name)):
                    continue
                if any(any(y is t for y in ast.walk(il)) for il in inner_loops):
                    continue        # belongs to an inner loop: judged there
                sname = t.comparators[0].id
                key = ast.unparse(t.left)
                fills = [c for b_ in lp.body for c in ast.walk(b_) if isinstance(c, ast.Call) and
                         isinstance(c.func, ast.Attribute) and c.func.attr in ("add", "append") and
                         isinstance(c.func.value, ast.Name) and c.func.value.id == sname and c.args and
                         ast.unparse(c.args[0]) == key]
                if not fills:
                    continue
                # the test decides a skip: it is the test of an if statement in the loop
                par = getattr(t, "parent", None)
                while par is not None and not isinstance(par, ast.stmt):
                    par = getattr(par, "parent", None)
                if not isinstance(par, ast.If):
                    continue
                if not depends(t.left, set()):
                    out.append((t, lp, key))
    return out


def coarse_memos(fnode: ast.AST) -> List[Tuple[ast.Assign, str, List[str]]]:
    """Memoisation sites ``if K not in D: D[K] = V`` (also ``if K in D: return D[K]`` first) whose
    key K is *derived* from a parameter through a call while the cached value V is computed from
    that parameter itself: two different arguments that the derivation maps to one key share a
    cache entry.  Returns (the store, text of K, parameters V uses that K does not carry)."""
    a = fnode.args
    params = [x.arg for x in a.posonlyargs + a.args + a.kwonlyargs if x.arg not in ("self", "cls")]
    out: List[Tuple[ast.Assign, str, List[str]]] = []
    for st in [n for n in _walk_same_function(fnode) if isinstance(n, ast.Assign) and len(n.targets) == 1 and
               isinstance(n.targets[0], ast.Subscript)]:
        tgt = st.targets[0]
        cont = ast.unparse(tgt.value)
        key = tgt.slice
        ktxt = ast.unparse(key)
        # guarded by "K not in D"
        memo = False
        for t, pol in guards(st, stop=fnode):
            for at_, p_ in conjuncts(t, pol):
                if isinstance(at_, ast.Compare) and len(at_.ops) == 1 and \
                        isinstance(at_.ops[0], (ast.In, ast.NotIn)) and \
                        ast.unparse(at_.comparators[0]) in (cont, cont + ".keys()") and \
                        ast.unparse(at_.left) == ktxt and (isinstance(at_.ops[0], ast.NotIn) == p_):
                    memo = True
        if not memo:
            continue
        # names the key carries *as they are* (not wrapped in a call), after local resolution
        kres = resolve_flow(key, st, fnode, depth=4)
        wrapped: Set[int] = set()
        for c in ast.walk(kres):
            if isinstance(c, ast.Call):
                for x in ast.walk(c):
                    if x is not c:
                        wrapped.add(id(x))
        plain = {x.id for x in ast.walk(kres) if isinstance(x, ast.Name) and id(x) not in wrapped}
        direct = load_names(st.value) - plain          # what V uses besides the key itself
        vnames, _ = backward_slice(fnode, sorted(direct), with_control=False)
        vdeps = (vnames | direct) & set(params)
        missing = sorted(vdeps - plain)
        if missing:
            out.append((st, ktxt, missing))
    return out


def lost_updates(fnode: ast.AST) -> List[Tuple[ast.Assign, ast.For, str]]:
    """``X = <computed from the loop element>`` inside a ``for`` loop where X is
    not an operand of its own new value, is not read anywhere in the loop, the
    loop has no break/return, and X is read after the loop: every iteration
    overwrites the previous one, so only the last element's result survives
    (an accumulation that forgot its accumulator).  Plain selections
    (``X = elem``, ``X = True``) are not reported."""
    out: List[Tuple[ast.Assign, ast.For, str]] = []
    for lp in [n for n in _walk_same_function(fnode) if isinstance(n, ast.For)]:
        if any(isinstance(x, (ast.Break, ast.Return)) for x in ast.walk(lp)):
            continue
        tvars = {x.id for x in ast.walk(lp.target) if isinstance(x, ast.Name)}
        body_defs: Dict[str, List[ast.AST]] = {}
        for x in ast.walk(lp):
            if isinstance(x, ast.Assign) and len(x.targets) == 1 and isinstance(x.targets[0], ast.Name):
                body_defs.setdefault(x.targets[0].id, []).append(x.value)

        def depends(e: ast.AST, seen: Set[str]) -> bool:
            for nm in load_names(e):
                if nm in tvars:
                    return True
                if nm in body_defs and nm not in seen:
                    seen.add(nm)
                    if any(depends(v, seen) for v in body_defs[nm]):
                        return True
            return False
        for st in [x for b_ in lp.body for x in ast.walk(b_)
                   if isinstance(x, ast.Assign) and len(x.targets) == 1 and isinstance(x.targets[0], ast.Name)]:
            nm = st.targets[0].id
            inner = [p_ for p_ in parents(st, fnode) if isinstance(p_, (ast.For, ast.While))]
            if not inner or inner[0] is not lp:
                continue
            if not isinstance(st.value, (ast.Call, ast.BinOp)) or nm in load_names(st.value):
                continue
            if not depends(st.value, {nm}):
                continue
            if any(isinstance(x, ast.Name) and isinstance(x.ctx, ast.Load) and x.id == nm for x in ast.walk(lp)):
                continue
            after = [x for x in _walk_same_function(fnode) if isinstance(x, ast.Name) and
                     isinstance(x.ctx, ast.Load) and x.id == nm and _follows(lp, x, fnode) and
                     any(d is st for d, _ in reaching_defs(nm, x, fnode))]
            if not after:
                continue
            out.append((st, lp, nm))
    return out


def leftover_uses(fnode: ast.AST) -> List[Tuple[ast.Name, ast.For, str]]:
    """Reads, after a ``for`` loop has finished, of a name that only that loop
    assigns (its target or a local of its body): the value is whatever the
    last iteration left behind (or unbound when the collection is empty).

    Not reported: search loops (containing ``break``: what was found is meant
    to be used afterwards) and reads guarded by a test that bounds the loop's
    collection to a single element (``len(<iter>) == 1`` / not ``> 1``).
    Returns (the read, the loop, the name)."""
    a = fnode.args
    params = {x.arg for x in a.posonlyargs + a.args + a.kwonlyargs}
    if a.vararg:
        params.add(a.vararg.arg)
    if a.kwarg:
        params.add(a.kwarg.arg)
    out: List[Tuple[ast.Name, ast.For, str]] = []
    nodes = [n for n in ast.walk(fnode) if not isinstance(n, ast.Lambda)]
    loops = [n for n in _walk_same_function(fnode) if isinstance(n, ast.For)]
    comps = (ast.ListComp, ast.SetComp, ast.DictComp, ast.GeneratorExp)
    stores = [x for x in _walk_same_function(fnode) if isinstance(x, ast.Name) and isinstance(x.ctx, ast.Store)
              and not any(isinstance(p_, comps) for p_ in parents(x, fnode))]
    for lp in loops:
        if any(isinstance(x, ast.Break) for x in ast.walk(lp)):
            continue
        inner = {x.id for x in ast.walk(lp) if isinstance(x, ast.Name) and isinstance(x.ctx, ast.Store)}
        # comprehension variables are scoped to the comprehension
        comp = {y.id for c in ast.walk(lp) if isinstance(c, ast.comprehension)
                for y in ast.walk(c.target) if isinstance(y, ast.Name)}
        direct = {x.id for x in ast.walk(lp) if isinstance(x, ast.Name) and isinstance(x.ctx, ast.Store) and
                  not any(isinstance(p_, (ast.ListComp, ast.SetComp, ast.DictComp, ast.GeneratorExp))
                          for p_ in parents(x, lp))}
        inner = direct
        outside = {x.id for x in stores if not any(p_ is lp for p_ in parents(x, fnode))}
        only = inner - outside - params
        if not only:
            continue
        for x in _walk_same_function(fnode):
            if not (isinstance(x, ast.Name) and isinstance(x.ctx, ast.Load) and x.id in only):
                continue
            if any(p_ is lp for p_ in parents(x, fnode)):
                continue
            if (x.lineno, x.col_offset) <= (lp.lineno, lp.col_offset):
                continue
            # inside a comprehension that rebinds the name
            if any(isinstance(p_, (ast.ListComp, ast.SetComp, ast.DictComp, ast.GeneratorExp)) and
                   any(isinstance(y, ast.Name) and y.id == x.id for g in p_.generators for y in ast.walk(g.target))
                   for p_ in parents(x, fnode)):
                continue
            # the read must be reachable from the loop's end: same block or a later sibling of an ancestor
            if not _follows(lp, x, fnode):
                continue
            it = norm_text(lp.iter)
            single = False
            for t, pol in guards(x, stop=fnode):
                for at_, p_ in conjuncts(t, pol):
                    txt = norm_text(at_)
                    if (txt == "len(%s) > 1" % it and not p_) or (txt == "len(%s) == 1" % it and p_) or \
                            (txt == "len(%s) != 1" % it and not p_):
                        single = True
            if not single:
                out.append((x, lp, x.id))
    return out


def _walk_same_function(fnode: ast.AST):
    stack = list(ast.iter_child_nodes(fnode))
    while stack:
        n = stack.pop()
        if isinstance(n, (ast.FunctionDef, ast.AsyncFunctionDef, ast.ClassDef, ast.Lambda)):
            continue
        yield n
        stack.extend(ast.iter_child_nodes(n))


def norm_text(e: ast.AST) -> str:
    return ast.unparse(e)


def _follows(lp: ast.AST, x: ast.AST, fnode: ast.AST) -> bool:
    """x lies in a statement that comes after lp in lp's block or in the block
    of one of lp's ancestors (so control can flow from the end of lp to x)."""
    cur: Optional[ast.AST] = lp
    while cur is not None and cur is not fnode:
        p, fld, lst = block_of(cur)   # type: ignore[arg-type]
        idx = next((i for i, s_ in enumerate(lst) if s_ is cur), None)
        if idx is not None:
            for s_ in lst[idx + 1:]:
                if any(y is x for y in ast.walk(s_)):
                    return True
        # loops: a later iteration of an enclosing loop also follows
        if isinstance(p, (ast.For, ast.While)) and fld == "body":
            if any(y is x for s_ in p.body for y in ast.walk(s_)) and not any(y is x for y in ast.walk(lp)):
                # before lp in the enclosing loop's body: reached on the next iteration
                return True
        cur = p if isinstance(p, ast.stmt) else None
    return False


def resolve_flow(e: ast.AST, at: ast.AST, fnode: ast.AST, depth: int = 8) -> ast.AST:
    """Replace names in ``e`` by their reaching definitions at ``at`` (flow-sensitive)."""
    class R(ast.NodeTransformer):
        def visit_Name(self, node):
            if isinstance(node.ctx, ast.Load) and depth > 0:
                v = reaching_def(node.id, at, fnode)
                if v is not None:
                    return resolve_flow(v, v, fnode, depth - 1)
            return node
    return R().visit(clone(e))


def flow_text(e: ast.AST, at: ast.AST, fnode: ast.AST) -> str:
    return norm(resolve_flow(e, at, fnode))


# --------------------------------------------------------------------------
# Conditions expressed through boolean flag locals
# --------------------------------------------------------------------------
def flag_true_atoms(name: str, fnode: ast.AST, depth: int = 0) -> Optional[List[Tuple[ast.AST, bool]]]:
    """Atoms (with polarity) that hold whenever local ``name`` is true, when the
    flag is computed by guard clauses: every assignment but one gives the
    constant False.  None if the flag is not of that shape."""
    if depth > 3:
        return None
    assigns = [(st, v) for st, v in defs_of(fnode, name)
               if isinstance(st, (ast.Assign, ast.AnnAssign)) and v is not None]
    if not assigns:
        return None
    live = [(st, v) for st, v in assigns if not (isinstance(v, ast.Constant) and v.value is False)]
    if len(live) != 1:
        return None
    st, v = live[0]
    out: List[Tuple[ast.AST, bool]] = []
    for t, pol in guards(st, stop=fnode):
        out.extend(expand_atoms(t, pol, fnode, depth + 1))
    if not (isinstance(v, ast.Constant) and v.value is True):
        out.extend(expand_atoms(v, True, fnode, depth + 1))
    return out


def expand_atoms(test: ast.AST, pol: bool, fnode: ast.AST, depth: int = 0) -> List[Tuple[ast.AST, bool]]:
    """conjuncts(test, pol) with flag locals replaced by the atoms that make them true."""
    out: List[Tuple[ast.AST, bool]] = []
    for atom, p in conjuncts(test, pol):
        if isinstance(atom, ast.Name) and p:
            sub = flag_true_atoms(atom.id, fnode, depth)
            if sub is not None:
                out.extend(sub)
                continue
            defs = single_assignments(fnode)
            if atom.id in defs and depth < 3:
                out.extend(expand_atoms(defs[atom.id], True, fnode, depth + 1))
                continue
        out.append((atom, p))
    return out
