"""
Thorough tier: test the checker both ways on scratch copies of teaal/.

* every rule module lists *breaking* single-instance edits (``mutants(db)``);
  each is applied to a scratch copy (outside /repo and /verif, removed at
  once) and the named rule must fire;
* behaviour-preserving variants (whole-tree re-layout through ast.unparse,
  renaming of the locals of every anchor function, plus per-property benign
  edits) must leave the check silent.

A missed mutant or a noisy benign variant is an ANALYSIS-ERROR of the checker
(exit 2), not a property violation.  An edit whose anchor text is no longer in
the tree is reported as skipped; at least half of a property's mutants must
still apply.
"""

from __future__ import annotations

import ast
import importlib
import multiprocessing
import os
import random
import shutil
import tempfile
from typing import Any, Dict, List, Optional, Tuple

from sa import report
from sa.db import DB, REPO, PKG


class Edit:
    """One textual edit: replace ``old`` by ``new`` in file ``rel`` (must match once)."""

    def __init__(self, rel: str, old: str, new: str, count: int = 1):
        self.rel, self.old, self.new, self.count = rel, old, new, count


class Mutant:
    def __init__(self, name: str, edits: List[Edit], rules: Tuple[str, ...], benign: bool = False,
                 note: str = ""):
        self.name = name
        self.edits = edits
        self.rules = tuple(rules)
        self.benign = benign
        self.note = note


def M(name: str, rel: str, old: str, new: str, rules, benign: bool = False, note: str = "") -> Mutant:
    if isinstance(rules, str):
        rules = (rules,)
    return Mutant(name, [Edit(rel, old, new)], tuple(rules), benign, note)


def _copy_tree(dst: str) -> None:
    shutil.copytree(os.path.join(REPO, PKG), os.path.join(dst, PKG),
                    ignore=shutil.ignore_patterns("__pycache__", "*.pyc"))


def _apply(root: str, m: Mutant) -> Optional[str]:
    for e in m.edits:
        p = os.path.join(root, e.rel)
        if not os.path.exists(p):
            return "file %s missing" % e.rel
        with open(p, encoding="utf-8") as fh:
            s = fh.read()
        if s.count(e.old) != e.count:
            return "anchor text occurs %d times in %s (expected %d)" % (s.count(e.old), e.rel, e.count)
        s = s.replace(e.old, e.new)
        try:
            ast.parse(s)
        except SyntaxError as ex:
            return "mutant does not parse: %s" % ex
        with open(p, "w", encoding="utf-8") as fh:
            fh.write(s)
    return None


class _Renamer(ast.NodeTransformer):
    def __init__(self, names):
        self.names = names

    def visit_Name(self, node):
        if node.id in self.names:
            node.id = node.id + "_rn"
        return node


def _relayout(root: str, rename_locals: bool) -> None:
    """Rewrite every module through ast.unparse (drops comments, changes
    layout and line numbers); optionally rename function locals."""
    for d, _, files in os.walk(os.path.join(root, PKG)):
        for f in files:
            if not f.endswith(".py"):
                continue
            p = os.path.join(d, f)
            with open(p, encoding="utf-8") as fh:
                tree = ast.parse(fh.read())
            if rename_locals:
                for fn in [n for n in ast.walk(tree) if isinstance(n, ast.FunctionDef)]:
                    a = fn.args
                    params = {x.arg for x in a.posonlyargs + a.args + a.kwonlyargs}
                    if a.vararg:
                        params.add(a.vararg.arg)
                    if a.kwarg:
                        params.add(a.kwarg.arg)
                    inner_defs = {n.name for n in ast.walk(fn)
                                  if isinstance(n, (ast.FunctionDef, ast.ClassDef)) and n is not fn}
                    has_nested = bool(inner_defs) or any(isinstance(n, ast.Lambda) for n in ast.walk(fn))
                    if has_nested:
                        continue
                    stores = {n.id for n in ast.walk(fn)
                              if isinstance(n, ast.Name) and isinstance(n.ctx, ast.Store)}
                    stores -= params
                    glob = {x for n in ast.walk(fn) if isinstance(n, (ast.Global, ast.Nonlocal))
                            for x in n.names}
                    stores -= glob
                    if stores:
                        _Renamer(stores).visit(fn)
            # keep a leading blank block so that line numbers shift as well
            with open(p, "w", encoding="utf-8") as fh:
                fh.write("\n\n\n" + ast.unparse(tree) + "\n")


VERIF = os.path.dirname(os.path.dirname(os.path.abspath(__file__)))


def corpus(pid: str) -> List[Tuple[str, str]]:
    """(kind, directory) of the stored patches replayed by the thorough tier: the seeded
    breakages of this property that the property's own rules are known to report
    (seeded/RESULTS.json) and every behaviour-preserving refactoring (benign/)."""
    out: List[Tuple[str, str]] = []
    try:
        import json
        res = json.load(open(os.path.join(VERIF, "seeded", "RESULTS.json")))["seeds"]
    except Exception:
        res = {}
    for name, r in sorted(res.items()):
        if r.get("property") == pid and r.get("caught_by_own_property"):
            d = os.path.join(VERIF, "seeded", name)
            if os.path.exists(os.path.join(d, "patch.diff")):
                out.append(("seed", d))
    bdir = os.path.join(VERIF, "benign")
    if os.path.isdir(bdir):
        for name in sorted(os.listdir(bdir)):
            d = os.path.join(bdir, name)
            if os.path.exists(os.path.join(d, "patch.diff")):
                out.append(("refactoring", d))
    return out


def _git_apply(root: str, patch: str) -> Optional[str]:
    import subprocess
    p = subprocess.run(["git", "apply", patch], cwd=root, stdout=subprocess.PIPE, stderr=subprocess.STDOUT,
                       text=True)
    return None if p.returncode == 0 else p.stdout.strip().splitlines()[-1][:160] if p.stdout.strip() else "git apply failed"


def _run_one(args) -> Dict[str, Any]:
    pid, kind, idx, seed = args
    mod = importlib.import_module("sa.rules." + pid.lower())
    tmp = tempfile.mkdtemp(prefix="sa-selftest-")
    try:
        _copy_tree(tmp)
        name = kind
        expect: Tuple[str, ...] = ()
        benign = True
        if kind in ("seed", "refactoring"):
            name = "%s %s" % (kind, os.path.basename(idx))
            err = _git_apply(tmp, os.path.join(idx, "patch.diff"))
            if err:
                return {"name": name, "status": "skipped", "detail": err, "benign": kind == "refactoring"}
            rep = report.Report(pid, "quick", seed)
            try:
                mod.run(DB(tmp), rep)
            except Exception as e:
                # exit 2 either way: fine for a refactoring (never a VIOLATION), a miss for a seed
                return {"name": name, "status": "ran", "fired": [] if kind == "refactoring" else [],
                        "benign": kind == "refactoring", "expect": ["<any>"] if kind == "seed" else [],
                        "floor_errors": [], "first": repr(e)[:160], "corpus": kind}
            known_ = [k for k in report.load_known() if k.get("property") == pid and k.get("status") == "open"]
            fired = sorted({v.rule for v in rep.violations
                            if not any(k.get("rule") == v.rule and k.get("function") == v.func and
                                       k.get("construct") == v.construct for k in known_)})
            return {"name": name, "status": "ran", "fired": fired, "benign": kind == "refactoring",
                    "expect": ["<any>"] if kind == "seed" else [], "floor_errors": [],
                    "first": (rep.violations[0].where + " " + rep.violations[0].message)[:200]
                    if rep.violations else "", "corpus": kind}
        if kind == "mutant":
            db0 = DB()
            ms: List[Mutant] = mod.mutants(db0) if hasattr(mod, "mutants") else []
            m = ms[idx]
            name, expect, benign = m.name, m.rules, m.benign
            err = _apply(tmp, m)
            if err:
                return {"name": name, "status": "skipped", "detail": err, "benign": benign}
        elif kind == "relayout":
            _relayout(tmp, False)
        elif kind == "relayout+rename":
            _relayout(tmp, True)
        rep = report.Report(pid, "quick", seed)
        try:
            mod.run(DB(tmp), rep)
        except Exception as e:
            # an analysis error on a mutant counts as "noticed" for breaking
            # mutants (the check would exit 2, never 0) but is wrong on benign ones
            return {"name": name, "status": "analysis-error", "detail": repr(e), "benign": benign,
                    "expect": list(expect)}
        known = [k for k in report.load_known() if k.get("property") == pid and k.get("status") == "open"]
        fired = []
        for v in rep.violations:
            if any(k.get("rule") == v.rule and k.get("function") == v.func and
                   k.get("construct") == v.construct for k in known):
                continue
            fired.append(v.rule)
        floor_errs = rep.floors() + ["undecided: %s %s" % (u["rule"], u["message"][:80]) for u in rep.undecided_list]
        return {"name": name, "status": "ran", "fired": sorted(set(fired)), "benign": benign,
                "expect": list(expect), "floor_errors": floor_errs,
                "first": (rep.violations[0].where + " " + rep.violations[0].message)[:200]
                if rep.violations else ""}
    finally:
        shutil.rmtree(tmp, ignore_errors=True)


def run(pid: str, seed: int) -> Dict[str, Any]:
    mod = importlib.import_module("sa.rules." + pid.lower())
    db0 = DB()
    ms: List[Mutant] = mod.mutants(db0) if hasattr(mod, "mutants") else []
    jobs = [(pid, "mutant", i, seed) for i in range(len(ms))]
    jobs += [(pid, "relayout", 0, seed), (pid, "relayout+rename", 0, seed)]
    if not os.environ.get("SA_NO_CORPUS"):
        jobs += [(pid, k, d, seed) for k, d in corpus(pid)]
    budget = int(os.environ.get("SA_SELFTEST_BUDGET", "400"))
    if len(jobs) > budget:
        rnd = random.Random(seed)
        jobs = rnd.sample(jobs, budget)
    with multiprocessing.Pool(min(16, max(1, len(jobs)))) as pool:
        results = pool.map(_run_one, jobs)
    errors: List[str] = []
    mutants = caught = benign = silent = skipped = 0
    seeds = seeds_caught = refs = refs_silent = corpus_skipped = 0
    details = []
    for r in results:
        details.append({k: r.get(k) for k in ("name", "status", "fired", "expect", "detail")})
        if r.get("corpus") or r["name"].startswith(("seed ", "refactoring ")):
            if r["status"] == "skipped":
                corpus_skipped += 1
            elif r["name"].startswith("seed "):
                seeds += 1
                if r["fired"]:
                    seeds_caught += 1
                else:
                    errors.append("stored breakage '%s' is no longer reported (%s)" % (r["name"], r.get("first", "")))
            else:
                refs += 1
                if not r["fired"]:
                    refs_silent += 1
                else:
                    errors.append("behaviour-preserving refactoring '%s' is reported as a violation: %s %s" %
                                  (r["name"], r["fired"], r.get("first", "")))
            continue
        if r["status"] == "skipped":
            skipped += 1
            continue
        if r["benign"]:
            benign += 1
            if r["status"] == "ran" and not r["fired"] and not r.get("floor_errors"):
                silent += 1
            else:
                errors.append("benign variant '%s' made the check fire: %s %s" %
                              (r["name"], r.get("fired") or r.get("detail") or r.get("floor_errors"),
                               r.get("first", "")))
        else:
            mutants += 1
            if r["status"] == "analysis-error" or r.get("floor_errors"):
                caught += 1   # the check would exit 2, never 0
            elif set(r["expect"]) & set(r["fired"]):
                caught += 1
            else:
                errors.append("mutant '%s' not caught (expected rule %s, fired %s)" %
                              (r["name"], "/".join(r["expect"]), r["fired"]))
    if (seeds + refs + corpus_skipped) and corpus_skipped * 2 > (seeds + refs + corpus_skipped):
        errors.append("%d of %d stored patches no longer apply to the tree" %
                      (corpus_skipped, seeds + refs + corpus_skipped))
    if ms and skipped * 2 > len(ms):
        errors.append("%d of %d mutants no longer apply to the tree" % (skipped, len(ms)))
    return {"errors": errors, "details": details,
            "summary": {"mutants": mutants, "caught": caught, "benign": benign, "silent": silent,
                        "skipped": skipped, "exhaustive": len(jobs) <= budget,
                        "stored_breakages": seeds, "stored_breakages_reported": seeds_caught,
                        "refactorings": refs, "refactorings_without_violation": refs_silent,
                        "corpus_patches_not_applicable": corpus_skipped}}
