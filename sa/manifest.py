"""Regenerates /verif/MANIFEST.json from the table below: python -m sa.manifest"""

from __future__ import annotations

import json
import os

from sa.check import available

VERIF = os.path.dirname(os.path.dirname(os.path.abspath(__file__)))

BASELINE = ("cd /repo && /venv/bin/python -m pytest -ra -q -p no:cacheprovider --timeout=900 "
            "--continue-on-collection-errors")

NA = {
    "C01": "result equality of emitted loop nests over all inputs is a fact about runtime values of "
           "programs that do not exist in /repo's source; no clause is visible in the shape of the "
           "compiler's code (fibertree is not installed either)",
    "C02": "same as C01 under shape partitioning: split depths, halos and merge order are computed "
           "from specification data at compile time and their effect is runtime behaviour",
    "C03": "same as C01 under occupancy partitioning / flattening; leader/follower placement is "
           "decided by the dynamic flow graph of one specification",
    "C04": "exact tiling of affine intervals is arithmetic over all extents; the one structural "
           "ingredient (precedence of the step expression) is decided under C09",
    "C08": "cross-seed equivalence of emitted programs is runtime behaviour and the property itself "
           "concedes order dependence; a set-iteration lint fires on a dozen sites of the correct "
           "tree and cannot tell benign from harmful reorderings",
    "C11": "equality of tensors with and without metrics is runtime behaviour of emitted programs; "
           "the one static ingredient found (a closedness defect in metrics mode) is reported "
           "under C06",
    "C19": "identity of emitted text for omitted vs explicit defaults is a value-level fact about "
           "rank orderings computed from parse trees; a rule pinning the current implementation "
           "would fire on behaviour-preserving edits",
}

TEXT = {
    "C05": ("State-reset completeness between Einsums (necessary condition of independent "
            "compilation): every per-Einsum field of the shared Program/Tensor objects is restored, "
            "analysis passes leave shared tensors reset, translator objects with per-Einsum state "
            "are built per Einsum; every Einsum's footer returns its output to the declared, "
            "unpartitioned layout (the footer rules of C07). Does not decide that the composed "
            "program computes the composition.",
            "AST write-set / must-pass-through path analysis over Program, Tensor, HiFiber"),
    "C06": ("Closedness, necessary conditions only: every literal-bearing identifier an emitter "
            "reads is spelled the way some emitter binds it; mode-guarded binders are read only "
            "under that mode; temporaries are named before use; clones of a computed-name "
            "derivation agree; the *_pos payload and the enumerate() wrapper follow one predicate on "
            "every path; the merger's input binder exists whenever its reader does; collections keyed "
            "by rank tuples are probed with tuples; a shape= argument names a rank's root only for ranks "
            "that do not stem from a flattening; per-element rewrites accumulate; loop variables are "
            "named through get_iter_ranks; the update is emitted only when every tensor was walked to "
            "its values. Does not decide statement order per specification or data-built names.",
            "abstract interpretation of name templates + interprocedural guard sets"),
    "C07": ("Only the output tensor can be the target of populate (<<), getPayloadRef/"
            "iterRangeShapeRef and the in-place update: provenance of every write site; the footer "
            "un-partitions the output on every path, renames rank ids after every change of rank "
            "structure, and flatten/unflatten use levels = group size - 1. Does not decide run-time "
            "rank ids or snapshot equality of inputs.",
            "AST provenance (def-use) check of write-construct sites"),
    "C09": ("Precedence safety for every HiFiber tree any builder in teaal/trans can construct: "
            "abstract interpretation of the builder code over expression kinds with a printer model "
            "derived from gen(); every infix operand, postfix receiver and substitution obligation "
            "must discharge. Full for the operator/nesting clause; leaf text lexical safety is data.",
            "abstract interpretation of HiFiber-building code (kinds domain) + derived printer model"),
    "C10": ("Structural necessary conditions of a correct statement order: node identity total over "
            "fields, translator dispatch exhaustive with no empty arm, required kind-level "
            "dependence edges present per builder, no dangling emitting node, hoisting guarded by "
            "non-descendance, loop and metrics chains open in loop order and close in reverse, "
            "per-element edge-building loops cover their whole collection and no edge is built from a "
            "finished loop's left-over; memo tables are keyed by the level they answer for; every input "
            "tensor gets its root fiber; a metrics header waits for the fibers it traces (open finding F12).",
            "AST structural rules + kind-level may-edge graph of flow_graph.py"),
    "C12": ("Trace labels and file-name schemas agree between registration and consumption by "
            "construction of the emitters; begin/end pairing; intersector create/feed/query and "
            "leader selection agree (and depend on the rank being traced); sibling payload-filter "
            "predicates agree; no registration decision reads a finished loop's left-over or is "
            "skipped by a de-duplication coarser than the element.",
            "string-template abstract values + sibling cross-checks over collector/metrics"),
    "C13": ("Fusion.add_einsum is a well-formed state machine for all call histories: the decision "
            "reads config, temporal prefix and component set paired with the incoming values; "
            "opening re-initialises each; extending accumulates; every path appends exactly once; "
            "lists are append-only; one feed per Einsum.",
            "typestate-style path enumeration + backward slices over Fusion.add_einsum"),
    "C14": ("Structure of the time roll-up for every architecture: each emitted component time is "
            "registered exactly once with the same name, divisor = rate x instance count of the "
            "same component, instance count flows unmodified from the level name, roll-up after "
            "registration, sum over blocks of max over components. Numeric results are not decided.",
            "AST def-use / path rules over Collector time sites and the num_instances flow"),
    "C15": ("No store through a reference that may alias the five parsed input objects "
            "(interprocedural alias-depth analysis), no module/class-level mutable state written at "
            "run time, no address/time-dependent values, component bindings copied per Einsum.",
            "interprocedural alias-depth (freshness) dataflow + global-state lints with fixtures"),
    "C16": ("Graphics emitters are observation-only and identically guarded; enumerate wrapper and "
            "_pos payload guarded by the same predicate; one activity per update; one coordinate "
            "per rank from the same tensor list; relative coordinates only for ranks that do not stem "
            "from a flattening. Stamp uniqueness / tensor equality not decided.",
            "guard-set equality + name-site disjointness over graphics/canvas/equation"),
    "C17": ("Each of the five grammars is LALR(1) conflict-free (unique tree per token string); "
            "every tree label a consumer tests is producible by its grammar and every directive "
            "label is consumed; default stamp style, sign rewrite and N+1 have the stated form; the "
            "text reaches the grammar unmodified and through no by-pass, inline whitespace is ignored "
            "everywhere, a YAML loader is created per document, and a level name rewritten in place is "
            "parsed once per dictionary.",
            "LALR(1) construction of the grammars read by ast + label producer/consumer agreement"),
    "C18": ("Each stated legality rule still has its raise ValueError guard: reachable from the "
            "public constructors, ranging over the whole collection, not swallowed, not an assert, "
            "raised before text can be returned. Condition width is not decided.",
            "guard census + call-graph reachability + handler/assert lints"),
}

NOTE = ("Trusted: Python's ast module and operator-precedence table; the annotation-driven receiver "
        "typing in sa/db.py (the repo type-checks under mypy); for C09 the affine model of sympy "
        "canonical forms; for C17 lark's LALR construction. No repository code is executed.")


def build() -> dict:
    claimed = available()
    checks = []
    for pid in claimed:
        text, tech = TEXT[pid]
        checks.append({
            "property_id": pid,
            "quick_cmd": "/venv/bin/python -m sa.check %s --tier quick" % pid,
            "thorough_cmd": "/venv/bin/python -m sa.check %s --tier thorough" % pid,
            "evidence_file": "/verif/evidence/%s.json" % pid,
            "replay_cmd_template": "/venv/bin/python -m sa.check %s --replay {path}" % pid,
            "engine": "sa",
            "level_claimed": {
                "category": "other",
                "text": "Static analysis of /repo's current sources; decides a named structural "
                        "clause (a necessary condition), not the runtime behaviour. " + text,
                "design_ref": "DESIGN.md section 3, " + pid,
            },
            "level_note": NOTE,
            "technique": "static analysis: " + tech,
        })
    na = []
    for i in range(1, 20):
        pid = "C%02d" % i
        if pid in claimed:
            continue
        reason = NA.get(pid) or ("claimed in DESIGN.md but its checker is not yet built in this "
                                 "tree; not claimed until it is")
        na.append({"property_id": pid, "reason": reason})
    return {
        "version": 1,
        "setup_cmd": "/venv/bin/python -m sa.check --self",
        "hooks": {
            "guard": "TEAAL_VERIF",
            "enable": "none needed: the checks read /repo's sources and never run them",
            "baseline_off_cmd": BASELINE,
            "source_commits": [],
            "add_only": True,
        },
        "engines": [{
            "name": "sa",
            "path": "/verif/sa",
            "serves_properties": claimed,
            "kind_free_text": "repository-specific static analysis (ast program database, "
                              "annotation-driven call graph, path/guard analysis, abstract "
                              "interpretation of the HiFiber builders, alias-depth dataflow)",
        }],
        "checks": checks,
        "notes": "Static-analysis family only. Genuine defects found and repaired by fix: commits in "
                 "/repo are listed in /verif/known_findings.json. See DESIGN.md.",
        "not_applicable": na,
    }


if __name__ == "__main__":
    with open(os.path.join(VERIF, "MANIFEST.json"), "w") as fh:
        json.dump(build(), fh, indent=1)
        fh.write("\n")
    print("wrote MANIFEST.json with %d checks" % len(build()["checks"]))
