"""Call evaluation for the builder abstract interpreter (attached to Interp)."""

from __future__ import annotations

import ast
from typing import Dict, List, Optional, Tuple

from sa.db import FuncInfo, norm
from sa.values import (AV, BOT, NONE, SYM_ALL, TOP, Bool, Bot, ClsRef, Dct, Func, HArg, HE, HStmt, Int,
                       Lst, NoneV, Obj, Str, Sym, Top, alts_of, he_atom, join, join_all, mk_alt,
                       str_concat, str_map, HOLE)
from sa.hmodel import stmt_add

SUB_HIFIBER = "teaal.trans.utils.TransUtils.sub_hifiber"


def eval_args(self, e: ast.Call, env, f) -> Tuple[List[AV], Dict[str, AV], bool]:
    args: List[AV] = []
    unknown_star = False
    for a in e.args:
        if isinstance(a, ast.Starred):
            v = self.ev(a.value, env, f)
            if isinstance(v, Lst) and v.items is not None:
                args.extend(v.items)
            else:
                unknown_star = True
        else:
            args.append(self.ev(a, env, f))
    kwargs = {k.arg: self.ev(k.value, env, f) for k in e.keywords if k.arg is not None}
    return args, kwargs, unknown_star


def callexpr(self, e: ast.Call, env, f: FuncInfo) -> AV:
    fn = e.func
    args, kwargs, star = eval_args(self, e, env, f)
    if isinstance(fn, ast.Name):
        nm = fn.id
        if nm in env:
            return call_value(self, env[nm], args, kwargs, e, env, f)
        if nm in self.hifiber_names and f.module.ns.get(nm, ("",))[0] == "class":
            if star:
                return TOP
            return self.hm.construct(nm, args, kwargs, e, f)
        ent = f.module.ns.get(nm)
        if ent and ent[0] == "class":
            return Obj(ent[1].qualname)
        if ent and ent[0] == "func":
            return self.call(ent[1], args, kwargs, None)
        if ent and ent[0] == "ext":
            return ext_call(self, ent[1].split(".")[-1], args)
        # nested function defined later in the same function
        q = f.qualname + ".<locals>." + nm
        if q in self.db.functions:
            return self.call(self.db.functions[q], args, kwargs, dict(env))
        return builtin(self, nm, args, kwargs, e, env, f)
    if isinstance(fn, ast.Attribute):
        recv = self.ev(fn.value, env, f)
        if isinstance(recv, (Top, Bot)):
            # fall back on the static resolution
            gs = self.db.resolve_call(e, f)
            if gs:
                return join_all(invoke(self, g, None, args, kwargs, e, f) for g in gs)
            return TOP
        outs: List[AV] = []
        for a in alts_of(recv):
            outs.append(method(self, a, fn.attr, args, kwargs, e, env, f))
        return join_all(outs)
    # call of a call result etc.
    v = self.ev(fn, env, f)
    return call_value(self, v, args, kwargs, e, env, f)


def call_value(self, v: AV, args, kwargs, e, env, f) -> AV:
    outs: List[AV] = []
    for a in alts_of(v):
        if isinstance(a, ClsRef):
            for nm in sorted(a.names):
                if nm in self.hifiber_names:
                    outs.append(self.hm.construct(nm, args, kwargs, e, f))
                elif nm.startswith("ext:"):
                    outs.append(ext_call(self, nm[4:], args))
                else:
                    c = [k for k in self.db.classes.values() if k.name == nm]
                    outs.append(Obj(c[0].qualname) if c else TOP)
        elif isinstance(a, Func):
            g = self.db.functions.get(a.name)
            if g is not None:
                outs.append(self.call(g, args, kwargs, dict(env) if g.outer is not None else None))
            else:
                outs.append(TOP)
        else:
            outs.append(TOP)
    if isinstance(v, (Top, Bot)):
        return TOP
    return join_all(outs)


def ext_call(self, nm: str, args) -> AV:
    if nm == "Symbol":
        return Sym(frozenset({"Symbol"}))
    if nm in ("Number", "Integer"):
        return Sym(frozenset({"Integer"}))
    if nm == "Rational":
        return Sym(frozenset({"Integer", "Rational"}))
    if nm == "solve":
        return Lst(None, SYM_ALL, True)
    if nm in ("deepcopy", "copy") and args:
        return args[0]
    if nm == "cast" and len(args) == 2:
        return args[1]
    if nm == "chain":
        return Lst(None, join_all(self.elem(x) for a in args for x in alts_of(a)), True)
    if nm == "Counter":
        return Obj("ext:Counter")
    return TOP


def invoke(self, g: FuncInfo, recv: Optional[AV], args, kwargs, e, f) -> AV:
    """Call repo function g (recv: abstract self or None for static)."""
    if g.qualname == SUB_HIFIBER:
        return sub_hifiber(self, args, e, f)
    full = list(args)
    if g.cls is not None and not g.is_static:
        if g.is_classmethod:
            full = [ClsRef(frozenset({g.cls.name}))] + full
        else:
            full = [recv if recv is not None else Obj(g.cls.qualname)] + full
    if g.name == "__init__" and g.cls is not None:
        return Obj(g.cls.qualname)
    return self.call(g, full, kwargs, None)


def method(self, a: AV, name: str, args, kwargs, e: ast.Call, env, f: FuncInfo) -> AV:
    if isinstance(a, Obj):
        c = self.db.classes.get(a.cls)
        if c is None:
            return ext_method(self, a, name, args)
        if name.startswith("__") and not name.endswith("__"):
            g = f.cls.methods.get(name) if f.cls is not None else None
            return invoke(self, g, a, args, kwargs, e, f) if g else TOP
        g = c.lookup(name)
        cands = [g] if g is not None and not g.is_abstract else []
        if g is None or g.is_abstract:
            for k in c.all_subclasses():
                if name in k.methods and k.methods[name] not in cands:
                    cands.append(k.methods[name])
        if not cands:
            return TOP
        return join_all(invoke(self, g, a, args, kwargs, e, f) for g in cands)
    if isinstance(a, ClsRef):
        outs = []
        for nm in sorted(a.names):
            if nm.startswith("ext:"):
                outs.append(TOP)
                continue
            cs = [k for k in self.db.classes.values() if k.name == nm]
            ent = f.module.ns.get(nm)
            c = ent[1] if ent and ent[0] == "class" else (cs[0] if cs else None)
            if c is None:
                outs.append(TOP)
                continue
            if name.startswith("__") and not name.endswith("__"):
                g = f.cls.methods.get(name) if f.cls is not None else None
            else:
                g = c.lookup(name)
            outs.append(invoke(self, g, None, args, kwargs, e, f) if g else TOP)
        return join_all(outs)
    if isinstance(a, Str):
        if name == "lower":
            return str_map(a, str.lower)
        if name == "upper":
            return str_map(a, str.upper)
        if name == "join" and args:
            sep = a.known()
            lst = args[0]
            if sep is not None and isinstance(lst, Lst) and lst.items is not None and \
                    all(isinstance(x, Str) for x in lst.items):
                out = Str.lit("")
                for i, x in enumerate(lst.items):
                    if i:
                        out = str_concat(out, Str.lit(sep))
                    out = str_concat(out, x)
                return out
            if sep is not None and sep != "":
                # unknown number of pieces: one piece, or pieces separated by the literal separator
                return Str(frozenset({(HOLE,), (HOLE, sep, HOLE)}))
            return Str.hole()
        if name in ("startswith", "endswith", "isdigit", "isupper", "islower"):
            return Bool()
        if name == "split":
            return Lst(None, Str.hole(), False)
        if name in ("index", "find", "count"):
            return Int()
        return Str.hole()
    if isinstance(a, Lst):
        if name in ("copy", "union", "intersection", "difference"):
            if name == "copy":
                return a
            other = join_all(self.elem(x) for b in args for x in alts_of(b))
            return Lst(None, join(a.element(), other), True)
        if name in ("index", "count"):
            return Int()
        if name == "pop":
            return a.element()
        if name in ("keys", "values", "items"):
            return TOP
        if name in ("append", "add", "extend", "insert", "update", "sort", "reverse", "remove", "clear"):
            return NONE
        if name == "isdisjoint":
            return Bool()
        return TOP
    if isinstance(a, Dct):
        if name == "items":
            return Lst(None, Lst((a.key, a.val)), True)
        if name == "keys":
            return Lst(None, a.key, True)
        if name == "values":
            return Lst(None, a.val, True)
        if name in ("get", "pop", "setdefault"):
            dflt = args[1] if len(args) > 1 else NONE
            return join(a.val, dflt)
        if name == "copy":
            return a
        return TOP
    if isinstance(a, Sym):
        if name == "atoms":
            return Lst(None, Sym(frozenset({"Symbol"})), True)
        if name in ("subs", "expand", "simplify", "as_coeff_Mul"):
            return SYM_ALL
        return SYM_ALL
    if isinstance(a, HStmt):
        if name == "add" and args:
            return NONE
        return TOP
    if isinstance(a, Int):
        return Int()
    if isinstance(a, NoneV):
        return BOT   # the call cannot happen on None (would raise)
    return TOP


def ext_method(self, a: Obj, name: str, args) -> AV:
    if a.cls.startswith("ext:") and ("Tree" in a.cls or "lark" in a.cls):
        if name in ("find_data", "iter_subtrees", "scan_values"):
            return Lst(None, a, True)
    return TOP


def builtin(self, nm: str, args, kwargs, e, env, f) -> AV:
    a0 = args[0] if args else None
    if nm == "len":
        if isinstance(a0, Lst) and a0.items is not None:
            return Int(len(a0.items))
        return Int()
    if nm == "str":
        if isinstance(a0, Int) and a0.val is not None:
            return Str.lit(str(a0.val))
        if isinstance(a0, Str):
            return a0
        return Str.hole()
    if nm == "repr":
        return Str.hole()
    if nm in ("int", "float", "abs", "round", "hash", "ord"):
        if nm == "int" and isinstance(a0, Int):
            return a0
        return Int()
    if nm == "bool":
        t = self.truth(a0) if a0 is not None else False
        return Bool(t)
    if nm in ("list", "tuple"):
        if a0 is None:
            return Lst(())
        outs = []
        for x in alts_of(a0):
            if isinstance(x, Lst):
                outs.append(x)
            elif isinstance(x, Dct):
                outs.append(Lst(None, x.key, True))
            else:
                outs.append(Lst(None, self.elem(x), True))
        return join_all(outs) if not isinstance(a0, (Top, Bot)) else Lst(None, TOP, True)
    if nm in ("set", "frozenset", "sorted"):
        if a0 is None:
            return Lst(())
        outs = []
        for x in alts_of(a0):
            if isinstance(x, Lst):
                if x.items is not None and len(x.items) <= 1:
                    outs.append(x)
                else:
                    outs.append(Lst(None, x.element(), x.may_empty if x.items is None else not x.items))
            elif isinstance(x, Dct):
                outs.append(Lst(None, x.key, True))
            else:
                outs.append(Lst(None, self.elem(x), True))
        return join_all(outs) if not isinstance(a0, (Top, Bot)) else Lst(None, TOP, True)
    if nm == "dict":
        if a0 is None:
            return Dct(BOT, BOT)
        return a0 if isinstance(a0, Dct) else Dct(TOP, TOP)
    if nm == "reversed":
        if isinstance(a0, Lst) and a0.items is not None:
            return Lst(tuple(reversed(a0.items)))
        return a0 if a0 is not None else TOP
    if nm == "enumerate":
        if isinstance(a0, Lst) and a0.items is not None:
            return Lst(tuple(Lst((Int(i), x)) for i, x in enumerate(a0.items)))
        if a0 is not None and not isinstance(a0, (Top, Bot)):
            el = join_all(self.elem(x) for x in alts_of(a0))
            may = any((x.may_empty if isinstance(x, Lst) and x.items is None else True) for x in alts_of(a0))
            return Lst(None, Lst((Int(), el)), may)
        return Lst(None, Lst((Int(), TOP)), True)
    if nm == "zip":
        if all(isinstance(x, Lst) and x.items is not None for x in args) and args:
            n = min(len(x.items) for x in args)
            return Lst(tuple(Lst(tuple(x.items[i] for x in args)) for i in range(n)))
        els = [join_all(self.elem(y) for y in alts_of(x)) if not isinstance(x, (Top, Bot)) else TOP
               for x in args]
        return Lst(None, Lst(tuple(els)), True)
    if nm == "range":
        if len(args) == 1 and isinstance(a0, Int) and a0.val is not None and 0 <= a0.val <= 10:
            return Lst(tuple(Int(i) for i in range(a0.val)))
        return Lst(None, Int(), True)
    if nm in ("any", "all"):
        return Bool()
    if nm in ("min", "max", "sum"):
        if len(args) == 1:
            return join_all(self.elem(x) for x in alts_of(a0)) if not isinstance(a0, (Top, Bot)) else TOP
        return join_all(args)
    if nm == "isinstance":
        b, et, ef = self.cond(e, env, f)
        return b
    if nm == "next":
        if a0 is None or isinstance(a0, (Top, Bot)):
            return TOP
        return join_all(self.elem(x) for x in alts_of(a0))
    if nm == "iter":
        return a0 if a0 is not None else TOP
    if nm == "cast" and len(args) == 2:
        return args[1]
    if nm == "deepcopy" and args:
        return a0
    if nm == "type":
        return Obj("ext:type")
    if nm == "print":
        return NONE
    if nm == "vars":
        return Dct(Str.hole(), TOP)
    if nm in ("ValueError", "TypeError", "NotImplementedError", "KeyError", "Exception"):
        return Obj("ext:" + nm)
    self.notes.add("unknown function %s in %s" % (nm, f.qualname))
    return TOP


def sub_hifiber(self, args, e: ast.Call, f: FuncInfo) -> AV:
    """P3: substitution of ``new`` for a variable leaf of ``hifiber``."""
    if len(args) != 3:
        self.hm.oblige("P3", e, f, "substitution", False, "unexpected arity")
        return TOP
    h, _old, new = args
    hh, hother = self.hm._he_parts(h)
    nn, nother = self.hm._he_parts(new)
    if hh is None or hother or nn is None or nother:
        self.hm.oblige("P3", e, f, "substitution operands", False,
                       "the substituted expressions are not known HiFiber expressions")
        return TOP
    if not hh.ctx and not hh.leaf:
        self.hm.oblige("P3", e, f, "substitution (no variable leaf inside)", True)
    for (op, side) in sorted(hh.ctx):
        self.hm.check_operand("P3", nn, op, side, e, f,
                              "substitute at a leaf that is the %s operand of '%s'" %
                              ({"L": "left", "R": "right", "RECV": "receiver", "ITER": "iterable"}[side], op))
    if hh.leaf:
        self.hm.oblige("P3", e, f, "substitute for the whole expression", True)
    kinds = set(hh.kinds)
    if hh.leaf:
        kinds |= nn.kinds
    self.sub_sites.append({"node": e, "func": f, "ctx": sorted(hh.ctx), "new": sorted(nn.kinds)})
    return HE(frozenset(kinds), hh.leaf and nn.leaf or hh.leaf, hh.ctx | nn.ctx)


def attach(Interp) -> None:
    Interp.callexpr = callexpr
