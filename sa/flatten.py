"""
Normalisation: inline private same-class helper methods into their callers.

Many rules are intra-procedural (paths, guards, def-use inside one anchor
function).  Extracting a block into a private helper - the most common
behaviour-preserving refactoring - would hide the block from them.  After
loading, the program database therefore rewrites every method so that calls of
private helpers of the same class (``self.__h(...)``, ``Cls.__h(...)``) are
replaced by the helper's body:

  * an expression-bodied helper (``return E``) is substituted as an expression;
  * ``x = self.__h(a)`` / ``self.__h(a)`` / ``return self.__h(a)`` splice the
    body (guard-clause returns are turned into if/else; a helper that returns
    from inside a loop is only spliced in tail position);
  * a call nested in a larger statement is hoisted into a temporary first.

Helpers whose every call site was inlined are dropped from the class, so
site counts do not double.  Recursive helpers, helpers with nested functions,
generators and helpers that are also referenced as values are left alone.
The original line numbers stay on the copied nodes, so reports still point at
real source lines.
"""

from __future__ import annotations

import ast
from typing import Dict, List, Optional, Set, Tuple

from sa.paths import always_exits, clone

MAX_BODY = 80      # statements; larger helpers are real functions, not extracted blocks


def _clone(node):
    if isinstance(node, list):
        return [_clone(x) for x in node]
    if not isinstance(node, ast.AST):
        return node
    new = type(node)()
    for fld in node._fields:
        if hasattr(node, fld):
            setattr(new, fld, _clone(getattr(node, fld)))
    for a in ("lineno", "col_offset", "end_lineno", "end_col_offset", "_mod"):
        if hasattr(node, a):
            setattr(new, a, getattr(node, a))
    return new


def _is_private(name: str) -> bool:
    return name.startswith("__") and not name.endswith("__")


def _walk_no_nested(node):
    todo = list(ast.iter_child_nodes(node))
    while todo:
        n = todo.pop(0)
        yield n
        if isinstance(n, (ast.FunctionDef, ast.AsyncFunctionDef, ast.ClassDef, ast.Lambda)):
            continue
        todo.extend(ast.iter_child_nodes(n))


class _Subst(ast.NodeTransformer):
    def __init__(self, mapping: Dict[str, ast.AST], rename: Dict[str, str]):
        self.mapping = mapping
        self.rename = rename

    def visit_Name(self, node: ast.Name):
        if node.id in self.mapping and isinstance(node.ctx, ast.Load):
            new = clone(self.mapping[node.id])
            return new
        if node.id in self.rename:
            return ast.copy_location(ast.Name(id=self.rename[node.id], ctx=node.ctx), node)
        return node

    def visit_Lambda(self, node):
        return node   # leave lambda bodies alone (their parameters shadow)


def _simple(e: ast.AST) -> bool:
    if isinstance(e, (ast.Name, ast.Constant)):
        return True
    if isinstance(e, ast.Attribute):
        return _simple(e.value)
    if isinstance(e, ast.Subscript):
        return _simple(e.value) and _simple(e.slice)
    if isinstance(e, ast.Tuple):
        return all(_simple(x) for x in e.elts)
    return False


def _stored_names(fn: ast.AST) -> Set[str]:
    return {n.id for n in _walk_no_nested(fn) if isinstance(n, ast.Name) and isinstance(n.ctx, ast.Store)}


def _strip_doc(body: List[ast.stmt]) -> List[ast.stmt]:
    if body and isinstance(body[0], ast.Expr) and isinstance(body[0].value, ast.Constant) and \
            isinstance(body[0].value.value, str):
        return body[1:]
    return body


def _eliminate_returns(stmts: List[ast.stmt], result: Optional[str]) -> Optional[List[ast.stmt]]:
    """Rewrite a statement list so that it assigns ``result`` instead of
    returning; None if the shape is not a chain of guard clauses."""
    out: List[ast.stmt] = []
    for i, s in enumerate(stmts):
        if isinstance(s, ast.Return):
            if result is not None:
                val = s.value if s.value is not None else ast.Constant(value=None)
                out.append(ast.copy_location(ast.Assign(targets=[ast.Name(id=result, ctx=ast.Store())],
                                                        value=val), s))
            return out
        has_ret = any(isinstance(x, ast.Return) for x in _walk_no_nested(s)) or isinstance(s, ast.Return)
        if not has_ret:
            out.append(s)
            continue
        if isinstance(s, ast.If):
            body_exits = always_exits(s.body)
            else_exits = bool(s.orelse) and always_exits(s.orelse)
            rest = stmts[i + 1:]
            b = _eliminate_returns(s.body + ([] if body_exits else rest), result)
            o = _eliminate_returns((s.orelse or []) + ([] if else_exits else rest), result)
            if b is None or o is None:
                return None
            if not body_exits and not else_exits and rest:
                return None       # would duplicate the continuation
            new = ast.copy_location(ast.If(test=s.test, body=b or [ast.Pass()], orelse=o), s)
            out.append(new)
            return out
        return None               # return inside a loop / other compound statement
    return out


def known_helpers() -> Set[str]:
    """Class.__name of the private helpers that existed when the rules were
    written (sa/known_helpers.txt).  They stay functions of their own: the rules
    analyse them as written.  Only helpers *not* listed - extracted by a later
    refactoring - are inlined into their callers."""
    import os
    path = os.path.join(os.path.dirname(os.path.abspath(__file__)), "known_helpers.txt")
    out: Set[str] = set()
    with open(path, encoding="utf-8") as fh:
        for line in fh:
            line = line.strip()
            if line and not line.startswith("#"):
                out.add(line)
    return out


class Flattener:
    def __init__(self, db):
        self.db = db
        self.keep = known_helpers()
        self.counter = 0
        self.done: Dict[str, bool] = {}
        self.in_progress: Set[str] = set()
        self.inlined_sites: Dict[str, int] = {}
        self.kept_sites: Dict[str, int] = {}

    # ------------------------------------------------------------------ driver
    def run(self) -> None:
        for c in list(self.db.classes.values()):
            for f in list(c.methods.values()):
                self.flatten_func(f)
        # drop helpers that were inlined everywhere
        for c in self.db.classes.values():
            for name, f in list(c.methods.items()):
                if not _is_private(name):
                    continue
                q = f.qualname
                if self.inlined_sites.get(q, 0) > 0 and self.kept_sites.get(q, 0) == 0 and \
                        not self._referenced_as_value(c, name):
                    del c.methods[name]
                    self.db.functions.pop(q, None)
                    lst = self.db.by_short.get(f.short, [])
                    if f in lst:
                        lst.remove(f)
        for f in self.db.functions.values():
            f._locals = None
            self._relink(f)

    def _referenced_as_value(self, c, name: str) -> bool:
        for g in c.methods.values():
            for n in _walk_no_nested(g.node):
                if isinstance(n, ast.Attribute) and n.attr == name:
                    p = getattr(n, "parent", None)
                    if not (isinstance(p, ast.Call) and p.func is n):
                        return True
        return False

    def _relink(self, f) -> None:
        f.node.finfo = f
        for node in ast.walk(f.node):
            for child in ast.iter_child_nodes(node):
                child.parent = node
                if not hasattr(child, "_mod"):
                    child._mod = f.module
        ast.fix_missing_locations(f.node)

    # ------------------------------------------------------------ one function
    def flatten_func(self, f) -> None:
        if self.done.get(f.qualname):
            return
        if f.qualname in self.in_progress:
            return
        self.in_progress.add(f.qualname)
        try:
            if f.cls is not None:
                f.node.body = self._block(f.node.body, f, tail=True)
                self._relink(f)
        finally:
            self.in_progress.discard(f.qualname)
            self.done[f.qualname] = True

    def _helper_of(self, call: ast.Call, f):
        fn = call.func
        if not isinstance(fn, ast.Attribute) or not _is_private(fn.attr) or f.cls is None:
            return None
        recv = fn.value
        if not (isinstance(recv, ast.Name) and recv.id in ("self", f.cls.name, "cls")):
            return None
        if "%s.%s" % (f.cls.name, fn.attr) in self.keep:
            return None
        h = f.cls.methods.get(fn.attr)
        if h is None or h is f or h.qualname in self.in_progress or h.is_abstract:
            return None
        if any(isinstance(a, ast.Starred) for a in call.args) or any(k.arg is None for k in call.keywords):
            return None
        if any(isinstance(n, (ast.FunctionDef, ast.AsyncFunctionDef, ast.Yield, ast.YieldFrom, ast.Global,
                              ast.Nonlocal)) for n in _walk_no_nested(h.node)):
            return None
        a = h.node.args
        if a.vararg or a.kwarg:
            return None
        self.flatten_func(h)
        if len(h.node.body) > MAX_BODY:
            return None
        return h

    def _bind(self, h, call: ast.Call, f) -> Optional[Tuple[List[ast.stmt], _Subst]]:
        """(pre-statements binding complex arguments, substitution for the body)"""
        self.counter += 1
        tag = "_i%d" % self.counter
        a = h.node.args
        params = [x.arg for x in a.posonlyargs + a.args]
        if h.cls is not None and not h.is_static:
            params = params[1:]
        kwonly = [x.arg for x in a.kwonlyargs]
        defaults = dict(zip(params[len(params) - len(a.defaults):], a.defaults))
        for k, d in zip(kwonly, a.kw_defaults):
            if d is not None:
                defaults[k] = d
        bound: Dict[str, ast.AST] = {}
        for p, arg in zip(params, call.args):
            bound[p] = arg
        if len(call.args) > len(params):
            return None
        for k in call.keywords:
            if k.arg not in params + kwonly:
                return None
            bound[k.arg] = k.value
        for p in params + kwonly:
            if p not in bound:
                if p not in defaults:
                    return None
                bound[p] = defaults[p]
        stored = _stored_names(h.node)
        mapping: Dict[str, ast.AST] = {}
        rename: Dict[str, str] = {}
        pre: List[ast.stmt] = []
        for p, arg in bound.items():
            if _simple(arg) and p not in stored:
                mapping[p] = arg
            else:
                rename[p] = p + tag
                pre.append(ast.copy_location(
                    ast.Assign(targets=[ast.Name(id=p + tag, ctx=ast.Store())], value=clone(arg)), call))
        for nm in stored:
            if nm not in rename:
                rename[nm] = nm + tag
        # comprehension / loop variables of the helper are renamed as stored names above
        return pre, _Subst(mapping, rename)

    def _body_of(self, h, sub: _Subst) -> List[ast.stmt]:
        body = [sub.visit(clone(s)) for s in _strip_doc(h.node.body)]
        return body

    def _expr_body(self, h) -> Optional[ast.AST]:
        body = _strip_doc(h.node.body)
        if len(body) == 1 and isinstance(body[0], ast.Return) and body[0].value is not None:
            return body[0].value
        return None

    # ------------------------------------------------------------- statements
    def _block(self, stmts: List[ast.stmt], f, tail: bool = False) -> List[ast.stmt]:
        out: List[ast.stmt] = []
        for i, s in enumerate(stmts):
            last = tail and i == len(stmts) - 1
            out.extend(self._stmt(s, f, last))
        return out

    def _stmt(self, s: ast.stmt, f, tail: bool) -> List[ast.stmt]:
        if isinstance(s, ast.If):
            pre, s.test = self._hoist_expr(s.test, f, s)
            s.body = self._block(s.body, f, tail) or [ast.Pass()]
            s.orelse = self._block(s.orelse, f, tail)
            return pre + [s]
        if isinstance(s, ast.For):
            un = self._unroll_method_table(s)
            if un is not None:
                return self._block(un, f)
            pre, s.iter = self._hoist_expr(s.iter, f, s)
            s.body = self._block(s.body, f) or [ast.Pass()]
            s.orelse = self._block(s.orelse, f)
            return pre + [s]
        if isinstance(s, ast.While):
            s.body = self._block(s.body, f) or [ast.Pass()]
            s.orelse = self._block(s.orelse, f)
            return [s]
        if isinstance(s, (ast.With, ast.Try, ast.FunctionDef, ast.AsyncFunctionDef, ast.ClassDef)):
            return [s]
        # whole-statement forms
        if isinstance(s, ast.Return) and isinstance(s.value, ast.Call):
            h = self._helper_of(s.value, f)
            if h is not None and self._expr_body(h) is None:
                b = self._bind(h, s.value, f)
                if b is not None:
                    pre, sub = b
                    self._note(h, True)
                    body = self._body_of(h, sub)
                    if not any(isinstance(x, ast.Return) for x in body if not isinstance(x, ast.Return)) \
                            or True:
                        # tail position: the helper's returns are the caller's returns
                        if not always_exits(body):
                            body.append(ast.copy_location(ast.Return(value=ast.Constant(value=None)), s))
                        return pre + body
        if isinstance(s, ast.Expr) and isinstance(s.value, ast.Call):
            h = self._helper_of(s.value, f)
            if h is not None:
                b = self._bind(h, s.value, f)
                if b is not None:
                    pre, sub = b
                    body = _eliminate_returns(self._body_of(h, sub), None)
                    if body is not None:
                        self._note(h, True)
                        return pre + (body or [ast.copy_location(ast.Pass(), s)])
        if isinstance(s, (ast.Assign, ast.AnnAssign)) and isinstance(s.value, ast.Call):
            h = self._helper_of(s.value, f)
            tgt = s.targets[0] if isinstance(s, ast.Assign) and len(s.targets) == 1 else (
                s.target if isinstance(s, ast.AnnAssign) else None)
            if h is not None and self._expr_body(h) is None and isinstance(tgt, ast.Name):
                b = self._bind(h, s.value, f)
                if b is not None:
                    pre, sub = b
                    body = _eliminate_returns(self._body_of(h, sub), tgt.id)
                    if body is not None:
                        self._note(h, True)
                        return pre + body
        # nested calls: hoist
        pre_all: List[ast.stmt] = []
        for fld in ("value", "test", "exc", "msg"):
            v = getattr(s, fld, None)
            if isinstance(v, ast.AST):
                pre, new = self._hoist_expr(v, f, s)
                setattr(s, fld, new)
                pre_all.extend(pre)
        if isinstance(s, ast.Assign):
            for t in s.targets:
                if isinstance(t, ast.Subscript):
                    pre, new = self._hoist_expr(t.slice, f, s)
                    t.slice = new
                    pre_all.extend(pre)
        return pre_all + [s]

    def _unroll_method_table(self, s: ast.For) -> Optional[List[ast.stmt]]:
        """``for build in [self.__a, self.__b]: block.add(build())`` is the straight-line sequence of
        the calls: unroll a loop over a literal list of method references whose variable is only
        ever called."""
        if not (isinstance(s.iter, (ast.List, ast.Tuple)) and 0 < len(s.iter.elts) <= 16 and
                isinstance(s.target, ast.Name) and not s.orelse):
            return None
        if not all(isinstance(e, ast.Attribute) and isinstance(e.value, ast.Name) for e in s.iter.elts):
            return None
        v = s.target.id
        for st in s.body:
            for n in ast.walk(st):
                if isinstance(n, (ast.Break, ast.Continue)):
                    return None
                if isinstance(n, ast.Name) and n.id == v:
                    if not isinstance(n.ctx, ast.Load):
                        return None
        # every use of the variable is the callee of a call
        callee_ids = {id(n.func) for st in s.body for n in ast.walk(st)
                      if isinstance(n, ast.Call) and isinstance(n.func, ast.Name) and n.func.id == v}
        uses = [n for st in s.body for n in ast.walk(st) if isinstance(n, ast.Name) and n.id == v]
        if not uses or any(id(n) not in callee_ids for n in uses):
            return None

        out: List[ast.stmt] = []
        for e in s.iter.elts:
            class R(ast.NodeTransformer):
                def visit_Name(self, node):
                    if node.id == v:
                        return ast.copy_location(_clone(e), node)
                    return node
            for st in s.body:
                out.append(R().visit(_clone(st)))
        return out

    def _note(self, h, inlined: bool) -> None:
        d = self.inlined_sites if inlined else self.kept_sites
        d[h.qualname] = d.get(h.qualname, 0) + 1

    def _hoist_expr(self, e: ast.AST, f, at: ast.stmt) -> Tuple[List[ast.stmt], ast.AST]:
        """Inline helper calls inside expression e; returns (pre-statements, new e)."""
        pre: List[ast.stmt] = []
        flat = self

        class T(ast.NodeTransformer):
            def visit_Lambda(self, node):
                return node

            def _comp(self, node):
                # only the outermost iterable is evaluated once; leave the rest
                if node.generators:
                    node.generators[0].iter = self.visit(node.generators[0].iter)
                for n in ast.walk(node):
                    pass
                return node
            visit_ListComp = visit_SetComp = visit_DictComp = visit_GeneratorExp = _comp

            def visit_IfExp(self, node):
                node.test = self.visit(node.test)
                return node       # branches are conditional: do not hoist out of them

            def visit_BoolOp(self, node):
                if node.values:
                    node.values[0] = self.visit(node.values[0])
                # later operands are conditional: only expression-bodied helpers are substituted
                for i in range(1, len(node.values)):
                    node.values[i] = _ExprOnly(flat, f).visit(node.values[i])
                return node

            def visit_Call(self, node):
                self.generic_visit(node)
                h = flat._helper_of(node, f)
                if h is None:
                    return node
                b = flat._bind(h, node, f)
                if b is None:
                    flat._note(h, False)
                    return node
                p, sub = b
                eb = flat._expr_body(h)
                if eb is not None and not p:
                    flat._note(h, True)
                    return sub.visit(clone(eb))
                flat.counter += 1
                tmp = "%s_r%d" % (h.name.lstrip("_"), flat.counter)
                body = _eliminate_returns(flat._body_of(h, sub), tmp)
                if body is None:
                    flat._note(h, False)
                    return node
                flat._note(h, True)
                pre.extend(p)
                pre.extend(body)
                return ast.copy_location(ast.Name(id=tmp, ctx=ast.Load()), node)
        new = T().visit(e)
        # helper calls that stayed (inside lambdas / comprehension elements) are kept sites
        for n in ast.walk(new):
            if isinstance(n, ast.Call):
                fn = n.func
                if isinstance(fn, ast.Attribute) and _is_private(fn.attr) and f.cls is not None and \
                        fn.attr in f.cls.methods and isinstance(fn.value, ast.Name) and \
                        fn.value.id in ("self", f.cls.name, "cls"):
                    self._note(f.cls.methods[fn.attr], False)
        return pre, new


class _ExprOnly(ast.NodeTransformer):
    """Substitute only expression-bodied helpers (safe in conditional positions)."""

    def __init__(self, flat: Flattener, f):
        self.flat = flat
        self.f = f

    def visit_Lambda(self, node):
        return node

    def visit_Call(self, node):
        self.generic_visit(node)
        h = self.flat._helper_of(node, self.f)
        if h is None:
            return node
        eb = self.flat._expr_body(h)
        if eb is None:
            return node
        b = self.flat._bind(h, node, self.f)
        if b is None or b[0]:
            return node
        self.flat._note(h, True)
        return b[1].visit(clone(eb))
