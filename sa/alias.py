"""
Alias-depth ("freshness") analysis for C15 (DESIGN.md 2.7).

Every value carries a depth d in 0..INF: the object and d-1 levels of
containers below it were created by the compiler; whatever lies at depth >= d
may be (part of) one of the five parsed input objects.  d = 0 means the value
itself may be owned by a parser object; mutating it in place mutates the
caller's input.

Flow-insensitive, field-based, interprocedural; tables only decrease, so the
fixed point exists.  Receiver classes come from the annotation-driven typer.
"""

from __future__ import annotations

import ast
from typing import Dict, List, Optional, Set, Tuple

from sa import paths
from sa.db import DB, ClassInfo, FuncInfo, norm, walk_no_nested

INF = 9
P5 = {"teaal.parse.einsum.Einsum", "teaal.parse.mapping.Mapping", "teaal.parse.arch.Architecture",
      "teaal.parse.bindings.Bindings", "teaal.parse.format.Format"}
IMMUTABLE = {"str", "int", "bool", "float", "none"}
COPY_FUNCS = {"list", "dict", "set", "sorted", "tuple", "frozenset", "reversed"}
VIEW_METHODS = {"items", "values", "keys"}


class AliasDepth:
    def __init__(self, db: DB, scope=("teaal.ir.", "teaal.trans.", "teaal.parse.")):
        self.db = db
        self.funcs = [f for f in db.functions.values() if f.module.name.startswith(scope)]
        self.F: Dict[Tuple[str, str], int] = {}
        self.L: Dict[Tuple[str, str], int] = {}
        self.R: Dict[str, int] = {}
        self.P: Dict[Tuple[str, int], int] = {}
        self.changed = False
        self.iterations = 0
        self.sources: Set[str] = set()
        self._solve()

    # ---------------------------------------------------------------- tables
    def _low(self, table: dict, key, d: int) -> None:
        d = max(0, min(INF, d))
        if table.get(key, INF) > d:
            table[key] = d
            self.changed = True

    def fkey(self, c: ClassInfo, attr: str) -> Tuple[str, str]:
        return (c.mro()[-1].qualname, attr)

    def is_immutable(self, e: ast.AST, f: FuncInfo) -> bool:
        t = self.db.type_of(e, f)
        return bool(t) and t[0] in IMMUTABLE

    # ------------------------------------------------------------ expression
    def D(self, e: Optional[ast.AST], f: FuncInfo) -> int:
        if e is None:
            return INF
        if isinstance(e, ast.Constant):
            return INF
        if isinstance(e, (ast.JoinedStr, ast.Compare, ast.BoolOp, ast.Lambda)):
            return INF
        if isinstance(e, ast.UnaryOp):
            return INF
        if isinstance(e, ast.Name):
            if self.is_immutable(e, f):
                return INF
            if e.id in f.params:
                idx = f.params.index(e.id)
                if e.id == "self" and f.cls is not None and not f.is_static:
                    return 0 if f.cls.qualname in P5 else INF
                pt = self.db.param_types(f).get(e.id, ("any",))
                if pt[0] in IMMUTABLE:
                    return INF
                if pt[0] == "cls" and pt[1] in P5:
                    return 0
                base = self.P.get((f.qualname, idx), INF)
                # a parameter re-assigned in the body
                return min(base, self.L.get((f.qualname, e.id), INF))
            if (f.qualname, e.id) in self.L:
                return self.L[(f.qualname, e.id)]
            if f.outer is not None:
                return self.D(e, f.outer) if e.id in self._locals_of(f.outer) else INF
            return INF
        if isinstance(e, ast.Attribute):
            if self.is_immutable(e, f):
                return INF
            bt = self.db.type_of(e.value, f)
            if bt and bt[0] == "cls":
                c = self.db.classes.get(bt[1])
                if c is not None:
                    if c.qualname in P5:
                        self.sources.add("%s.%s" % (c.name, e.attr))
                        return 0
                    nm = f.cls.mangle(e.attr) if f.cls is not None else e.attr
                    return self.F.get(self.fkey(c, nm), INF)
            # attribute of an external / unknown object: interior of the base
            return max(0, self.D(e.value, f) - 0) if self.D(e.value, f) < INF else INF
        if isinstance(e, ast.Subscript):
            if self.is_immutable(e, f):
                return INF
            d = self.D(e.value, f)
            if isinstance(e.slice, ast.Slice):
                return max(d, 1)
            return INF if d >= INF else max(0, d - 1)
        if isinstance(e, (ast.List, ast.Tuple, ast.Set)):
            ds = [self.D(x.value if isinstance(x, ast.Starred) else x, f) for x in e.elts]
            m = min(ds) if ds else INF
            return min(INF, 1 + m)
        if isinstance(e, ast.Dict):
            ds = [self.D(v, f) for v in e.values]
            # {**a, **b}: keys None -> merged dict: fresh top, values from a/b below
            m = INF
            for k, v in zip(e.keys, e.values):
                dv = self.D(v, f)
                m = min(m, dv if k is not None else max(0, dv - 1) if dv < INF else INF)
            return min(INF, 1 + m)
        if isinstance(e, (ast.ListComp, ast.SetComp, ast.GeneratorExp)):
            self._bind_comp(e.generators, f)
            return min(INF, 1 + self.D(e.elt, f))
        if isinstance(e, ast.DictComp):
            self._bind_comp(e.generators, f)
            return min(INF, 1 + self.D(e.value, f))
        if isinstance(e, ast.IfExp):
            return min(self.D(e.body, f), self.D(e.orelse, f))
        if isinstance(e, ast.BinOp):
            if isinstance(e.op, (ast.Add, ast.BitOr, ast.BitAnd, ast.Sub)):
                dl, dr = self.D(e.left, f), self.D(e.right, f)
                m = min(dl, dr)
                return INF if m >= INF else max(m, 1)
            return INF
        if isinstance(e, ast.Starred):
            return self.D(e.value, f)
        if isinstance(e, ast.Call):
            return self.call(e, f)
        return INF

    def _locals_of(self, f: FuncInfo) -> Set[str]:
        return {k[1] for k in self.L if k[0] == f.qualname} | set(f.params)

    def _bind_comp(self, gens, f: FuncInfo) -> None:
        for g in gens:
            self.bind_iter(g.target, g.iter, f)

    def call(self, e: ast.Call, f: FuncInfo) -> int:
        fn = e.func
        if isinstance(fn, ast.Name):
            nm = fn.id
            if nm in ("deepcopy",):
                return INF
            if nm in COPY_FUNCS or nm == "copy":
                if not e.args:
                    return INF
                d = self.D(e.args[0], f)
                return INF if d >= INF else max(d, 1)
            if nm == "cast" and len(e.args) == 2:
                return self.D(e.args[1], f)
            if nm in ("next", "min", "max") and e.args:
                d = self.D(e.args[0], f)
                return INF if d >= INF else max(0, d - 1)
            if nm in ("iter", "enumerate", "zip", "chain"):
                ds = [self.D(a, f) for a in e.args]
                return min(ds) if ds else INF
            if nm in ("len", "str", "int", "float", "bool", "repr", "isinstance", "any", "all", "type",
                      "hash", "range", "print", "sum", "abs"):
                return INF
        if isinstance(fn, ast.Attribute):
            a = fn.attr
            if a == "copy" and not e.args:
                d = self.D(fn.value, f)
                return INF if d >= INF else max(d, 1)
            bt = self.db.type_of(fn.value, f)
            builtin_recv = not bt or bt[0] in ("list", "dict", "set", "any", "tuple", "iter", "ext", "union")
            if builtin_recv or a in VIEW_METHODS:
                if a in VIEW_METHODS and (not bt or bt[0] != "cls"):
                    return self.D(fn.value, f)
                if a in ("get", "pop", "setdefault", "popitem") and (not bt or bt[0] != "cls"):
                    d = self.D(fn.value, f)
                    return INF if d >= INF else max(0, d - 1)
                if a in ("union", "intersection", "difference") and (not bt or bt[0] != "cls"):
                    d = self.D(fn.value, f)
                    return INF if d >= INF else max(d, 1)
        gs = self.db.resolve_call(e, f, with_subclasses=True)
        if gs:
            out = INF
            for g in gs:
                self.pass_args(e, g, f)
                if g.name == "__init__":
                    continue     # constructor call: a fresh object
                if self.db.return_type(g)[0] in IMMUTABLE:
                    continue
                out = min(out, self.R.get(g.qualname, INF))
            if self.is_immutable(e, f):
                return INF
            return out
        # unresolved method on an external / unknown object: may expose its interior
        if isinstance(fn, ast.Attribute):
            if self.is_immutable(e, f):
                return INF
            bt = self.db.type_of(fn.value, f)
            if bt and bt[0] in ("ext", "any"):
                d = self.D(fn.value, f)
                if fn.attr in ("find_data", "scan_values", "iter_subtrees", "children"):
                    return d
                return INF if d >= INF else d
        return INF

    def pass_args(self, call: ast.Call, g: FuncInfo, f: FuncInfo) -> None:
        off = 1 if (g.cls is not None and not g.is_static) else 0
        for i, a in enumerate(call.args):
            if isinstance(a, ast.Starred):
                continue
            if i + off < len(g.params):
                self._low(self.P, (g.qualname, i + off), self.D(a, f))
        for kw in call.keywords:
            if kw.arg in g.params:
                self._low(self.P, (g.qualname, g.params.index(kw.arg)), self.D(kw.value, f))

    # ------------------------------------------------------------ statements
    def bind(self, tgt: ast.AST, d: int, f: FuncInfo) -> None:
        if isinstance(tgt, ast.Name):
            self._low(self.L, (f.qualname, tgt.id), d)
        elif isinstance(tgt, (ast.Tuple, ast.List)):
            for x in tgt.elts:
                self.bind(x, INF if d >= INF else max(0, d - 1), f)
        elif isinstance(tgt, ast.Starred):
            self.bind(tgt.value, d, f)
        elif isinstance(tgt, ast.Attribute):
            bt = self.db.type_of(tgt.value, f)
            if bt and bt[0] == "cls":
                c = self.db.classes.get(bt[1])
                if c is not None:
                    nm = f.cls.mangle(tgt.attr) if f.cls is not None else tgt.attr
                    self._low(self.F, self.fkey(c, nm), d)
        elif isinstance(tgt, ast.Subscript):
            # x[k] = v: weak update of the root
            self.weak_update(tgt.value, d, f)

    def weak_update(self, container: ast.AST, d_elem: int, f: FuncInfo) -> None:
        """container receives an element of depth d_elem."""
        levels = 1
        root = container
        while isinstance(root, ast.Subscript):
            root = root.value
            levels += 1
        new = min(INF, levels + d_elem)
        if isinstance(root, ast.Name):
            if root.id in f.params:
                # also visible through the parameter: remember on the local table
                self._low(self.L, (f.qualname, root.id), new)
            else:
                self._low(self.L, (f.qualname, root.id), new)
        elif isinstance(root, ast.Attribute):
            self.bind(root, new, f)

    def bind_iter(self, tgt: ast.AST, it: ast.AST, f: FuncInfo) -> None:
        # for k, v in x.items(): v is an element, k immutable-ish
        if isinstance(it, ast.Call) and isinstance(it.func, ast.Attribute) and it.func.attr == "items" and \
                isinstance(tgt, ast.Tuple) and len(tgt.elts) == 2:
            d = self.D(it.func.value, f)
            self.bind(tgt.elts[0], INF, f)
            self.bind(tgt.elts[1], INF if d >= INF else max(0, d - 1), f)
            return
        if isinstance(it, ast.Call) and isinstance(it.func, ast.Name) and it.func.id == "enumerate" and \
                isinstance(tgt, ast.Tuple) and len(tgt.elts) == 2 and it.args:
            d = self.D(it.args[0], f)
            self.bind(tgt.elts[0], INF, f)
            self.bind(tgt.elts[1], INF if d >= INF else max(0, d - 1), f)
            return
        if isinstance(it, ast.Call) and isinstance(it.func, ast.Name) and it.func.id == "zip" and \
                isinstance(tgt, ast.Tuple) and len(tgt.elts) == len(it.args):
            for x, a in zip(tgt.elts, it.args):
                d = self.D(a, f)
                self.bind(x, INF if d >= INF else max(0, d - 1), f)
            return
        # iterating a dictionary yields its keys, which are hashable (immutable)
        bt = self.db.type_of(it, f)
        if bt and bt[0] == "dict":
            self.bind(tgt, INF, f)
            return
        d = self.D(it, f)
        self.bind(tgt, INF if d >= INF else max(0, d - 1), f)

    def _solve(self) -> None:
        for it in range(40):
            self.changed = False
            self.iterations = it + 1
            for f in self.funcs:
                self._func(f)
            if not self.changed:
                break

    def _func(self, f: FuncInfo) -> None:
        for n in walk_no_nested(f.node):
            if isinstance(n, ast.Assign):
                d = self.D(n.value, f)
                for t in n.targets:
                    if isinstance(t, (ast.Tuple, ast.List)) and isinstance(n.value, (ast.Tuple, ast.List)) \
                            and len(t.elts) == len(n.value.elts):
                        for x, v in zip(t.elts, n.value.elts):
                            self.bind(x, self.D(v, f), f)
                    else:
                        self.bind(t, d, f)
            elif isinstance(n, ast.AnnAssign) and n.value is not None:
                self.bind(n.target, self.D(n.value, f), f)
            elif isinstance(n, ast.AugAssign):
                d = self.D(n.value, f)
                if isinstance(n.target, ast.Subscript):
                    self.weak_update(n.target.value, d, f)
                else:
                    self.bind(n.target, INF if d >= INF else max(d, 0), f)
            elif isinstance(n, ast.For):
                self.bind_iter(n.target, n.iter, f)
            elif isinstance(n, ast.Return) and n.value is not None:
                self._low(self.R, f.qualname, self.D(n.value, f))
            elif isinstance(n, ast.Call):
                self.D(n, f)     # propagates arguments
                if isinstance(n.func, ast.Attribute) and n.func.attr in ("append", "add", "insert", "extend",
                                                                          "update", "setdefault"):
                    bt = self.db.type_of(n.func.value, f)
                    if bt and bt[0] == "cls":
                        continue
                    args = n.args[-1:] if n.func.attr in ("insert", "setdefault") else n.args[:1]
                    for a in args:
                        d = self.D(a, f)
                        if n.func.attr in ("extend", "update"):
                            d = INF if d >= INF else max(0, d - 1)
                        self.weak_update(n.func.value, d, f)
            elif isinstance(n, (ast.ListComp, ast.SetComp, ast.GeneratorExp, ast.DictComp)):
                self._bind_comp(n.generators, f)

    # ----------------------------------------------------------------- sinks
    def sinks(self) -> List[Dict[str, object]]:
        """In-place mutations whose target may be owned by a parser object."""
        out = []
        n_sites = 0
        for f in self.funcs:
            if f.cls is not None and f.cls.qualname in P5 and f.name == "__init__":
                continue
            for n in walk_no_nested(f.node):
                targets: List[Tuple[ast.AST, str]] = []
                if isinstance(n, (ast.Assign, ast.AugAssign, ast.Delete, ast.AnnAssign)):
                    ts = n.targets if isinstance(n, (ast.Assign, ast.Delete)) else [n.target]
                    flat = []
                    for t in ts:
                        flat.extend(t.elts if isinstance(t, (ast.Tuple, ast.List)) else [t])
                    for t in flat:
                        if isinstance(t, ast.Subscript):
                            targets.append((t.value, "store through subscript"))
                        elif isinstance(t, ast.Attribute) and not (isinstance(t.value, ast.Name) and
                                                                    t.value.id in ("self", "cls")):
                            bt = self.db.type_of(t.value, f)
                            if bt and bt[0] == "cls" and bt[1] not in P5:
                                continue    # attribute of a compiler-owned object
                            targets.append((t.value, "attribute store"))
                if isinstance(n, ast.AugAssign) and isinstance(n.target, (ast.Name, ast.Attribute)):
                    # x += [...] / x |= {...} on a list, set or dict extends the object in place:
                    # every other holder of that object sees the change
                    tt = self.db.type_of(n.target, f)
                    vt = self.db.type_of(n.value, f)
                    if any(t_ and t_[0] in ("list", "set", "dict") for t_ in (tt, vt)) or \
                            isinstance(n.value, (ast.List, ast.Set, ast.Dict, ast.ListComp, ast.SetComp,
                                                 ast.DictComp)):
                        targets.append((n.target, "augmented assignment (in place)"))
                elif isinstance(n, ast.Call) and isinstance(n.func, ast.Attribute) and \
                        n.func.attr in paths.MUTATORS:
                    bt = self.db.type_of(n.func.value, f)
                    if bt and bt[0] == "cls":
                        continue
                    if bt and bt[0] in IMMUTABLE:
                        continue
                    targets.append((n.func.value, "%s()" % n.func.attr))
                for tgt, kind in targets:
                    n_sites += 1
                    d = self.D(tgt, f)
                    if d == 0:
                        out.append({"func": f, "node": n, "target": tgt, "kind": kind})
        self.n_mutation_sites = n_sites
        return out
