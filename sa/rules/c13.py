"""
C13 - fusion blocks are a legal, ordered partition of the Einsums.

Decided: the ``Fusion.add_einsum`` state machine is well-formed for every
history of calls (DESIGN.md section 3, C13: rules S1-S6).
Not decided: that the temporal prefix / component set computed for one Einsum
is the right one (data).
"""

from __future__ import annotations

import ast
from typing import Dict, List, Optional, Set, Tuple

from sa import paths
from sa.db import DB, AnalysisError, norm, walk_no_nested
from sa.report import Report

FUSION = "teaal.ir.fusion.Fusion"

# reviewed exemption (by class name, with reason)
S8_EXEMPT: Dict[str, str] = {
    # (MergerComponent was exempted here until finding F13 made it a FunctionalComponent)
}


def _is_self_attr(e: ast.AST, attr: Optional[str] = None) -> bool:
    return isinstance(e, ast.Attribute) and isinstance(e.value, ast.Name) and \
        e.value.id == "self" and (attr is None or e.attr == attr)


def _append_call(n: ast.AST, field: str) -> bool:
    return isinstance(n, ast.Call) and isinstance(n.func, ast.Attribute) and \
        n.func.attr == "append" and _is_self_attr(n.func.value, field)


def _find_fields(db: DB):
    """The list-of-lists field (blocks) and its alias into the last block."""
    c = db.cls(FUSION)
    getter = c.methods.get("get_blocks")
    if getter is None:
        raise AnalysisError("Fusion.get_blocks not found")
    rets = [n for n in walk_no_nested(getter.node) if isinstance(n, ast.Return)]
    if len(rets) != 1 or not _is_self_attr(rets[0].value):
        raise AnalysisError("Fusion.get_blocks does not return a field")
    return rets[0].value.attr


def run(db: DB, rep: Report) -> None:
    rep.explanation = (
        "Static analysis of teaal/ir/fusion.py Fusion.add_einsum as a state machine, for all "
        "call histories: the block-extension decision reads three state fields, each paired with "
        "the value computed for the incoming Einsum from hardware.get_config / loop order + "
        "spacetime / hardware.get_components (provenance by intra-procedural backward slice); "
        "opening a block re-initialises every such field from its paired value; extending "
        "accumulates the component set; every non-raising path appends the Einsum exactly once "
        "(path enumeration); the block lists are only ever appended to anywhere in teaal/; "
        "HiFiber.__translate feeds each Einsum once, under the guard that builds Metrics.")
    rep.trusted += ["annotation-driven receiver typing of sa/db.py", "Python evaluation order"]
    rep.assumptions += [
        "hardware.get_components / get_config / LoopOrder.get_ranks / SpaceTime.get_space return "
        "what their names say (data, not decided here)"]

    c = db.cls(FUSION)
    f = c.methods.get("add_einsum")
    if f is None:
        raise AnalysisError("Fusion.add_einsum not found")
    fn = f.node
    where = lambda n: db.loc(n)
    blocks = _find_fields(db)

    # ---- locate the decision -------------------------------------------------
    rep.rule("S0", "the extend/open decision of Fusion.add_einsum is found", 1)
    decision = None
    for n in walk_no_nested(fn):
        if not isinstance(n, ast.If):
            continue
        b_open = [x for s in n.body for x in ast.walk(s) if _append_call(x, blocks)]
        o_open = [x for s in n.orelse for x in ast.walk(s) if _append_call(x, blocks)]
        if bool(b_open) != bool(o_open):
            decision = (n, n.orelse if o_open else n.body, n.body if o_open else n.orelse,
                        not bool(b_open))
    if decision is None:
        raise AnalysisError("no if-statement in Fusion.add_einsum opens a block on exactly one side")
    dnode, open_br, ext_br, ext_polarity = decision
    rep.instance("S0", where(dnode), "decision: " + norm(dnode.test))

    # alias field: assigned self.<blocks>[-1] in the opening branch, or assigned the new
    # one-element list that is then appended to self.<blocks>
    curr = None
    for s in open_br:
        for n in ast.walk(s):
            if isinstance(n, ast.Assign) and len(n.targets) == 1 and _is_self_attr(n.targets[0]) \
                    and isinstance(n.value, ast.Subscript) and _is_self_attr(n.value.value, blocks):
                idx = n.value.slice
                if isinstance(idx, ast.UnaryOp) and isinstance(idx.op, ast.USub) and \
                        isinstance(idx.operand, ast.Constant) and idx.operand.value == 1:
                    curr = n.targets[0].attr
            if isinstance(n, ast.Assign) and len(n.targets) == 1 and _is_self_attr(n.targets[0]) \
                    and isinstance(n.value, ast.List) and len(n.value.elts) == 1:
                cand = n.targets[0].attr
                if any(_append_call(x, blocks) and x.args and _is_self_attr(x.args[0], cand)
                       for s2 in open_br for x in ast.walk(s2)):
                    curr = cand

    # ---- S1: the decision reads three conditions, each pairing state with incoming value
    rep.rule("S1", "decision pairs each state field with the incoming Einsum's value "
             "(config, temporal prefix, component set)", 3)
    atoms = paths.expand_atoms(dnode.test, ext_polarity, fn)
    pairs: List[Tuple[str, str, str]] = []   # (kind, field, local)
    kinds_found: Dict[str, Tuple[str, str]] = {}
    for atom, pol in atoms:
        fields = sorted(paths.self_attrs(atom))
        locs = sorted(x for x in paths.load_names(atom) if x != "self")
        if len(fields) != 1 or len(locs) != 1:
            continue
        field, local = fields[0], locs[0]
        _, exprs = paths.backward_slice(fn, [local], with_control=False)
        calls = paths.called_names(exprs)
        kind = None
        if "get_config" in calls:
            kind = "config"
        elif "get_components" in calls:
            kind = "components"
        elif "get_loop_order" in calls or "get_space" in calls or "get_spacetime" in calls:
            kind = "ranks"
        if kind is None and isinstance(atom, ast.Call) and isinstance(atom.func, ast.Attribute) and \
                atom.func.attr in ("intersection", "isdisjoint"):
            kind = "components"
        if kind is None:
            continue
        # operator shape: equality for config/ranks, disjointness for components
        ok_shape = False
        if kind in ("config", "ranks"):
            ok_shape = isinstance(atom, ast.Compare) and len(atom.ops) == 1 and (
                (pol and isinstance(atom.ops[0], ast.Eq)) or
                (not pol and isinstance(atom.ops[0], ast.NotEq)))
        else:
            if isinstance(atom, ast.Call) and isinstance(atom.func, ast.Attribute):
                if atom.func.attr == "intersection" and not pol:
                    ok_shape = True
                if atom.func.attr == "isdisjoint" and pol:
                    ok_shape = True
            if isinstance(atom, ast.BinOp) and isinstance(atom.op, ast.BitAnd) and not pol:
                ok_shape = True
        rep.check("S1", ok_shape, where(atom), f.short, norm(atom),
                  "%s condition: %s%s" % (kind, "" if pol else "not ", norm(atom)),
                  "the %s condition of the fusion decision does not have the form "
                  "'equal' / 'disjoint' for the extending branch" % kind)
        kinds_found[kind] = (field, local)
        pairs.append((kind, field, local))
    for kind in ("config", "ranks", "components"):
        if kind not in kinds_found:
            rep.check("S1", False, where(dnode), f.short, "missing:" + kind,
                      "decision lacks the %s condition" % kind,
                      "the fusion decision does not compare the block's %s with the incoming "
                      "Einsum's (test: %s)" % (kind, norm(dnode.test)))

    # ---- S2: opening re-initialises every field the decision reads from its pair
    rep.rule("S2", "opening a block assigns every decision field its paired incoming value", 3)
    for kind, field, local in pairs:
        assigned = None
        for s in open_br:
            for n in ast.walk(s):
                if isinstance(n, ast.Assign) and any(_is_self_attr(t, field) for t in n.targets):
                    assigned = n
        ok = False
        if assigned is not None:
            v = assigned.value
            # the paired local itself, or a copy of it
            if isinstance(v, ast.Name) and v.id == local:
                ok = True
            elif isinstance(v, ast.Call) and local in paths.load_names(v) and (
                    (isinstance(v.func, ast.Attribute) and v.func.attr == "copy") or
                    (isinstance(v.func, ast.Name) and v.func.id in ("set", "list", "deepcopy", "copy"))):
                ok = True
        rep.check("S2", ok, where(assigned or dnode), f.short, "open:self.%s<-%s" % (field, local),
                  "open: self.%s = %s" % (field, local),
                  "when a fusion block is opened, self.%s (read by the decision, %s condition) is %s; "
                  "the first Einsum of the block would be compared against stale state" %
                  (field, kind, "not assigned from '%s'" % local if assigned is not None
                   else "not assigned at all"))

    # ---- S3: extension accumulates the component set
    rep.rule("S3", "extending a block accumulates the component set (old and incoming)", 1)
    if "components" in kinds_found:
        field, local = kinds_found["components"]
        ok = False
        site = dnode
        for s in ext_br:
            for n in ast.walk(s):
                if isinstance(n, ast.Assign) and any(_is_self_attr(t, field) for t in n.targets):
                    site = n
                    reads_old = field in paths.self_attrs(n.value)
                    reads_new = local in paths.load_names(n.value)
                    union = any(isinstance(x, ast.Call) and isinstance(x.func, ast.Attribute)
                                and x.func.attr == "union" for x in ast.walk(n.value)) or \
                        any(isinstance(x, ast.BinOp) and isinstance(x.op, ast.BitOr)
                            for x in ast.walk(n.value))
                    ok = reads_old and reads_new and union
                elif isinstance(n, ast.AugAssign) and _is_self_attr(n.target, field) and \
                        isinstance(n.op, ast.BitOr) and local in paths.load_names(n.value):
                    site, ok = n, True
                elif isinstance(n, ast.Call) and isinstance(n.func, ast.Attribute) and \
                        n.func.attr == "update" and _is_self_attr(n.func.value, field) and \
                        n.args and local in paths.load_names(n.args[0]):
                    site, ok = n, True
        rep.check("S3", ok, where(site), f.short, "extend:self.%s|=%s" % (field, local),
                  "extend: self.%s accumulates %s" % (field, local),
                  "when a block is extended, self.%s is not updated to the union of its old value "
                  "and the incoming Einsum's components" % field)

    # ---- S4: exactly one append per path, rebinding, append-only
    rep.rule("S4", "every non-raising path appends the Einsum exactly once; alias rebinding; "
             "block lists are append-only in all of teaal/", 3)
    einsum_locals = set()
    for n in walk_no_nested(fn):
        if isinstance(n, ast.Assign) and len(n.targets) == 1 and isinstance(n.targets[0], ast.Name):
            if "root_name" in paths.called_names([n.value]) and "get_output" in paths.called_names([n.value]):
                einsum_locals.add(n.targets[0].id)

    def one_einsum_list(a) -> bool:
        return isinstance(a, ast.List) and len(a.elts) == 1 and \
            isinstance(a.elts[0], ast.Name) and a.elts[0].id in einsum_locals

    def is_app(n: ast.AST) -> bool:
        if _append_call(n, blocks):
            a = n.args[0] if n.args else None
            if one_einsum_list(a):
                return True
            # self.blocks.append(self.<alias>) with self.<alias> = [einsum] just before
            if curr is not None and _is_self_attr(a, curr):
                return any(isinstance(x, ast.Assign) and _is_self_attr(x.targets[0], curr) and
                           one_einsum_list(x.value) for s2 in open_br for x in ast.walk(s2))
            return False
        if curr is not None and _append_call(n, curr):
            a = n.args[0] if n.args else None
            return isinstance(a, ast.Name) and a.id in einsum_locals
        return False

    outcomes = paths.path_counts(fn.body, paths.make_pred(is_app))
    for cnt, kind in sorted(outcomes):
        if kind == paths.RAISE:
            continue
        rep.check("S4", cnt == 1, where(fn), f.short, "paths:append-count=%d,%s" % (cnt, kind),
                  "path leaving by %s appends the Einsum %s time(s)" % (kind, {0: "0", 1: "1", 2: ">1"}[cnt]),
                  "a path through Fusion.add_einsum that leaves by '%s' appends the Einsum %s times; "
                  "every Einsum must be listed exactly once" % (kind, {0: "zero", 1: "one", 2: "several"}[cnt]))
    rep.check("S4", curr is not None, where(dnode), f.short, "open:rebind-current-block",
              "opening rebinds the current-block alias to %s[-1]" % blocks,
              "the branch that opens a block does not rebind the current-block alias to the new "
              "last block, so later Einsums would be appended to the previous block")
    # append-only, everywhere
    bad_mut = []
    n_sites = 0
    for g in db.functions.values():
        for n in walk_no_nested(g.node):
            tgt = None
            kind = None
            if isinstance(n, ast.Call) and isinstance(n.func, ast.Attribute) and \
                    n.func.attr in paths.MUTATORS:
                tgt, kind = n.func.value, n.func.attr
            elif isinstance(n, (ast.Assign, ast.AugAssign, ast.Delete)):
                ts = n.targets if isinstance(n, (ast.Assign, ast.Delete)) else [n.target]
                for t in ts:
                    if isinstance(t, ast.Subscript):
                        tgt, kind = t.value, "subscript-store"
            if tgt is None:
                continue
            base = tgt
            while isinstance(base, ast.Subscript):
                base = base.value
            is_blocks = False
            if g.cls is c and isinstance(base, ast.Attribute) and _is_self_attr(base) and \
                    base.attr in (blocks, curr):
                is_blocks = True
            if isinstance(base, ast.Call) and isinstance(base.func, ast.Attribute) and \
                    base.func.attr == "get_blocks":
                is_blocks = True
            if isinstance(base, ast.Name):
                # local bound to get_blocks()
                for st, val in paths.defs_of(g.node, base.id):
                    if val is not None and any(
                            isinstance(x, ast.Call) and isinstance(x.func, ast.Attribute)
                            and x.func.attr == "get_blocks" for x in ast.walk(val)):
                        is_blocks = True
            if not is_blocks:
                continue
            n_sites += 1
            okm = kind == "append" and base is tgt
            rep.check("S4", okm, where(n), g.short, norm(n),
                      "mutation of block list: " + norm(n),
                      "the fusion block lists are mutated by something other than append "
                      "(order or membership of earlier blocks can change)")
    # also: the fields are re-assigned only in __init__ / the opening branch
    for g in c.methods.values():
        for n in walk_no_nested(g.node):
            if isinstance(n, ast.Assign) and any(_is_self_attr(t, blocks) for t in n.targets):
                rep.check("S4", g.name == "__init__", where(n), g.short, norm(n),
                          "assignment of self.%s in %s" % (blocks, g.name),
                          "the list of blocks is re-assigned outside the constructor; "
                          "earlier blocks would be lost")

    # ---- S6: the incoming component set is real
    rep.rule("S6", "the incoming component set is filled with get_name() of "
             "hardware.get_components(einsum, FunctionalComponent)", 1)
    if "components" in kinds_found:
        _, local = kinds_found["components"]
        names, exprs = paths.backward_slice(fn, [local])
        src_ok = False
        for e in exprs:
            for x in ast.walk(e):
                if isinstance(x, ast.Call) and isinstance(x.func, ast.Attribute) and \
                        x.func.attr == "get_components" and len(x.args) >= 2 and \
                        norm(x.args[1]) == "FunctionalComponent" and \
                        isinstance(x.args[0], ast.Name) and x.args[0].id in einsum_locals:
                    src_ok = True
        fill_ok = False
        for st, val in paths.defs_of(fn, local):
            if val is None:
                continue
            if "get_name" in paths.called_names([val]):
                # the receiver of get_name must iterate the get_components result
                for x in ast.walk(val):
                    if isinstance(x, ast.Call) and isinstance(x.func, ast.Attribute) and \
                            x.func.attr == "get_name" and isinstance(x.func.value, ast.Name):
                        _, ex2 = paths.backward_slice(fn, [x.func.value.id], with_control=False)
                        if "get_components" in paths.called_names(ex2):
                            fill_ok = True
        rep.check("S6", src_ok and fill_ok, where(fn), f.short, "incoming-components:" + local,
                  "'%s' receives get_name() of get_components(einsum, FunctionalComponent)" % local,
                  "the set compared with the block's used components is not filled with the names "
                  "of the functional components bound in the incoming Einsum (source ok: %s, "
                  "filled: %s); the component condition would hold vacuously" % (src_ok, fill_ok))

        # the fill is decided per component, from that component's bindings for this Einsum
        fills = [x for x in walk_no_nested(fn) if isinstance(x, ast.Call) and isinstance(x.func, ast.Attribute)
                 and x.func.attr in ("add", "append", "update") and isinstance(x.func.value, ast.Name) and
                 x.func.value.id == local]
        for fl in fills:
            lp = next((p_ for p_ in paths.parents(fl, fn) if isinstance(p_, ast.For)), None)
            if lp is None:
                continue
            lvars = {x.id for x in ast.walk(lp.target) if isinstance(x, ast.Name)}
            for t, pol in paths.guards(fl, stop=lp):
                for a, p_ in paths.conjuncts(t, pol):
                    dep = bool(paths.load_names(a) & lvars)
                    if not dep:
                        # one step through locals of the iteration
                        nms, _ = paths.backward_slice(fn, sorted(paths.load_names(a)), with_control=False)
                        dep = bool(nms & lvars)
                    const = isinstance(a, ast.Constant)
                    if const and bool(a.value) == p_:
                        continue        # always true: as good as no guard ("only if" allows over-splitting)
                    rep.check("S6", dep, where(fl), f.short, "fill-guard:" + norm(a)[:50],
                              "the component is counted under %s%s, a fact about that component" %
                              ("" if p_ else "not ", norm(a)[:40]),
                              "whether a functional component counts as used by the incoming Einsum is decided "
                              "by '%s', which does not depend on the component: the set is empty (or holds "
                              "every component) whatever is bound, so Einsums that share a component are "
                              "fused - or never fused" % norm(a)[:60], decided=const)

    # ---- S7: the temporal prefix is "loop ranks ahead of the first spatial rank"
    rep.rule("S7", "incoming temporal prefix = loop ranks before the first spatial rank (all of them "
             "when there is no spatial rank)", 1)
    if "ranks" in kinds_found:
        _, local = kinds_found["ranks"]
        _check_prefix(db, rep, f, local)

    # ---- S8: what counts as a functional component
    rep.rule("S8", "every component class with a clock-based time model is covered by the class the "
             "fusion decision filters on", 3)
    filt = None
    for n in walk_no_nested(fn):
        if isinstance(n, ast.Call) and isinstance(n.func, ast.Attribute) and n.func.attr == "get_components" \
                and len(n.args) >= 2 and isinstance(n.args[1], ast.Name):
            ent = f.module.ns.get(n.args[1].id)
            if ent and ent[0] == "class":
                filt = ent[1]
    if filt is None:
        raise AnalysisError("class filter of the fusion decision not found")
    covered = {filt.qualname} | {k.qualname for k in filt.all_subclasses()}
    coll = db.cls("teaal.trans.collector.Collector")
    n_clock = 0
    for g in coll.methods.values():
        uses_clock = any(isinstance(x, ast.Call) and isinstance(x.func, ast.Attribute) and
                         x.func.attr == "get_frequency" for x in walk_no_nested(g.node))
        registers = any(isinstance(x, ast.Call) and isinstance(x.func, ast.Attribute) and
                        x.func.attr == "add_component" for x in walk_no_nested(g.node))
        if not (uses_clock and registers):
            continue
        for x in walk_no_nested(g.node):
            if isinstance(x, ast.For) and isinstance(x.iter, ast.Call) and isinstance(x.iter.func, ast.Attribute) \
                    and x.iter.func.attr == "get_components" and len(x.iter.args) >= 2 and \
                    isinstance(x.iter.args[1], ast.Name):
                ent = g.module.ns.get(x.iter.args[1].id)
                if not (ent and ent[0] == "class"):
                    continue
                n_clock += 1
                k = ent[1]
                exempt = S8_EXEMPT.get(k.name)
                ok = k.qualname in covered or exempt is not None
                rep.check("S8", ok, db.loc(x), g.short, "timed-class:" + k.name,
                          "%s (clock-based time in %s) is %s" % (
                              k.name, g.short, "a " + filt.name if k.qualname in covered
                              else "exempt: " + str(exempt)),
                          "%s has a clock-based time model (%s) but is not a %s, the class the fusion "
                          "decision uses to find the functional components bound in an Einsum: two Einsums "
                          "sharing such a unit would be put in one block" % (k.name, g.short, filt.name))
    if n_clock < 3:
        raise AnalysisError("fewer than 3 clock-timed component classes found in Collector (%d)" % n_clock)

    # ---- S5: one feed per Einsum
    # ---- S9: the reported blocks are the fusion object's blocks, in its order
    rep.rule("S9", "metrics['blocks'] is emitted from Fusion.get_blocks() without re-ordering", 1)
    bt9 = db.func("teaal.trans.collector.Collector.__build_time")
    sites9 = [n for n in walk_no_nested(bt9.node) if isinstance(n, ast.Call) and norm(n.func) == "SAssign" and
              len(n.args) == 2 and any(isinstance(c, ast.Constant) and c.value == "blocks"
                                       for c in ast.walk(n.args[0]))]
    if len(sites9) != 1:
        rep.undecided("S9", where(bt9.node), bt9.short, "the assignment of metrics['blocks'] was not found")
    else:
        val = paths.resolve_flow(sites9[0].args[1], sites9[0], bt9.node, depth=4)
        txt = norm(val)
        reorder = [x for x in ast.walk(val) if isinstance(x, ast.Call) and
                   ((isinstance(x.func, ast.Name) and x.func.id in ("sorted", "set", "frozenset", "reversed")) or
                    (isinstance(x.func, ast.Attribute) and x.func.attr in ("sort", "reverse")))]
        from_fusion = "get_blocks()" in txt
        rep.check("S9", from_fusion and not reorder, where(sites9[0]), bt9.short, "blocks-literal",
                  "metrics['blocks'] = %s" % txt[:60],
                  "the blocks written to metrics['blocks'] are %s: they are %s, so the reported blocks no "
                  "longer list the Einsums in program order as the fusion object grouped them" %
                  (txt[:80], "passed through %s" % norm(reorder[0].func) if reorder else
                   "not taken from Fusion.get_blocks()"),
                  decided=bool(reorder) or from_fusion)

    rep.rule("S5", "HiFiber.__translate calls fusion.add_einsum once, under the guard that "
             "builds Metrics, outside any loop", 1)
    tr = db.func("teaal.trans.hifiber.HiFiber.__translate")
    feeds = [n for n in walk_no_nested(tr.node) if isinstance(n, ast.Call) and
             isinstance(n.func, ast.Attribute) and n.func.attr == "add_einsum" and
             any(g.cls is c for g in db.resolve_call(n, tr))]
    mets = [n for n in walk_no_nested(tr.node) if isinstance(n, ast.Call) and
            isinstance(n.func, ast.Name) and n.func.id == "Metrics"]
    ok = len(feeds) == 1 and len(mets) == 1
    msg = "expected one fusion.add_einsum call and one Metrics(...) construction, found %d / %d" % (
        len(feeds), len(mets))
    if ok:
        def gtxt(n):
            return sorted(paths.atom_text(a, p) for t, pol in paths.guards(n, stop=tr.node)
                          for a, p in paths.conjuncts(t, pol))
        in_loop = False
        p = feeds[0]
        while p is not tr.node:
            if isinstance(p, (ast.For, ast.While)):
                in_loop = True
            p = p.parent
        ok = gtxt(feeds[0]) == gtxt(mets[0]) and not in_loop
        msg = "fusion.add_einsum guard %s differs from Metrics guard %s, or call is in a loop" % (
            gtxt(feeds[0]), gtxt(mets[0]))
    rep.check("S5", ok, where(feeds[0] if feeds else tr.node), tr.short, "feed:fusion.add_einsum",
              "fusion.add_einsum fed once under the Metrics guard", msg)
    other_feeds = []
    for g in db.functions.values():
        if g is tr:
            continue
        for n in walk_no_nested(g.node):
            if isinstance(n, ast.Call) and isinstance(n.func, ast.Attribute) and \
                    n.func.attr == "add_einsum" and any(h.cls is c for h in db.resolve_call(n, g)):
                other_feeds.append((g, n))
    for g, n in other_feeds:
        rep.check("S5", False, where(n), g.short, norm(n), "second feed site",
                  "Fusion.add_einsum is also called from %s; an Einsum could be listed twice" % g.short)


def _check_prefix(db: DB, rep: Report, f, local: Optional[str], L: Optional[str] = None,
                  S: Optional[str] = None, depth: int = 0) -> None:
    """``local`` None: the prefix is what ``f`` returns (a helper the prefix was moved into)."""
    fn = f.node
    if L is None:
        for n in walk_no_nested(fn):
            if isinstance(n, ast.Assign) and len(n.targets) == 1 and isinstance(n.targets[0], ast.Name):
                cs = paths.called_names([n.value])
                if "get_loop_order" in cs and "get_ranks" in cs:
                    L = n.targets[0].id
                if "get_space" in cs:
                    S = n.targets[0].id
    if L is None:
        raise AnalysisError("loop-rank local of Fusion.add_einsum not found")
    if S is None:
        # the space ranks are not held in a local: a helper of the SpaceTime object may compute the prefix
        S = "<no local for the space ranks>"

    def is_whole(v: ast.AST) -> bool:
        t = norm(v)
        return t in (L, L + ".copy()", "list(%s)" % L, L + "[:]")

    def first_space_index(e: ast.AST) -> bool:
        return norm(e) == "%s.index(%s[0])" % (L, S)

    def min_index(e: ast.AST):
        """min((L.index(r) for r in S), default=X) -> X or '' if no default; None if other form"""
        if not (isinstance(e, ast.Call) and isinstance(e.func, ast.Name) and e.func.id == "min" and e.args):
            return None
        g = e.args[0]
        if isinstance(g, ast.Call) and norm(g.func) == "map" and len(g.args) == 2 and \
                norm(g.args[0]) == "%s.index" % L and norm(g.args[1]) == S:
            for kw in e.keywords:
                if kw.arg == "default":
                    return norm(kw.value)
            return ""
        if not (isinstance(g, (ast.GeneratorExp, ast.ListComp)) and len(g.generators) == 1 and
                norm(g.generators[0].iter) == S and not g.generators[0].ifs and
                isinstance(g.generators[0].target, ast.Name) and
                norm(g.elt) == "%s.index(%s)" % (L, g.generators[0].target.id)):
            return None
        for kw in e.keywords:
            if kw.arg == "default":
                return norm(kw.value)
        return ""
    if local is not None:
        defs = [(st, v) for st, v in paths.defs_of(fn, local) if v is not None]
    else:
        defs = [(st, st.value) for st in walk_no_nested(fn) if isinstance(st, ast.Return) and st.value is not None]
    if not defs:
        raise AnalysisError("no definition of the incoming temporal prefix found")
    sdefs = {k: val for k, val in paths.single_assignments(fn).items() if k not in (L, S)}
    for st, v in defs:
        v = paths.inline_locals(v, fn, sdefs)
        # the prefix is computed by a method of another object (given the loop order): analyse that method
        if depth < 2 and isinstance(v, ast.Call) and isinstance(v.func, ast.Attribute) and \
                any(norm(a) == L for a in v.args):
            cands = [g for g in db.resolve_call(v, f) if g.cls is not None and g is not f]
            if len(cands) == 1:
                g = cands[0]
                k = [norm(a) for a in v.args].index(L)
                if k < len(g.call_params):
                    # the space ranks inside g: the field its get_space() returns, or get_space() itself
                    s_txt = "self.get_space()"
                    gs_ = g.cls.lookup("get_space")
                    if gs_ is not None:
                        rets_ = [n for n in walk_no_nested(gs_.node) if isinstance(n, ast.Return) and n.value is not None]
                        if len(rets_) == 1:
                            s_txt = norm(rets_[0].value)
                    _check_prefix(db, rep, g, None, g.call_params[k], s_txt, depth + 1)
                    continue
        if isinstance(v, ast.Call) and isinstance(v.func, ast.Name) and v.func.id in ("set", "frozenset", "sorted") \
                and len(v.args) == 1:
            rep.check("S7", False, db.loc(st), f.short, "prefix:unordered:" + v.func.id,
                      "prefix built with %s(...)" % v.func.id,
                      "the temporal prefix is wrapped in %s(...): the order of the temporal loop ranks is "
                      "discarded, so Einsums whose prefixes are permutations of each other compare equal and "
                      "are fused" % v.func.id)
            continue
        if isinstance(v, ast.Call) and isinstance(v.func, ast.Attribute) and v.func.attr == "join" and \
                isinstance(v.func.value, ast.Constant) and isinstance(v.func.value.value, str) and \
                (v.func.value.value == "" or v.func.value.value.isalnum()) and len(v.args) == 1:
            rep.check("S7", False, db.loc(st), f.short, "prefix:joined",
                      "prefix kept as a joined string",
                      "the temporal prefix is stored as %r.join(...) of its rank names: rank names are "
                      "alphanumeric and a flattened rank is named by the concatenation of its parts, so "
                      "different prefixes ([M, K] and [MK]) give the same string, compare equal and the "
                      "Einsums are fused" % v.func.value.value)
            continue
        guard = [(norm(a), p) for t, pol in paths.guards(st, stop=fn) for a, p in paths.conjuncts(t, pol)]
        s_true = (S, True) in guard
        s_false = (S, False) in guard
        where = db.loc(st)
        if is_whole(v):
            # default-then-override: 'x = L' followed by 'if S: x = L[:...]' in the same block
            overridden = False
            if not s_false and isinstance(st, (ast.Assign, ast.AnnAssign)):
                _, _, blk = paths.block_of(st)
                seen_ = False
                for s_ in blk:
                    if s_ is st:
                        seen_ = True
                        continue
                    if seen_ and isinstance(s_, ast.If) and not s_.orelse and \
                            any((norm(a), p) == (S, True) for a, p in paths.conjuncts(s_.test, True)) and \
                            any(isinstance(x, ast.Assign) and isinstance(x.targets[0], ast.Name) and
                                x.targets[0].id == local for x in s_.body):
                        overridden = True
            rep.check("S7", s_false or overridden, where, f.short, "prefix:whole-order",
                      "without spatial ranks the prefix is the whole loop order",
                      "the temporal prefix is the whole loop order on a path that is not restricted to "
                      "'no spatial ranks' (guard %s)" % guard)
            continue
        if isinstance(v, ast.Subscript) and isinstance(v.slice, ast.Slice) and norm(v.value) == L:
            sl = v.slice
            if sl.lower is not None or sl.step is not None:
                rep.check("S7", False, where, f.short, "prefix:" + norm(v),
                          "prefix slice " + norm(v),
                          "the temporal prefix %s does not start at the outermost loop rank" % norm(v))
                continue
            if sl.upper is not None and first_space_index(sl.upper):
                rep.check("S7", False, where, f.short, "prefix:before-first-listed-space",
                          "prefix stops at the first rank of the space list",
                          "the temporal prefix stops at %s.index(%s[0]), the position of the first rank *listed* "
                          "in the spacetime's space stamp; the space ranks need not be listed in loop order, so "
                          "a spatial rank can be counted as temporal (Einsums with different temporal prefixes "
                          "are fused, Einsums with equal ones split): take the earliest spatial rank in loop "
                          "order" % (L, S))
                continue
            # L[:(L.index(S[0]) if S else D)]: D must be the length of the loop order (or None)
            up = sl.upper
            if isinstance(up, ast.IfExp):
                for tst, a_, b_ in ((up.test, up.body, up.orelse),):
                    neg = isinstance(tst, ast.UnaryOp) and isinstance(tst.op, ast.Not)
                    cond = norm(tst.operand) if neg else norm(tst)
                    with_s, without_s = (b_, a_) if neg else (a_, b_)
                    if cond == S and (first_space_index(with_s) or min_index(with_s) is not None):
                        dflt = norm(without_s)
                        ok = dflt in ("len(%s)" % L, "None") and not first_space_index(with_s)
                        rep.check("S7", ok, where, f.short, "prefix:cond-index(default=%s)" % dflt,
                                  "prefix stops before the first spatial rank, else at %s" % dflt,
                                  "for an Einsum without spatial ranks the temporal prefix becomes %s[:%s] "
                                  "instead of the whole loop order: purely temporal Einsums with different "
                                  "loop orders would compare equal and be fused" % (L, dflt),
                                  decided=ok or isinstance(without_s, ast.Constant) or first_space_index(with_s))
                        break
                else:
                    raise AnalysisError("the derivation of the temporal prefix (%s at %s) has a form this "
                                        "checker does not recognise; it cannot decide rule S7" %
                                        (norm(v)[:80], where))
                continue
            # L[:b] with  b = D ; if S: b = L.index(S[0])   (default then override)
            if isinstance(up, ast.Name):
                bdefs = [(st_, v_) for st_, v_ in paths.defs_of(fn, up.id) if v_ is not None]
                with_s = [v_ for st_, v_ in bdefs if any((norm(a), p) == (S, True) for t_, pol_ in
                                                          paths.guards(st_, stop=fn)
                                                          for a, p in paths.conjuncts(t_, pol_))]
                rest_ = [v_ for st_, v_ in bdefs if not any(norm(a) == S for t_, pol_ in
                                                            paths.guards(st_, stop=fn)
                                                            for a, p in paths.conjuncts(t_, pol_))]
                if len(with_s) == 1 and (first_space_index(with_s[0]) or min_index(with_s[0]) is not None) \
                        and len(rest_) == 1:
                    dflt = norm(rest_[0])
                    ok = dflt in ("len(%s)" % L, "None") and not first_space_index(with_s[0])
                    rep.check("S7", ok, where, f.short, "prefix:default-then-index(default=%s)" % dflt,
                              "prefix stops before the first spatial rank, else at %s" % dflt,
                              "for an Einsum without spatial ranks the temporal prefix becomes %s[:%s] "
                              "instead of the whole loop order: purely temporal Einsums with different "
                              "loop orders would compare equal and be fused" % (L, dflt),
                              decided=ok or isinstance(rest_[0], ast.Constant) or first_space_index(with_s[0]))
                    continue
            mi = min_index(sl.upper) if sl.upper is not None else None
            if mi is not None:
                ok = mi == "len(%s)" % L or s_true
                rep.check("S7", ok, where, f.short, "prefix:min-index(default=%s)" % mi,
                          "prefix stops before the earliest spatial rank (default %s)" % (mi or "none"),
                          "for an Einsum without spatial ranks the temporal prefix becomes %s[:%s] instead of "
                          "the whole loop order: purely temporal Einsums with different loop orders would "
                          "compare equal and be fused" % (L, mi or "<error>"))
                continue
        raise AnalysisError("the derivation of the temporal prefix (%s at %s) has a form this checker does "
                            "not recognise; it cannot decide rule S7" % (norm(v)[:80], where))


def mutants(db: DB):
    from sa.selftest import M
    rel = "teaal/ir/fusion.py"
    dec = ("if config == self.curr_config and fused_ranks == self.fused_ranks and not "
           "self.components_used.intersection(\n                components_used):")
    from sa.selftest import Mutant, Edit
    return [
        Mutant("temporal prefix kept as a joined string (C13-u2)",
               [Edit(rel, "            fused_ranks = loop_ranks[:first_space]", "            fused_ranks = \"\".join(loop_ranks[:first_space])"),
                Edit(rel, "            fused_ranks = loop_ranks\n", "            fused_ranks = \"\".join(loop_ranks)\n"),
                Edit(rel, "        fused_ranks: List[str]\n", "        fused_ranks: str\n")], ("S7",)),
        M("revert F13 fix (mergers are not functional components)", "teaal/ir/component.py",
          "class MergerComponent(FunctionalComponent):", "class MergerComponent(Component):", "S8"),
        M("reported blocks sorted", "teaal/trans/collector.py",
          "        blocks = TransUtils.build_expr(self.fusion.get_blocks())",
          "        blocks = TransUtils.build_expr(sorted(self.fusion.get_blocks()))", "S9"),
        M("no spatial ranks: empty prefix", "teaal/ir/fusion.py",
          "        if space_ranks:\n            # Note: the space ranks need not be listed in loop order\n            first_space = min(loop_ranks.index(rank) for rank in space_ranks)\n            fused_ranks = loop_ranks[:first_space]\n        else:\n            fused_ranks = loop_ranks",
          "        fused_ranks = loop_ranks[:(loop_ranks.index(space_ranks[0]) if space_ranks else 0)]", "S7"),
        M("no component ever counts as used", "teaal/ir/fusion.py",
          "            if component.get_bindings()[einsum]:", "            if False:", "S6"),
        M("drop config conjunct", rel, dec,
          "if fused_ranks == self.fused_ranks and not self.components_used.intersection(\n"
          "                components_used):", "S1"),
        M("drop ranks conjunct", rel, dec,
          "if config == self.curr_config and not self.components_used.intersection(\n"
          "                components_used):", "S1"),
        M("drop components conjunct", rel, dec,
          "if config == self.curr_config and fused_ranks == self.fused_ranks:", "S1"),
        M("revert F2 fix", rel, "            self.components_used = components_used\n", "", "S2"),
        M("open: components reset to empty", rel, "            self.components_used = components_used\n",
          "            self.components_used = set()\n", "S2"),
        M("open: drop fused_ranks", rel, "            self.fused_ranks = fused_ranks\n", "", "S2"),
        M("open: drop curr_config", rel, "            self.curr_config = config\n", "", "S2"),
        M("extend: no accumulation", rel,
          "            self.components_used = self.components_used.union(components_used)\n",
          "            self.components_used = components_used\n", "S3"),
        M("extend: accumulation deleted", rel,
          "            self.components_used = self.components_used.union(components_used)\n", "", "S3"),
        M("append -> insert(0)", rel, "self.blocks.append([einsum])", "self.blocks.insert(0, [einsum])",
          ("S4", "S0")),
        M("drop curr_block rebinding", rel, "            self.curr_block = self.blocks[-1]\n", "", "S4"),
        M("extend without append", rel, "            self.curr_block.append(einsum)\n", "", "S4"),
        M("components never added", rel, "                components_used.add(component.get_name())\n",
          "                pass\n", "S6"),
        M("components of another class", rel, "einsum, FunctionalComponent)", "einsum, MemoryComponent)", "S6"),
        M("prefix default 0 without spatial ranks", rel,
          "        if space_ranks:\n            # Note: the space ranks need not be listed in loop order\n            first_space = min(loop_ranks.index(rank) for rank in space_ranks)\n            fused_ranks = loop_ranks[:first_space]\n        else:\n            fused_ranks = loop_ranks\n",
          "        fused_ranks = loop_ranks[:min((loop_ranks.index(r) for r in space_ranks), default=0)]\n", "S7"),
        M("prefix skips the outermost rank", rel, "fused_ranks = loop_ranks[:first_space]",
          "fused_ranks = loop_ranks[1:first_space]", "S7"),
        M("revert F8 fix (first *listed* space rank)", rel,
          "            first_space = min(loop_ranks.index(rank) for rank in space_ranks)\n",
          "            first_space = loop_ranks.index(space_ranks[0])\n", "S7"),
        M("whole loop order even with spatial ranks", rel,
          "            fused_ranks = loop_ranks[:first_space]\n        else:\n            fused_ranks = loop_ranks",
          "            fused_ranks = loop_ranks\n        else:\n            fused_ranks = loop_ranks", "S7"),
        M("benign: min-index with default len", rel,
          "        if space_ranks:\n            # Note: the space ranks need not be listed in loop order\n            first_space = min(loop_ranks.index(rank) for rank in space_ranks)\n            fused_ranks = loop_ranks[:first_space]\n        else:\n            fused_ranks = loop_ranks\n",
          "        fused_ranks = loop_ranks[:min((loop_ranks.index(r) for r in space_ranks), default=len(loop_ranks))]\n",
          (), benign=True),
        M("prefix compared as a set", rel, "            fused_ranks = loop_ranks[:first_space]",
          "            fused_ranks = set(loop_ranks[:first_space])", "S7"),
        M("sequencers no longer functional components", "teaal/ir/component.py",
          "class SequencerComponent(FunctionalComponent):", "class SequencerComponent(Component):", "S8"),
        M("fusion filters on compute units only", rel, "einsum, FunctionalComponent)", "einsum, ComputeComponent)",
          ("S8", "S6")),
        M("feed outside metrics guard", "teaal/trans/hifiber.py",
          "            self.fusion.add_einsum(self.program)\n\n",
          "\n        if self.hardware:\n            self.fusion.add_einsum(self.program)\n\n", "S5"),
        M("benign: copy of paired set", rel, "            self.components_used = components_used\n",
          "            self.components_used = set(components_used)\n", (), benign=True),
        M("benign: in-place update on extend", rel,
          "            self.components_used = self.components_used.union(components_used)\n",
          "            self.components_used |= components_used\n", (), benign=True),
        M("benign: inverted decision", rel,
          dec + "\n            self.curr_block.append(einsum)\n"
          "            self.components_used = self.components_used.union(components_used)\n\n"
          "        # Otherwise, start a new block\n        else:\n"
          "            self.blocks.append([einsum])\n            self.curr_block = self.blocks[-1]\n"
          "            self.fused_ranks = fused_ranks\n            self.curr_config = config\n"
          "            self.components_used = components_used\n",
          "if not (config == self.curr_config and fused_ranks == self.fused_ranks and not "
          "self.components_used.intersection(\n                components_used)):\n"
          "            self.blocks.append([einsum])\n            self.curr_block = self.blocks[-1]\n"
          "            self.fused_ranks = fused_ranks\n            self.curr_config = config\n"
          "            self.components_used = components_used\n"
          "        else:\n            self.curr_block.append(einsum)\n"
          "            self.components_used = self.components_used.union(components_used)\n",
          (), benign=True),
    ]
