"""
C09 - printed text denotes the syntax tree the compiler built.

Decided, for every HiFiber tree a builder in teaal/trans can construct
(DESIGN.md section 3, C09):
  P0 printer model derived from gen(): brackets, tuple comma, ':\\n' + deeper body
  P1 infix operands never need a bracket they do not have
  P2 postfix receivers are atoms
  P3 substitution of an expression for a variable leaf keeps P1/P2
  P3m the substitution routine has the shape the P3 model assumes
  B1 block bodies never print empty
Not decided: that the tree is the intended one; lexical safety of leaf text.
"""

from __future__ import annotations

import ast
from typing import Dict, List

from sa import paths
from sa.absint import NATIVE, analyse_trans
from sa.db import DB, AnalysisError, norm, walk_no_nested
from sa.hmodel import HModel
from sa.printer import PrinterModel
from sa.report import Report
from sa.values import HStmt, alts_of


def analyse(db: DB):
    pm = PrinterModel(db)
    hm = HModel(db, pm)
    it = analyse_trans(db, hm)
    return pm, hm, it


def run(db: DB, rep: Report) -> None:
    rep.explanation = (
        "Abstract interpretation of every function of teaal/trans (public ones from their parameter "
        "annotations, private ones in the contexts of their call sites, to a fixed point) over a "
        "domain of expression kinds {atom, negative number, lambda, binary operation per operator} "
        "plus the positions in which a variable leaf occurs. The obligations come from a printer "
        "model that is derived from the gen() methods of teaal/hifiber by symbolic all-paths "
        "evaluation (which fields print bare next to an operator, which are enclosed in brackets, "
        "which blocks are indented after ':\\n'). An obligation on a value the interpreter cannot "
        "bound (TOP) fails. sympy expressions are followed through CoordAccess.build_expr per sympy "
        "class under the affine canonical-form model. Holds for all specifications because no "
        "specification is consulted.")
    rep.trusted += [
        "Python operator precedence table (sa/printer.py PREC), comparison chaining, lambda lowest",
        "sympy affine canonical form: Add.args in {Integer, Rational, Symbol, Mul}; Mul.args = [Number, Symbol]",
        "annotation-driven typing of receivers (sa/db.py)",
    ]
    rep.assumptions += [
        "leaf text (EVar/EString content) is lexically safe: names come from CNAME tokens; the metrics "
        "prefix string is not escaped (data, not decided)",
        "the flow graph places the update node between the innermost loop and its end (C10/K5), "
        "which is what makes every for-body non-empty",
    ]
    pm, hm, it = analyse(db)

    # ---- P0 --------------------------------------------------------------------
    rep.rule("P0", "printer model derived from gen(): every HiFiber class has a recognised shape", 40)
    for name, sh in sorted(pm.shapes.items()):
        rep.check("P0", not sh.problems, db.loc(sh.cls.node), name + ".gen", "shape:" + name,
                  "%s prints as %s %s" % (name, sh.kind, dict(sh.roles)),
                  "the printer of %s is not one the precedence model can rely on: %s" %
                  (name, "; ".join(sh.problems)))
    # facts the model depends on, stated explicitly
    facts = [
        ("EParens", lambda s: s.kind == "atom" and s.roles.get("expr") == "enclosed",
         "EParens encloses its expression in brackets"),
        ("ETuple", lambda s: s.kind == "atom" and any(
            t and t[-1] == ("lit", ",)") for t in s.templates),
         "a one-element ETuple prints its trailing comma"),
        ("EBinOp", lambda s: s.kind == "infix", "EBinOp prints '<left> <op> <right>'"),
        ("EMethod", lambda s: s.kind == "postfix" and s.roles.get("obj") == "recv",
         "EMethod prints its receiver bare before '.'"),
        ("EAccess", lambda s: s.kind == "postfix" and s.roles.get("ind") == "enclosed",
         "EAccess encloses its index in brackets"),
        ("SFor", lambda s: s.block_fields == ["stmt"], "SFor indents its body after ':\\n'"),
        ("SIf", lambda s: len(s.block_fields) == 3, "SIf indents all three kinds of arm after ':\\n'"),
        ("SFunc", lambda s: s.block_fields == ["body"], "SFunc indents its body after ':\\n'"),
        ("PTuple", lambda s: not s.problems, "nested payload tuples are parenthesised"),
    ]
    for name, pred, what in facts:
        sh = pm.shapes.get(name)
        if sh is None:
            raise AnalysisError("HiFiber class %s not found" % name)
        ok = False
        try:
            ok = bool(pred(sh))
        except Exception:
            ok = False
        rep.check("P0", ok, db.loc(sh.cls.node), name + ".gen", "fact:" + name, what,
                  "printer fact no longer holds: %s (templates: %s)" % (what, sh.templates))

    # ---- P1 / P2 / P3 / B1 from the interpreter ------------------------------------
    rep.rule("P1", "infix operands / statement headers need no bracket they lack", 60)
    rep.rule("P2", "postfix receivers are atoms", 60)
    rep.rule("P3", "substituted expressions keep their meaning at every leaf position", 3)
    rep.rule("B1", "block bodies never print empty", 7)
    sfor_body = None
    for key, o in sorted(hm.obligs.items(), key=lambda kv: (db.loc(kv[1]["node"]), kv[1]["what"])):
        rule = o["rule"]
        fi = o["func"]
        node = o["node"]
        if rule == "B1" and fi is not None and fi.short.startswith("HiFiber.") and \
                o["what"].startswith("SFor body"):
            sfor_body = o
            continue
        if rule == "P0":
            rule = "P0"
        rep.check(rule, o["ok"], db.loc(node), fi.short if fi else "?",
                  "%s@%s" % (o["what"], norm(node)[:120]),
                  "%s in %s" % (o["what"], norm(node)[:80]),
                  "%s of %s: %s" % (o["what"], norm(node)[:100], o["detail"]),
                  decided=o.get("decided", True))

    # for-loop bodies: the recursive translation is non-empty because the update node
    # adds make_update(), which always returns a statement
    mu = db.func("teaal.trans.equation.Equation.make_update")
    key = [k for k in it.memo if k[0] == mu.qualname]
    states = set()
    for k in key:
        for a in alts_of(it.memo[k]):
            states.add(a.state if isinstance(a, HStmt) else "?")
    tn = db.func("teaal.trans.hifiber.HiFiber.__trans_nodes")
    adds_update = any(isinstance(n, ast.Call) and isinstance(n.func, ast.Attribute) and n.func.attr == "add"
                      and n.args and isinstance(n.args[0], ast.Call) and
                      isinstance(n.args[0].func, ast.Attribute) and n.args[0].func.attr == "make_update"
                      for g_ in tn.cls.methods.values() for n in walk_no_nested(g_.node))
    b1_decided = states != {"N"} or (adds_update and sfor_body is not None)
    rep.check("B1", states == {"N"} and adds_update and sfor_body is not None, db.loc(mu.node), mu.short,
              "for-body:make_update", "make_update() returns a non-empty statement on every path "
              "(states %s) and the update arm adds it" % sorted(states),
              "the body of an emitted for-loop can be empty: make_update() may return an empty "
              "statement (states %s) or the translator no longer adds it" % sorted(states),
              decided=b1_decided)

    # ---- P4: a name leaf is a name ---------------------------------------------------
    # The printer writes the name of a variable / binder / method / keyword leaf verbatim.  The text
    # denotes that leaf only if the name is an identifier: a name assembled with operator text in it
    # ("M * N") prints as an expression of several leaves while the tree holds one.
    rep.rule("P4", "every literal piece built into the name of a variable, binder, method, keyword or "
             "callee leaf consists of identifier characters", 150)
    import re as _re
    for (nid, fld), rec in sorted(hm.names.items(), key=lambda kv: (db.loc(kv[1]["node"]), kv[0][1])):
        if rec["role"] not in ("reader", "binder", "method", "keyword", "callee"):
            continue
        badp = sorted({p_ for t_ in rec["tmpls"] for p_ in t_
                       if isinstance(p_, str) and p_ != "HOLE" and not _re.fullmatch(r"[A-Za-z0-9_.]*", p_)})
        fi = rec["func"]
        rep.check("P4", not badp, db.loc(rec["node"]), fi.short if fi else "?",
                  "name:%s.%s@%s" % (rec["cls"], fld, norm(rec["node"])[:60]),
                  "%s.%s of %s is assembled from identifier pieces" % (rec["cls"], fld, norm(rec["node"])[:50]),
                  "the %s of %s can contain the text %s: the printed text denotes an expression of "
                  "several leaves where the tree holds a single %s named by the whole string" %
                  (fld, norm(rec["node"])[:60], badp, rec["cls"]))

    # ---- P3m -------------------------------------------------------------------------
    rep.rule("P3m", "TransUtils.sub_hifiber has the shape the substitution model assumes", 1)
    sh_ = db.func(next(iter(NATIVE)))
    fn = sh_.node
    p = sh_.call_params
    ok1 = ok2 = ok3 = False
    for n in walk_no_nested(fn):
        if isinstance(n, ast.If) and isinstance(n.test, ast.Compare) and \
                isinstance(n.test.ops[0], ast.Eq) and \
                {norm(n.test.left), norm(n.test.comparators[0])} == {p[0], p[1]}:
            r = n.body[0] if n.body else None
            if isinstance(r, ast.Return) and isinstance(r.value, ast.Call) and \
                    norm(r.value.func) == "deepcopy" and norm(r.value.args[0]) == p[2]:
                ok1 = True
        if isinstance(n, ast.Call) and isinstance(n.func, ast.Attribute) and \
                n.func.attr == "sub_hifiber" and len(n.args) == 3 and \
                norm(n.args[1]) == p[1] and norm(n.args[2]) == p[2]:
            ok2 = True
        if isinstance(n, ast.Return) and isinstance(n.value, ast.Name) and n.value.id != p[0]:
            ok3 = True
    rep.check("P3m", ok1 and ok2 and ok3, db.loc(fn), sh_.short, "sub_hifiber-shape",
              "returns a copy of 'new' where the tree equals 'old', otherwise recurses into the fields of a copy",
              "TransUtils.sub_hifiber no longer has the form 'if hifiber == old: return deepcopy(new)' "
              "+ recursive substitution in the fields of a copy; the P3 model does not describe it")

    # ---- floors on what was seen --------------------------------------------------------
    by_cls: Dict[str, int] = {}
    for (nid, fld), rec in hm.names.items():
        by_cls[rec["cls"]] = by_cls.get(rec["cls"], 0) + 1
    sites = {(o["rule"], id(o["node"])) for o in hm.obligs.values()}
    n_infix = len({i for r, i in sites if r == "P1"})
    n_post = len({i for r, i in sites if r == "P2"})
    rep.extra["functions_analysed"] = len(it.analysed)
    rep.extra["abstract_calls"] = it.calls
    rep.extra["infix_sites"] = n_infix
    rep.extra["postfix_sites"] = n_post
    rep.extra["substitution_sites"] = [
        {"where": db.loc(s["node"]), "leaf_positions": ["%s:%s" % c for c in s["ctx"]], "substituted_kinds": s["new"]}
        for s in it.sub_sites]
    rep.extra["interpreter_notes"] = sorted(it.notes)
    unsound = [n for n in it.notes if n.startswith("UNSOUND")]
    if unsound:
        raise AnalysisError("the abstract interpreter could not follow the code soundly: %s" % "; ".join(unsound))
    if n_infix < 30 or n_post < 60:
        raise AnalysisError("abstract interpreter reached only %d infix and %d postfix construction "
                            "sites (floors 30 / 60)" % (n_infix, n_post))
    if len(it.analysed) < 80:
        raise AnalysisError("only %d functions analysed (floor 80)" % len(it.analysed))


def mutants(db: DB):
    from sa.selftest import M
    eq, pt, col, ca = ("teaal/trans/equation.py", "teaal/trans/partitioner.py", "teaal/trans/collector.py",
                       "teaal/trans/coord_access.py")
    return [
        M("flattened output extent passed as one joined name (C09-u3)", "teaal/trans/header.py",
          "                extent: Expression = EVar(extents[0])\n                for src_root in extents[1:]:\n                    extent = EBinOp(extent, OMul(), EVar(src_root))\n                shape.append(extent)",
          "                shape.append(\" * \".join(extents))", "P4"),
        M("revert F1 fix (no brackets around substituted step)", pt,
          "            if isinstance(step, EBinOp):\n                sub_step = EParens(step)\n", "", "P3"),
        M("nway_shape loses EParens", pt, "parens = EParens(EBinOp(EVar(part_rank), OSub(), EInt(1)))",
          "parens = EBinOp(EVar(part_rank), OSub(), EInt(1))", "P1"),
        M("traffic bits lose EParens", col, "            bits = EParens(bits)\n", "", "P1"),
        M("sequencer steps lose EParens", col, "time = EBinOp(EParens(steps), ODiv(), EInt(op_freq))",
          "time = EBinOp(steps, ODiv(), EInt(op_freq))", "P1"),
        M("__add_operator wraps only the first operand", eq,
          "        for i, expr in enumerate(exprs):\n            if isinstance(expr, EBinOp):",
          "        for i, expr in enumerate(exprs[:1]):\n            if isinstance(expr, EBinOp):", "P1"),
        M("__add_operator stops wrapping", eq,
          "            if isinstance(expr, EBinOp):\n                exprs[i] = EParens(expr)\n",
          "            pass\n", "P1"),
        M("update multiplies a sum", eq, "            sum_ = EBinOp(sum_, OAdd(), product)",
          "            sum_ = EBinOp(product, OMul(), EBinOp(sum_, OAdd(), product))", "P1"),
        M("nested comparison", eq,
          "int_test = EBinOp(EBinOp(EVar(\"c\"), OMod(), EInt(1)), OEqEq(), EInt(0))",
          "int_test = EBinOp(EBinOp(EVar(\"c\"), OLt(), EInt(1)), OEqEq(), EInt(0))", "P1"),
        M("EParens.gen drops its brackets", "teaal/hifiber/expr.py",
          "        return \"(\" + self.expr.gen() + \")\"", "        return self.expr.gen()", ("P0", "P1")),
        M("ETuple loses the one-element comma", "teaal/hifiber/expr.py",
          "            return \"(\" + self.elems[0].gen() + \",)\"", "            return \"(\" + self.elems[0].gen() + \")\"",
          "P0"),
        M("SFor body not indented", "teaal/hifiber/stmt.py",
          "self.payload.gen(False) + \" in \" + self.expr.gen() + \":\\n\" + self.stmt.gen(depth + 1)",
          "self.payload.gen(False) + \" in \" + self.expr.gen() + \":\\n\" + self.stmt.gen(depth)", "P0"),
        M("PTuple nests without brackets", "teaal/hifiber/payload.py", "p.gen(True) for p in self.payloads",
          "p.gen(False) for p in self.payloads", "P0"),
        M("rational coefficient on the right of '*'", ca,
          "        bexpr = EBinOp(hexprs[-2], op(), hexprs[-1])", "        bexpr = EBinOp(hexprs[-1], op(), hexprs[-2])",
          "P1"),
        M("method call on an unbracketed operation", eq,
          "        return EMethod(project, \"prune\", [trans_fn])",
          "        return EMethod(EBinOp(project, OAnd(), project), \"prune\", [trans_fn])", "P2"),
        M("lambda as an operand", eq,
          "        lambda_ = ELambda([trank.lower()], CoordAccess.build_expr(sexpr))\n        args = [AParam(\"trans_fn\", lambda_)]",
          "        lambda_ = ELambda([trank.lower()], CoordAccess.build_expr(sexpr))\n        args = [AParam(\"trans_fn\", EBinOp(lambda_, OOr(), lambda_))]",
          "P1"),
        M("make_update may return an empty block", eq,
          "        if self.__no_reduction():\n            return SIAssign(AVar(out_name), OLtLt(), sum_)",
          "        if not products:\n            return SBlock([])\n        if self.__no_reduction():\n            return SIAssign(AVar(out_name), OLtLt(), sum_)",
          "B1"),
        M("if-arm with an empty block", eq, "start_if = SIf((start_cond, start_then), [], start_else)",
          "start_if = SIf((start_cond, SBlock([])), [], start_else)", "B1"),
        M("sub_hifiber substitutes everywhere", "teaal/trans/utils.py", "        if hifiber == old:\n            return deepcopy(new)",
          "        if isinstance(hifiber, type(old)):\n            return deepcopy(new)", "P3m"),
        M("benign: EParens around an atom", pt, "        fdiv = EBinOp(parens, OFDiv(), parts)",
          "        fdiv = EBinOp(parens, OFDiv(), EParens(parts))", (), benign=True),
        M("benign: temporary introduced", eq, "        start_cond = EBinOp(pos, OEqEq(), EInt(0))",
          "        zero = EInt(0)\n        start_cond = EBinOp(pos, OEqEq(), zero)", (), benign=True),
    ]
