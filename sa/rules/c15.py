"""
C15 - compilation does not mutate its inputs and is repeatable.

Decided (DESIGN.md section 3, C15):
  A1 no in-place mutation through a reference that may alias one of the five
     parsed input objects (interprocedural alias-depth analysis)
  G1 no process-level state: global/nonlocal, stores to module or class
     attributes, class-level mutable containers mutated through self/cls,
     mutable default arguments, memoising decorators
  G2 no address- or time-dependent values; value-based hashing
  G3 memoisation lives on per-Einsum objects
Not decided: equality of the second program's text.
"""

from __future__ import annotations

import ast
from typing import Dict, List, Set

from sa import paths
from sa.alias import AliasDepth, P5
from sa.db import DB, AnalysisError, norm, walk_no_nested
from sa.fixtures import fixture
from sa.report import Report

NONDET_CALLS = {"id", "time", "perf_counter", "monotonic", "urandom", "uuid1", "uuid4", "getrandbits",
                "random", "randint", "choice", "shuffle", "sample", "now", "today", "getpid"}
NONDET_MODULES = {"time", "random", "uuid", "datetime", "secrets", "os"}
MEMO_DECORATORS = {"lru_cache", "cache", "cached_property"}


def process_state_findings(tree: ast.AST) -> List[tuple]:
    """(node, what) for constructs that keep state beyond one object."""
    out = []
    class_names = {n.name for n in ast.walk(tree) if isinstance(n, ast.ClassDef)}
    module_names = {t.id for n in getattr(tree, "body", []) if isinstance(n, ast.Assign)
                    for t in n.targets if isinstance(t, ast.Name)}
    for n in ast.walk(tree):
        if isinstance(n, (ast.Global, ast.Nonlocal)):
            out.append((n, "%s statement" % type(n).__name__.lower()))
        if isinstance(n, (ast.FunctionDef, ast.AsyncFunctionDef)):
            for d in n.args.defaults + [x for x in n.args.kw_defaults if x is not None]:
                if isinstance(d, (ast.List, ast.Dict, ast.Set)) or (
                        isinstance(d, ast.Call) and norm(d.func) in ("list", "dict", "set")):
                    out.append((d, "mutable default argument of %s" % n.name))
            for d in n.decorator_list:
                nm = norm(d.func if isinstance(d, ast.Call) else d).split(".")[-1]
                if nm in MEMO_DECORATORS:
                    out.append((d, "memoising decorator @%s on %s" % (nm, n.name)))
            for x in ast.walk(n):
                tgts = []
                if isinstance(x, (ast.Assign, ast.AugAssign, ast.AnnAssign)):
                    tgts = x.targets if isinstance(x, ast.Assign) else [x.target]
                elif isinstance(x, ast.Call) and isinstance(x.func, ast.Attribute) and \
                        x.func.attr in paths.MUTATORS:
                    tgts = [x.func.value]
                for t in tgts:
                    b = t
                    while isinstance(b, ast.Subscript):
                        b = b.value
                    if isinstance(b, ast.Attribute) and isinstance(b.value, ast.Name):
                        if b.value.id == "cls" or b.value.id in class_names:
                            out.append((x, "store to class attribute %s" % norm(b)))
                        if isinstance(b.value, ast.Call) and norm(b.value.func) == "type":
                            out.append((x, "store to class attribute %s" % norm(b)))
                    if isinstance(b, ast.Name) and b.id in module_names and isinstance(x, ast.Call):
                        # mutation of a module-level container
                        local = any(isinstance(y, ast.Name) and y.id == b.id and isinstance(y.ctx, ast.Store)
                                    for y in ast.walk(n))
                        if not local and b.id not in [a.arg for a in n.args.args]:
                            out.append((x, "mutation of module-level %s" % b.id))
    # class-level mutable containers mutated through self
    for c in [n for n in ast.walk(tree) if isinstance(n, ast.ClassDef)]:
        mutable = {}
        for s in c.body:
            if isinstance(s, (ast.Assign, ast.AnnAssign)):
                v = s.value
                ts = s.targets if isinstance(s, ast.Assign) else [s.target]
                if isinstance(v, (ast.List, ast.Dict, ast.Set)) or (
                        isinstance(v, ast.Call) and norm(v.func) in ("list", "dict", "set", "defaultdict")):
                    for t in ts:
                        if isinstance(t, ast.Name):
                            mutable[t.id] = s
        if not mutable:
            continue
        init_assigned = set()
        for m in c.body:
            if isinstance(m, ast.FunctionDef) and m.name == "__init__":
                for x in ast.walk(m):
                    if isinstance(x, (ast.Assign, ast.AnnAssign)):
                        for t in (x.targets if isinstance(x, ast.Assign) else [x.target]):
                            if isinstance(t, ast.Attribute) and norm(t.value) == "self":
                                init_assigned.add(t.attr)
        for m in c.body:
            if not isinstance(m, ast.FunctionDef):
                continue
            for x in ast.walk(m):
                recv = None
                if isinstance(x, ast.Call) and isinstance(x.func, ast.Attribute) and x.func.attr in paths.MUTATORS:
                    recv = x.func.value
                elif isinstance(x, (ast.Assign, ast.AugAssign)):
                    for t in (x.targets if isinstance(x, ast.Assign) else [x.target]):
                        if isinstance(t, ast.Subscript):
                            recv = t.value
                b = recv
                while isinstance(b, ast.Subscript):
                    b = b.value
                if isinstance(b, ast.Attribute) and isinstance(b.value, ast.Name) and \
                        b.value.id in ("self", "cls") and b.attr in mutable and b.attr not in init_assigned:
                    out.append((x, "class-level container %s.%s mutated through %s" % (c.name, b.attr, b.value.id)))
    return out


def nondet_findings(tree: ast.AST) -> List[tuple]:
    out = []
    imported = set()
    for n in ast.walk(tree):
        if isinstance(n, ast.Import):
            for a in n.names:
                imported.add((a.asname or a.name).split(".")[0])
        if isinstance(n, ast.ImportFrom) and n.module:
            for a in n.names:
                if n.module.split(".")[0] in NONDET_MODULES and a.name in NONDET_CALLS:
                    imported.add(a.asname or a.name)
    # parents, to see how the result of id() is used
    par = {}
    for n in ast.walk(tree):
        for c in ast.iter_child_nodes(n):
            par[c] = n

    def identity_only(call: ast.Call) -> bool:
        """id(x) used only to ask 'have I seen this very object': operand of in / not in, or
        added to a local set whose only other uses are such membership tests (never iterated,
        ordered, printed or returned): the numeric value cannot reach any output."""
        p = par.get(call)
        if isinstance(p, ast.Compare) and len(p.ops) == 1 and isinstance(p.ops[0], (ast.In, ast.NotIn)) and \
                p.left is call and isinstance(p.comparators[0], ast.Name):
            coll = p.comparators[0].id
        elif isinstance(p, ast.Call) and isinstance(p.func, ast.Attribute) and p.func.attr == "add" and \
                isinstance(p.func.value, ast.Name) and p.args and p.args[0] is call:
            coll = p.func.value.id
        else:
            return False
        fn = p
        while fn is not None and not isinstance(fn, (ast.FunctionDef, ast.AsyncFunctionDef)):
            fn = par.get(fn)
        if fn is None:
            return False
        for x in ast.walk(fn):
            if isinstance(x, ast.Name) and x.id == coll:
                q = par.get(x)
                if isinstance(x.ctx, ast.Store):
                    # only "coll = set()"
                    if not (isinstance(q, (ast.Assign, ast.AnnAssign)) and isinstance(q.value, ast.Call) and
                            isinstance(q.value.func, ast.Name) and q.value.func.id == "set" and not q.value.args):
                        return False
                elif isinstance(q, ast.Compare) and len(q.ops) == 1 and \
                        isinstance(q.ops[0], (ast.In, ast.NotIn)) and q.comparators[0] is x:
                    continue
                elif isinstance(q, ast.Attribute) and q.attr == "add" and isinstance(par.get(q), ast.Call):
                    continue
                else:
                    return False
        return True
    def skip_escapes(call: ast.Call) -> List[str]:
        """For `if id(x) in seen: continue` / `if id(x) not in seen: ...`: the work that is skipped
        for an object met before.  Skipping is value-neutral only when that work is confined to the
        object itself (in-place normalisation) and to locals; a store through self records something
        per occurrence, and two equal specifications (one spelled out, one sharing the object through
        a YAML alias) would then compile differently."""
        cmp_ = par.get(call)
        if not (isinstance(cmp_, ast.Compare) and isinstance(cmp_.ops[0], (ast.In, ast.NotIn))):
            return []
        test = cmp_
        while isinstance(par.get(test), (ast.BoolOp, ast.UnaryOp)):
            test = par[test]
        if_ = par.get(test)
        if not (isinstance(if_, ast.If) and if_.test is test):
            return []
        skipped: List[ast.stmt] = []
        if isinstance(cmp_.ops[0], ast.NotIn):
            skipped = list(if_.body)
        elif if_.body and isinstance(if_.body[-1], (ast.Continue, ast.Return, ast.Break)):
            holder = par.get(if_)
            for fld in ("body", "orelse"):
                sts = getattr(holder, fld, None)
                if isinstance(sts, list) and if_ in sts:
                    skipped = sts[sts.index(if_) + 1:]
        esc = []
        for st in skipped:
            for x in ast.walk(st):
                recv = None
                if isinstance(x, ast.Call) and isinstance(x.func, ast.Attribute) and x.func.attr in paths.MUTATORS:
                    recv = x.func.value
                elif isinstance(x, (ast.Assign, ast.AugAssign, ast.AnnAssign)):
                    for t in (x.targets if isinstance(x, ast.Assign) else [x.target]):
                        if isinstance(t, (ast.Subscript, ast.Attribute)):
                            recv = t
                b = recv
                while isinstance(b, (ast.Subscript, ast.Attribute)):
                    b = b.value
                if isinstance(b, ast.Name) and b.id in ("self", "cls"):
                    esc.append(norm(recv)[:50])
        return esc

    for n in ast.walk(tree):
        if isinstance(n, ast.Call):
            if isinstance(n.func, ast.Name) and n.func.id == "id":
                if identity_only(n):
                    esc = skip_escapes(n)
                    if esc:
                        out.append((n, "work skipped for an object met before (id() test) is recorded per "
                                       "occurrence (%s): an aliased entry and a spelled-out copy of it "
                                       "compile differently" % ", ".join(sorted(set(esc))[:3])))
                    continue
                out.append((n, "id() call"))
            elif isinstance(n.func, ast.Name) and n.func.id in NONDET_CALLS and n.func.id in imported:
                out.append((n, "%s() call" % n.func.id))
            elif isinstance(n.func, ast.Attribute) and isinstance(n.func.value, ast.Name) and \
                    n.func.value.id in NONDET_MODULES and n.func.value.id in imported and \
                    n.func.attr in NONDET_CALLS:
                out.append((n, "%s.%s() call" % (n.func.value.id, n.func.attr)))
    return out


@fixture("C15/G1 process-state matcher")
def _fx_g1() -> bool:
    src = ("CACHE = {}\nclass A:\n    memo = {}\n    def f(self, x=[]):\n        global CACHE\n"
           "        self.memo[x] = 1\n        A.count = 2\n        CACHE.update({1: 2})\n")
    kinds = {w.split(" ")[0] for _, w in process_state_findings(ast.parse(src))}
    return {"global", "mutable", "store", "class-level"} <= kinds


@fixture("C15/G2 nondeterminism matcher")
def _fx_g2() -> bool:
    src = "import time, random\ndef f(x):\n    return id(x), time.time(), random.random()\n"
    return len(nondet_findings(ast.parse(src))) == 3


def run(db: DB, rep: Report) -> None:
    rep.explanation = (
        "Interprocedural alias-depth analysis over teaal/ir, teaal/trans and teaal/parse: every value "
        "carries the number of container levels below it that the compiler created; reads of the "
        "fields of Einsum/Mapping/Architecture/Bindings/Format have depth 0; copies add a level, "
        "deepcopy and constructor calls are fresh, subscripts/iteration remove a level; field, "
        "parameter and return depths are minima over all stores / call sites / returns, to a fixed "
        "point. A sink is an in-place mutation (subscript store, del, builtin mutator method, "
        "attribute store on a non-self object) whose target has depth 0, outside the parser classes' "
        "own constructors. Process-level state and address/time-dependent values are excluded by "
        "syntactic rules with positive fixtures.")
    rep.trusted += ["annotation-driven receiver typing (sa/db.py)",
                    "flow-insensitive alias-depth transfer functions of sa/alias.py"]
    rep.assumptions += ["objects reachable only through networkx/sympy/lark internals are treated as "
                        "exposing their interior at the same depth"]

    # ---- A1 --------------------------------------------------------------------
    rep.rule("A2", "a component's binding lists are private per Einsum", 1)
    _check_per_einsum_copy(db, rep)
    rep.rule("A1", "no in-place mutation of a value that may be owned by a parsed input object "
             "(one instance per function with mutation sites)", 80)
    a = AliasDepth(db)
    sinks = a.sinks()
    rep.extra["mutation_sites_examined"] = a.n_mutation_sites
    rep.extra["input_sources"] = sorted(a.sources)
    rep.extra["fixpoint_iterations"] = a.iterations
    if a.n_mutation_sites < 150:
        raise AnalysisError("only %d mutation sites examined (floor 150)" % a.n_mutation_sites)
    if len(a.sources) < 9:
        raise AnalysisError("only %d parser-field sources seen (floor 9)" % len(a.sources))
    bad_nodes = {id(s["node"]) for s in sinks}
    # one instance per examined site
    for f in a.funcs:
        pass
    for s in sinks:
        f, n = s["func"], s["node"]
        rep.check("A1", False, db.loc(n), f.short, "%s:%s" % (s["kind"], norm(s["target"])),
                  "mutation of %s" % norm(s["target"]),
                  "%s performs '%s' (%s) on %s, which may be (part of) a parsed input object handed out "
                  "by a parser getter: compiling mutates the caller's specification, so a second "
                  "compilation from the same objects can differ or fail" %
                  (f.short, norm(n)[:90], s["kind"], norm(s["target"])))
    # record the clean sites in bulk (one instance per function with mutation sites)
    per_func: Dict[str, int] = {}
    for f in a.funcs:
        if f.cls is not None and f.cls.qualname in P5 and f.name == "__init__":
            continue
        cnt = 0
        for n in walk_no_nested(f.node):
            if isinstance(n, ast.Call) and isinstance(n.func, ast.Attribute) and n.func.attr in paths.MUTATORS:
                cnt += 1
            elif isinstance(n, (ast.Assign, ast.AugAssign, ast.Delete)):
                ts = n.targets if isinstance(n, (ast.Assign, ast.Delete)) else [n.target]
                cnt += sum(1 for t in ts if isinstance(t, ast.Subscript))
        if cnt:
            per_func[f.short] = cnt
    for fs, cnt in sorted(per_func.items()):
        rep.instance("A1", fs, "%d mutation site(s) examined, none reaches an input object" % cnt
                     if not any(s["func"].short == fs for s in sinks) else "%d mutation site(s)" % cnt,
                     ok=not any(s["func"].short == fs for s in sinks))
    # the getters really are sources: every P5 getter returning a field has return depth <= 1
    rep.rule("A1s", "parser getters are recognised as sources", 8)
    for q in sorted(P5):
        c = db.cls(q)
        for nm, g in sorted(c.methods.items()):
            if not nm.startswith("get_"):
                continue
            d = a.R.get(g.qualname, 9)
            rt = db.return_type(g)
            if rt[0] in ("str", "int", "bool"):
                continue
            rep.check("A1s", d <= 1, db.loc(g.node), g.short, "source:" + g.short,
                      "%s hands out parser-owned data (depth %d)" % (g.short, d),
                      "the analysis no longer sees %s as a source of input-owned data (depth %d): its "
                      "model of the parser classes is out of date" % (g.short, d))

    # ---- G1 / G2 ---------------------------------------------------------------
    rep.rule("G1", "no process-level state", 0)
    rep.rule("G2", "no address- or time-dependent values; value-based hashing", 1)
    for m in db.modules.values():
        for node, what in process_state_findings(m.tree):
            fi = db.func_of(node)
            rep.check("G1", False, db.loc(node), fi.short if fi else m.name, "state:" + what, what,
                      "%s in %s: state that outlives one compilation makes the emitted text depend on "
                      "what was compiled earlier in the process" % (what, m.rel))
        for node, what in nondet_findings(m.tree):
            fi = db.func_of(node)
            rep.check("G2", False, db.loc(node), fi.short if fi else m.name, "nondet:" + what, what,
                      "%s in %s: the value differs between runs/objects and can reach emitted text or "
                      "iteration order" % (what, m.rel))
    for c in db.classes.values():
        if "__eq__" in c.methods:
            h = c.lookup("__hash__")
            if h is None:
                continue
            bad = [n for n in walk_no_nested(h.node) if isinstance(n, ast.Call) and
                   ((isinstance(n.func, ast.Name) and n.func.id == "id") or
                    (isinstance(n.func, ast.Attribute) and n.func.attr == "__hash__"))]
            rep.check("G2", not bad, db.loc(h.node), h.short, "hash:" + c.name,
                      "%s: __hash__ is value-based (%s)" % (c.name, norm(h.node.body[-1])[:60]),
                      "%s defines __eq__ but hashes by identity; equal nodes/keys would not collapse and "
                      "iteration order would depend on addresses" % c.name)
    rep.extra["modules_scanned"] = len(db.modules)

    # ---- G3 --------------------------------------------------------------------
    rep.rule("G3", "memoisation lives on per-Einsum objects", 2)
    part = db.cls("teaal.ir.partitioning.Partitioning")
    # caches: nx.set_node_attributes(self.graph, ...) / self.graph.nodes[...][k] = v outside construction
    from sa.rules.c05 import construction_helpers
    helpers = construction_helpers(db, part)
    n_cache = 0
    for nm, f in part.methods.items():
        if nm in helpers:
            continue
        for n in walk_no_nested(f.node):
            is_cache = False
            if isinstance(n, ast.Call) and norm(n.func).endswith("set_node_attributes"):
                is_cache = True
                owner = norm(n.args[0]) if n.args else "?"
            elif isinstance(n, ast.Assign) and isinstance(n.targets[0], ast.Subscript) and \
                    ".nodes[" in norm(n.targets[0]):
                is_cache = True
                owner = norm(n.targets[0]).split(".nodes[")[0]
            if is_cache:
                n_cache += 1
                rep.check("G3", owner == "self.graph", db.loc(n), f.short, "cache:" + f.short,
                          "%s memoises on %s" % (f.short, owner),
                          "%s memoises on %s, which is not the per-Einsum partition graph" % (f.short, owner))
    if n_cache < 1:
        rep.notes.append("no per-graph memoisation site found in Partitioning any more")
    # Partitioning objects are created per Einsum, only in Program.add_einsum
    sites = []
    for f in db.functions.values():
        for n in walk_no_nested(f.node):
            if isinstance(n, ast.Call) and isinstance(n.func, ast.Name) and n.func.id == "Partitioning" and \
                    f.module.ns.get("Partitioning", ("",))[0] == "class":
                sites.append((f, n))
    ok = bool(sites) and all(f.qualname == "teaal.ir.program.Program.add_einsum" for f, n in sites)
    rep.check("G3", ok, db.loc(sites[0][1]) if sites else db.loc(part.node), "Program.add_einsum",
              "partitioning-per-einsum", "Partitioning (owner of the caches) is built only in Program.add_einsum",
              "a Partitioning object is created outside Program.add_einsum (%s); its node caches would be "
              "shared by several Einsums" % [g.short for g, _ in sites])


def _check_per_einsum_copy(db: DB, rep: Report) -> None:
    """A2: the bindings a component is constructed with are copied per Einsum.  A deep copy of
    the whole {einsum: list} dictionary keeps two Einsums that share one list (a YAML alias)
    on one list, and the components extend these lists in place."""
    bc = db.func("teaal.ir.hardware.Hardware.__build_component")
    ctor = [n for n in walk_no_nested(bc.node) if isinstance(n, ast.Call) and isinstance(n.func, ast.Name)
            and len(n.args) == 4]
    if len(ctor) != 1:
        rep.undecided("A2", db.loc(bc.node), bc.short, "the component constructor call was not found")
        return
    v = paths.resolve_flow(ctor[0].args[3], ctor[0], bc.node, depth=2)
    per_key = isinstance(v, ast.DictComp) and isinstance(v.value, ast.Call) and \
        norm(v.value.func) in ("deepcopy", "copy.deepcopy")
    whole = isinstance(v, ast.Call) and norm(v.func) in ("deepcopy", "copy.deepcopy")
    rep.check("A2", per_key, db.loc(ctor[0]), bc.short, "binding-copy",
              "the component's bindings are deep-copied separately for every Einsum",
              "Hardware.__build_component hands the component %s: binding lists that two Einsums share "
              "(a YAML anchor/alias) stay one list inside a single deep copy, and the in-place expansion of "
              "eager bindings for one Einsum shows up in the other - equal specifications compile to "
              "different programs" % norm(v)[:70], decided=per_key or whole)


def mutants(db: DB):
    from sa.selftest import M
    ten, hw, prog, part = "teaal/ir/tensor.py", "teaal/ir/hardware.py", "teaal/ir/program.py", "teaal/ir/partitioning.py"
    return [
        M("revert F3 fix", hw, "        binding = {einsum: deepcopy(einsum_bindings) for einsum, einsum_bindings\n                   in self.bindings.get_component(name).items()}",
          "        binding = self.bindings.get_component(name)", "A1"),
        M("shallow copy instead of deep copy", hw, "        binding = {einsum: deepcopy(einsum_bindings) for einsum, einsum_bindings\n                   in self.bindings.get_component(name).items()}",
          "        binding = self.bindings.get_component(name).copy()", "A1"),
        M("revert F14 fix (one deep copy of the whole dictionary)", hw, "        binding = {einsum: deepcopy(einsum_bindings) for einsum, einsum_bindings\n                   in self.bindings.get_component(name).items()}",
          "        binding = deepcopy(self.bindings.get_component(name))", "A2"),
        M("Tensor keeps the declaration list", ten, "        self.ranks = ranks.copy()", "        self.ranks = ranks", "A1"),
        M("declared ranks sorted in place", prog, "        for ten_name in declaration:\n            tensor = Tensor(ten_name, declaration[ten_name])",
          "        for ten_name in declaration:\n            declaration[ten_name].sort()\n            tensor = Tensor(ten_name, declaration[ten_name])",
          "A1"),
        M("format rank-order extended in place", "teaal/ir/metrics.py",
          "                format_ranks = spec[format_][\"rank-order\"]\n",
          "                format_ranks = spec[format_][\"rank-order\"]\n                format_ranks.append(tensor)\n", "A1"),
        M("loop order list reversed in place", "teaal/ir/loop_order.py", "    def get_ranks(self) -> List[str]:",
          "    def get_ranks_rev(self) -> List[str]:\n        self.ranks.reverse()\n        return self.ranks\n\n    def get_ranks(self) -> List[str]:",
          "A1"),
        M("loop order list extended with += (C15-u3)", "teaal/trans/collector.py",
          "        loop_order = self.program.get_loop_order().get_ranks() + [\"body\"]",
          "        loop_order = self.program.get_loop_order().get_ranks()\n        loop_order += [\"body\"]", "A1"),
        M("benign: += on a fresh copy of the loop order", "teaal/trans/collector.py",
          "        loop_order = self.program.get_loop_order().get_ranks() + [\"body\"]",
          "        loop_order = list(self.program.get_loop_order().get_ranks())\n        loop_order += [\"body\"]",
          (), benign=True),
        M("aliased binding entries read once across Einsums (C13-u3)", "teaal/parse/bindings.py",
          "            for binding in yaml[\"bindings\"][einsum]:\n                if \"config\" in binding:",
          "            for binding in yaml[\"bindings\"][einsum]:\n                if id(binding) in self.__dict__.setdefault(\"_seen\", set()):\n                    continue\n                self._seen.add(id(binding))\n                if \"config\" in binding:",
          "G2"),
        M("architecture attributes defaulted in place", "teaal/ir/component.py",
          "        self.bandwidth = self._check_attr(attrs, \"bandwidth\", int)",
          "        attrs.setdefault(\"bandwidth\", 1)\n        self.bandwidth = self._check_attr(attrs, \"bandwidth\", int)", "A1"),
        M("class-level cache", part, "class Partitioning:\n", "class Partitioning:\n    _root_cache = {}\n", (), benign=True,
          note="unused class attribute: silent"),
        M("class-level cache used", "teaal/ir/tensor.py", "    def root_name(self) -> str:\n        \"\"\"\n        Return the name of the tensor as defined in the Einsum\n        \"\"\"\n        return self.name",
          "    _names = {}\n\n    def root_name(self) -> str:\n        \"\"\"\n        Return the name of the tensor as defined in the Einsum\n        \"\"\"\n        self._names[self.name] = True\n        return self.name",
          "G1"),
        M("lru_cache on a method", part, "    def get_root_name(self, rank: str) -> str:",
          "    @lru_cache(maxsize=None)\n    def get_root_name(self, rank: str) -> str:", "G1"),
        M("mutable default argument", "teaal/trans/utils.py", "    def __init__(self, program: Program) -> None:\n        self.count = -1",
          "    def __init__(self, program: Program, seen: list = []) -> None:\n        self.count = -1", "G1"),
        M("identity hash", "teaal/ir/node.py", "        return hash(repr(self))", "        return id(self)", "G2"),
        M("Partitioning built once in Program.__init__", prog, "        self.spacetime: Optional[SpaceTime] = None\n\n    def add_einsum",
          "        self.spacetime: Optional[SpaceTime] = None\n        self.default_part = Partitioning({}, set(), CoordMath())\n\n    def add_einsum",
          "G3"),
        M("benign: deepcopy kept, renamed local", hw, "        binding = deepcopy(self.bindings.get_component(name))\n\n        component = class_(name, num_instances, local[\"attributes\"], binding)",
          "        own = deepcopy(self.bindings.get_component(name))\n\n        component = class_(name, num_instances, local[\"attributes\"], own)",
          (), benign=True),
    ]
