"""
C06 - every emitted program is valid, closed Python.

Decided (DESIGN.md section 3, C06) - necessary conditions of closedness that
hold for every specification because they are properties of the emitters:
  N1 every literal-bearing identifier an emitter reads is spelled the way some
     emitter binds it (or is a HiFiber API / builtin name)
  N2 an identifier bound only in some compilation mode is read only in that mode
  N3 a temporary is named as receiver before the next temporary is allocated
  N5 clones of a computed-name derivation prepare their object the same way
  (N4, non-empty block bodies, is rule B1 of C09.)
Not decided: per-specification statement order; names built purely from data.
"""

from __future__ import annotations

import ast
import re
from typing import Any, Dict, List, Optional, Set, Tuple

from sa import paths
from sa.db import ANY, DB, AnalysisError, FuncInfo, norm, walk_no_nested
from sa.modes import Modes
from sa.fixtures import fixture
from sa.report import Report
from sa.rules.c09 import analyse

EXTERNAL = {
    "Tensor", "Fiber", "Metrics", "Traffic", "Compute", "Format", "createCanvas", "displayCanvas",
    "enumerate", "len", "int", "min", "max", "set", "float", "None",
    "LeaderFollowerIntersector", "SkipAheadIntersector", "TwoFingerIntersector",
}

BINDER_ROLES = {"binder"}
READER_ROLES = {"reader", "callee"}


def key_of(t: Tuple) -> Tuple[str, ...]:
    out = []
    for p in t:
        if isinstance(p, str):
            s = re.sub(r"[0-9]", "", p)
            if s:
                out.append(s)
    return tuple(out)


def has_letter(k: Tuple[str, ...]) -> bool:
    return any(re.search(r"[A-Za-z]", p) for p in k)


def show(t: Tuple) -> str:
    return "".join("□" if not isinstance(p, str) else p for p in t)


def collect(db: DB):
    pm, hm, it = analyse(db)
    binders: Dict[Tuple[str, ...], List[Dict[str, Any]]] = {}
    readers: Dict[Tuple[str, ...], List[Dict[str, Any]]] = {}
    n_sites = 0
    for rec in hm.names.values():
        if rec["role"] in BINDER_ROLES or rec["role"] in READER_ROLES:
            n_sites += 1
        for t in rec["tmpls"]:
            k = key_of(t)
            if rec["role"] in BINDER_ROLES:
                binders.setdefault(k, []).append({"rec": rec, "tmpl": t})
            elif rec["role"] in READER_ROLES:
                readers.setdefault(k, []).append({"rec": rec, "tmpl": t})
    return hm, it, binders, readers, n_sites


@fixture("C06/N10 lost-update matcher")
def _fx_n10() -> bool:
    src = ("def f(e, syms):\n    full = e\n    for s in syms:\n        if s.part:\n"
           "            e = full.subs(s, s.name + '0')\n    return e\n"
           "def g(e, syms):\n    for s in syms:\n        if s.part:\n"
           "            e = e.subs(s, s.name + '0')\n    return e\n")
    tree = paths.link_parents(ast.parse(src))
    f_, g_ = tree.body
    return len(paths.lost_updates(f_)) == 1 and not paths.lost_updates(g_)


def run(db: DB, rep: Report) -> None:
    rep.explanation = (
        "The builder abstract interpreter (see C09) records, for every construction of EVar / AVar / "
        "PVar / EFunc / ELambda / EField in teaal/trans, the string templates its name can take "
        "(literal pieces and holes; Tensor.fiber_name / tensor_name and TransUtils.next_tmp / curr_tmp "
        "are interpreted). The key of a template is its literal pieces with digits removed. N1: every "
        "reader key containing a letter is a binder key or a HiFiber API / builtin name. N2: mode atoms "
        "(metrics on/off, spacetime on/off, slip) implied by the interprocedural guard of every binder "
        "of a key are intersected; every reader of that key must carry them. N3: receiver temporary "
        "named before the next is allocated. N5: the four clones that derive the *_iter_num variable "
        "from a fresh Tensor prepare it with the same calls.")
    rep.trusted += ["abstract interpreter + printer model of C09", "mode-guard propagation of sa/modes.py"]
    rep.assumptions += ["names built only from specification data (rank / tensor names) are consistent",
                        "the flow graph orders binders before readers (structural part: C10)"]
    hm, it, binders, readers, n_sites = collect(db)
    if n_sites < 140:
        raise AnalysisError("only %d name sites reached by the abstract interpreter (floor 140)" % n_sites)
    rep.extra["name_sites"] = n_sites
    lkeys = sorted(k for k in set(binders) | set(readers) if has_letter(k))
    rep.extra["letter_keys"] = ["".join(k) if len(k) == 1 else "|".join(k) for k in lkeys]

    # ---- N1 --------------------------------------------------------------------
    rep.rule("N1", "every literal-bearing identifier read is spelled as some emitter binds it", 25)
    for k in sorted(readers):
        if not has_letter(k):
            continue
        sites = readers[k]
        full = {show(s["tmpl"]) for s in sites}
        ok = k in binders or (len(k) == 1 and k[0] in EXTERNAL) or \
            all(show(s["tmpl"]) in EXTERNAL for s in sites)
        first = sites[0]["rec"]
        where = db.loc(first["node"])
        bspell = sorted({show(b["tmpl"]) for kk, bs in binders.items() for b in bs
                         if has_letter(kk) and (set(kk) & set(k))})[:4]
        rep.check("N1", ok, where, first["func"].short if first["func"] else "?",
                  "read:" + "|".join(k),
                  "identifier %s read at %d site(s): %s" % (sorted(full)[:3], len(sites),
                                                         "bound by an emitter" if k in binders else "HiFiber API / builtin"),
                  "the emitted program reads an identifier spelled %s (e.g. at %s) but no emitter binds a "
                  "name with these literal parts and it is not a HiFiber API name%s" %
                  (sorted(full)[:3], where, "; similar bound spellings: %s" % bspell if bspell else ""))

    # ---- N2 --------------------------------------------------------------------
    rep.rule("N2", "identifiers bound only in some compilation mode are read only in that mode", 3)
    modes = Modes(db)
    n_guarded = 0
    for k in lkeys:
        if k not in binders or k not in readers:
            continue
        M: Optional[Set[str]] = None
        for b in binders[k]:
            r = b["rec"]
            m = modes.full_modes(r["node"], r["func"]) if r["func"] else set()
            M = m if M is None else (M & m)
        M = M or set()
        if not M:
            continue
        n_guarded += 1
        for s in readers[k]:
            r = s["rec"]
            m = modes.full_modes(r["node"], r["func"]) if r["func"] else set()
            missing = sorted(M - m)
            rep.check("N2", not missing, db.loc(r["node"]), r["func"].short if r["func"] else "?",
                      "mode:%s@%s" % ("|".join(k), r["func"].short if r["func"] else "?"),
                      "%s (bound only under %s) read under %s" % (show(s["tmpl"]), sorted(M), sorted(m)),
                      "identifier %s is bound only when %s, but %s reads it without that condition "
                      "(missing: %s): in the other mode the emitted program reads an unbound name" %
                      (show(s["tmpl"]), " and ".join(sorted(M)), r["func"].short if r["func"] else "?",
                       ", ".join(missing)))
    rep.extra["mode_guarded_keys"] = n_guarded
    if n_guarded < 2:
        raise AnalysisError("only %d mode-guarded identifier keys found (floor 2)" % n_guarded)

    # ---- N6: the loop binds <rank>_pos whenever the interval code reads it -------
    rep.rule("N6", "the position variable is bound whenever the interval code needs it", 1)
    from sa.rules.c16 import check_need_enumerate
    check_need_enumerate(db, rep, "N6")
    from sa.rules.c16 import check_pos_paths
    check_pos_paths(db, rep, "N6", hm)

    # ---- N7: every index variable of a projected expression is renamed by its own partitioning
    rep.rule("N7", "bottom-rank projection renames each index variable by that variable's own partitioning", 1)
    itf = db.func("teaal.trans.equation.Equation.__iter_fiber")
    loops7 = [n for n in walk_no_nested(itf.node) if isinstance(n, ast.For) and
              "atoms" in paths.called_names([n.iter]) and
              any(isinstance(x, ast.Call) and isinstance(x.func, ast.Attribute) and x.func.attr == "subs"
                  for x in ast.walk(n))]
    if len(loops7) != 1:
        raise AnalysisError("symbol-renaming loop of Equation.__iter_fiber not found")
    lp7 = loops7[0]
    subs7 = [x for x in ast.walk(lp7) if isinstance(x, ast.Call) and isinstance(x.func, ast.Attribute)
             and x.func.attr == "subs"]
    inner = {x.id for s_ in lp7.body for x in ast.walk(s_) if isinstance(x, ast.Name) and isinstance(x.ctx, ast.Store)}
    inner |= {x.id for x in ast.walk(lp7.target) if isinstance(x, ast.Name)}
    for sb in subs7:
        outside = set()
        for t, pol in paths.guards(sb, stop=lp7):
            # a name that is only the receiver of a method call (the partitioning the question
            # is put to) is the context of the question, not a datum the answer is compared with
            recv = {id(c.func.value) for c in ast.walk(t) if isinstance(c, ast.Call)
                    and isinstance(c.func, ast.Attribute) and isinstance(c.func.value, ast.Name)}
            outside |= {x.id for x in ast.walk(t) if isinstance(x, ast.Name) and isinstance(x.ctx, ast.Load)
                        and id(x) not in recv and x.id not in inner and x.id not in ("str", "len", "self")}
        rep.check("N7", not outside, db.loc(sb), itf.short, "rename-guard:" + norm(sb)[:50],
                  "the renaming %s depends only on the symbol's own partitioning" % norm(sb)[:40],
                  "whether an index variable of the projected expression is renamed to its bottom partition "
                  "level depends on %s, which is not derived from that variable: a variable with its own "
                  "partitioning keeps its root name, which no loop binds" % sorted(outside))

    # ---- N8: the statement that binds <Tensor>_<init ranks> for the merger metrics exists
    # whenever the reader's data (the merger bindings) asks for it
    rep.rule("N8", "the 'metrics' swizzle that binds a merger's input exists whenever metrics "
             "collection and the merger bindings ask for it", 1)
    bsr = db.func("teaal.ir.flow_graph.FlowGraph.__build_swizzle_root_fiber")
    msw = [n for n in walk_no_nested(bsr.node) if isinstance(n, ast.Call) and norm(n.func) == "SwizzleNode"
           and any(isinstance(a, ast.Constant) and a.value == "metrics" for a in n.args)]
    if len(msw) != 1:
        raise AnalysisError("the SwizzleNode(..., 'metrics') of FlowGraph.__build_swizzle_root_fiber was not found")
    # names derived from Metrics.get_merger_init_ranks (what the reader iterates)
    derived: Set[str] = set()
    for n in walk_no_nested(bsr.node):
        if isinstance(n, ast.Assign) and isinstance(n.targets[0], ast.Name) and \
                "get_merger_init_ranks" in paths.called_names([n.value]):
            derived.add(n.targets[0].id)
    for t, pol in paths.guards(msw[0], stop=bsr.node):
        for a, p in paths.conjuncts(t, pol):
            names = paths.load_names(a) - {"self", "len"}
            attrs = paths.self_attrs(a)
            calls = paths.called_names([a])
            ok = names <= derived and attrs <= {"metrics"} and calls <= {"get_merger_init_ranks", "len"}
            rep.check("N8", ok, db.loc(a), bsr.short, "metrics-swizzle-guard:" + norm(a)[:50],
                      "guard %s depends only on the metrics mode and the merger's own bindings" % norm(a)[:50],
                      "the statement binding <Tensor>_<init-ranks> for a merger is emitted only when %s%s, a "
                      "condition the collector does not test when it emits Compute.numSwaps(<Tensor>_<init-ranks>, "
                      "...) for every merger binding: the name can be read unbound" %
                      ("" if p else "not ", norm(a)[:60]))

    # ---- N9: collections are probed with keys of the kind they are keyed by
    rep.rule("N9", "membership tests and look-ups probe a collection with a key of its key kind "
             "(rank tuples vs rank names)", 120)

    def kind(t) -> Optional[str]:
        if not t:
            return None
        if t[0] in ("str", "int", "bool", "float"):
            return "scalar"
        if t[0] in ("tuple", "list"):
            return "sequence"
        return None

    def key_type(t):
        if t and t[0] == "dict":
            return t[1]
        if t and t[0] in ("set", "list"):
            return t[1]
        return None

    def binding_kinds(nm: str, f: FuncInfo) -> Set[Any]:
        """the types of all bindings of local nm in f (None: a binding of unknown type)"""
        out: Set[Any] = set()

        def known(t):
            return t if t and t != ANY else None
        for x in walk_no_nested(f.node):
            if isinstance(x, ast.Assign):
                for tg in x.targets:
                    if isinstance(tg, ast.Name) and tg.id == nm:
                        out.add(known(db.type_of(x.value, f)))
                    elif any(isinstance(y, ast.Name) and y.id == nm for y in ast.walk(tg)):
                        out.add(None)
            elif isinstance(x, ast.AnnAssign) and isinstance(x.target, ast.Name) and x.target.id == nm:
                out.add(known(db.ann_type(f.module, x.annotation)))
            elif isinstance(x, (ast.For, ast.comprehension)):
                if isinstance(x.target, ast.Name) and x.target.id == nm:
                    it_t = db.type_of(x.iter, f)
                    out.add(known(key_type(it_t)) if it_t and it_t[0] in ("dict", "set", "list") else None)
                elif any(isinstance(y, ast.Name) and y.id == nm for y in ast.walk(x.target)):
                    out.add(None)
            elif isinstance(x, (ast.AugAssign, ast.NamedExpr)) and isinstance(x.target, ast.Name) and \
                    x.target.id == nm:
                out.add(None)
        return out

    def settled(e: ast.AST, f: FuncInfo) -> bool:
        """every local in e has one kind over all of its bindings in f"""
        for x in ast.walk(e):
            if isinstance(x, ast.Name) and x.id not in f.call_params and x.id != "self":
                ks = binding_kinds(x.id, f)
                if len(ks) > 1 or None in ks:
                    return False
        return True

    for f in db.all_functions(["teaal."]):
        for x in walk_no_nested(f.node):
            pairs = []
            if isinstance(x, ast.Compare) and len(x.ops) == 1 and isinstance(x.ops[0], (ast.In, ast.NotIn)):
                pairs.append((x.left, x.comparators[0], False))
            if isinstance(x, ast.Subscript) and not isinstance(x.slice, ast.Slice):
                pairs.append((x.slice, x.value, True))
            if isinstance(x, ast.Call) and isinstance(x.func, ast.Attribute) and \
                    x.func.attr in ("get", "pop", "setdefault") and x.args:
                pairs.append((x.args[0], x.func.value, True))
            for probe, cont, needs_dict in pairs:
                ct = db.type_of(cont, f)
                if needs_dict and (not ct or ct[0] != "dict"):
                    continue
                kk, pk = kind(key_type(ct)), kind(db.type_of(probe, f))
                if kk is None or pk is None:
                    continue
                if kk != pk and not (settled(probe, f) and settled(cont, f)):
                    continue    # a local re-used with several types: not decided here
                rep.check("N9", kk == pk, db.loc(x), f.short, "key-kind:" + norm(x)[:60],
                          "%s: %s key probed with a %s" % (norm(x)[:50], kk, pk),
                          "%s probes a collection keyed by a %s (%s) with a %s (%s): the test can never "
                          "succeed, so the decision it guards silently always goes one way" %
                          (norm(x)[:70], kk, norm(cont)[:40], pk, norm(probe)[:40]))

    # ---- N10: a per-element rewrite accumulates (no update is lost) ------------------
    rep.rule("N10", "a value rewritten once per element of a loop carries the previous rewrites", 100)
    if not _fx_n10():
        raise AnalysisError("N10 matcher does not fire on its positive example")
    for f in db.all_functions(["teaal.trans.", "teaal.ir."]):
        lost = paths.lost_updates(f.node)
        rep.check("N10", not lost, db.loc(lost[0][0]) if lost else db.loc(f.node), f.short,
                  "lost-update:" + (norm(lost[0][0])[:50] if lost else f.short),
                  "%s: no per-element result is overwritten by the next element's" % f.short,
                  "%s computes '%s' once per element of %s without the previous result as an operand and "
                  "without reading it in the loop: only the last element's rewrite survives (e.g. only one "
                  "index variable is renamed to its partition level, the others keep a name no loop binds)" %
                  (f.short, norm(lost[0][0])[:70] if lost else "", norm(lost[0][1].iter)[:40] if lost else ""))

    # ---- N14: the update reads <tensor>_val only when every tensor was walked to its values ----
    rep.rule("N14", "the update is emitted only after a check that no tensor is left at an un-iterated rank", 1)
    n_n14 = 0
    for f in db.all_functions(["teaal.trans.hifiber."]):
        for c in walk_no_nested(f.node):
            if not (isinstance(c, ast.Call) and isinstance(c.func, ast.Attribute) and c.func.attr == "make_update"):
                continue
            n_n14 += 1
            st = c
            while not isinstance(st, ast.stmt):
                st = st.parent
            _, _, blk = paths.block_of(st)
            before = blk[:blk.index(st)]
            guarded = False
            for b_ in before:
                for r_ in [x for x in ast.walk(b_) if isinstance(x, ast.Raise)]:
                    lp_ = [p_ for p_ in paths.parents(r_, f.node) if isinstance(p_, ast.For)]
                    if not lp_ or "get_tensors" not in paths.called_names(
                            [paths.resolve_flow(lp_[0].iter, lp_[0], f.node, depth=2)]):
                        continue
                    tests = [norm(paths.resolve_flow(a, t, f.node, depth=2))
                             for t, pol in paths.guards(r_, stop=f.node) for a, p_ in paths.conjuncts(t, pol)]
                    if any(".peek()" in t_ for t_ in tests):
                        guarded = True
            rep.check("N14", guarded, db.loc(c), f.short, "update:all-tensors-walked",
                      "make_update() is preceded by 'raise unless tensor.peek() is None' over all tensors",
                      "%s emits the update without checking that every tensor has been walked to its values: "
                      "when two ranks of one tensor become available in the same loop (I[q + s, s], A[m, m]) one "
                      "of them is never looked up, and the update reads <tensor>_val, which nothing binds" % f.short)
    if n_n14 < 1:
        raise AnalysisError("no call of make_update() found in teaal/trans/hifiber.py (N14)")

    # ---- N13: a variable named after a loop rank is the variable that loop binds -------------
    rep.rule("N13", "a coordinate variable read for a rank of the loop order is taken from "
             "LoopOrder.get_iter_ranks (a flattened loop binds one variable per flattened rank)", 1)
    n_n13 = 0
    for f in db.all_functions(["teaal.trans."]):
        for n in walk_no_nested(f.node):
            if not (isinstance(n, ast.Call) and norm(n.func) in ("EVar", "PVar") and n.args):
                continue
            a = n.args[0]
            if not (isinstance(a, ast.Call) and isinstance(a.func, ast.Attribute) and a.func.attr == "lower"
                    and isinstance(a.func.value, ast.Name)):
                continue
            nms, exprs = paths.backward_slice(f.node, [a.func.value.id], with_control=False)
            calls = paths.called_names(exprs)
            if not ("get_loop_order" in calls and "get_ranks" in calls):
                continue
            n_n13 += 1
            rep.check("N13", "get_iter_ranks" in calls, db.loc(n), f.short, "loop-var:" + norm(n)[:40],
                      "%s names a variable obtained through get_iter_ranks" % norm(n)[:40],
                      "%s reads a variable named after a rank of the loop order (%s): the loop over a flattened "
                      "rank binds (k, m), not km, so the emitted program reads a name that nothing binds" %
                      (f.short, norm(n)[:50]))
    if n_n13 < 1:
        raise AnalysisError("no coordinate variable derived from the loop order found (N13)")

    # ---- N12: extents named in a shape= argument are extents the user supplies ----------
    rep.rule("N12", "a shape= argument names the root of a rank only if the rank does not stem from a "
             "flattening (else the product of its constituents' extents)", 2)
    n_n12 = 0
    for f in db.all_functions(["teaal.trans."]):
        sinks = []
        for n in walk_no_nested(f.node):
            if isinstance(n, ast.Call) and isinstance(n.func, ast.Attribute) and n.func.attr == "build_shape" \
                    and n.args:
                sinks.append((n, n.args[0]))
            if isinstance(n, ast.Call) and norm(n.func) == "AParam" and len(n.args) == 2 and \
                    isinstance(n.args[0], ast.Constant) and n.args[0].value == "shape":
                v = n.args[1]
                if isinstance(v, ast.Call) and norm(v.func) == "EList" and v.args:
                    v = v.args[0]
                sinks.append((n, v))
        if f.short == "TransUtils.build_shape":
            continue        # the helper itself: its callers are the sinks
        for site, lst in sinks:
            # the elements of the list: list display / comprehension, or appends to a local list
            elems: List[Tuple[ast.AST, ast.AST]] = []        # (where it is added, element expression)
            if isinstance(lst, ast.Name):
                for st, v in paths.defs_of(f.node, lst.id):
                    if isinstance(st, ast.Call) and v is not None:            # lst.append(v)
                        elems.append((st, v))
                    elif isinstance(v, (ast.List, ast.Tuple)):
                        elems.extend((st, e) for e in v.elts)
                    elif isinstance(v, ast.ListComp):
                        elems.append((st, v.elt))
                    elif v is not None:
                        elems.append((st, v))
            elif isinstance(lst, (ast.List, ast.Tuple)):
                elems = [(site, e) for e in lst.elts]
            elif isinstance(lst, ast.ListComp):
                elems = [(site, lst.elt)]
            for at, e in elems:
                # does a rank's root name reach this element?
                txt = paths.flow_text(e, at, f.node) if hasattr(at, "parent") else norm(e)
                nms, exprs = paths.backward_slice(f.node, sorted(paths.load_names(e)), with_control=False)
                calls = paths.called_names([e] + exprs)
                if "get_root_name" not in calls:
                    continue
                n_n12 += 1
                excluded = any(".is_flattened(" in paths.inlined_text(a, f.node) and not p_
                               for t, pol in paths.guards(at, stop=f.node) for a, p_ in paths.conjuncts(t, pol))
                from_unpack = "unpack" in calls
                rep.check("N12", excluded or from_unpack, db.loc(at), f.short, "shape-extent:" + norm(e)[:40],
                          "extent %s: %s" % (norm(e)[:40], "flattened ranks excluded" if excluded else
                                             "built from the constituents (unpack)"),
                          "%s puts the root name of a rank (%s) into a shape= argument without having excluded "
                          "ranks that stem from a flattening: for those the root is the concatenated name "
                          "(MK), which no statement binds and the specification does not define - the emitted "
                          "program is not closed" % (f.short, norm(e)[:50]))
                if from_unpack and not excluded:
                    # the constituents handed out by unpack() are partition-level ranks (M0): what the
                    # program binds is the extent of their root (M), so each must go through get_root_name
                    rooted = False
                    for g_ in walk_no_nested(f.node):
                        if isinstance(g_, ast.Call) and isinstance(g_.func, ast.Attribute) and \
                                g_.func.attr == "get_root_name" and g_.args:
                            a_ = g_.args[0]
                            comp_iters = [gen.iter for p_ in paths.parents(g_, f.node)
                                          if isinstance(p_, (ast.ListComp, ast.SetComp, ast.GeneratorExp))
                                          for gen in p_.generators
                                          if paths.load_names(a_) & {x.id for x in ast.walk(gen.target)
                                                                    if isinstance(x, ast.Name)}]
                            loop_iters = [p_.iter for p_ in paths.parents(g_, f.node) if isinstance(p_, ast.For)
                                          and paths.load_names(a_) & {x.id for x in ast.walk(p_.target)
                                                                     if isinstance(x, ast.Name)}]
                            _, ex_ = paths.backward_slice(f.node, sorted(paths.load_names(a_)), with_control=False)
                            if "unpack" in paths.called_names([a_] + ex_ + comp_iters + loop_iters):
                                rooted = True
                    n_n12 += 1
                    rep.check("N12", rooted, db.loc(at), f.short, "shape-extent-roots:" + norm(e)[:40],
                              "the constituents of a flattened rank are named by their roots",
                              "%s builds the extent of a flattened rank from the ranks unpack() hands out "
                              "without taking each one's root name: a flattened partition (M0) is named "
                              "in shape=, a variable no statement binds and the specification does not "
                              "define" % f.short)
    if n_n12 < 2:
        raise AnalysisError("fewer than 2 shape= extents derived from get_root_name found (%d)" % n_n12)

    # ---- N15: whether Format(...) can name the existing tensor is decided on the ranks the tensor
    # has after static partitioning - the ranks the keys of the dynamic partitioning are written in
    rep.rule("N15", "the 'describe the tensor anew' decision probes the dynamic partitioning with the "
             "tensor's statically partitioned ranks", 1)
    bf = db.func("teaal.trans.collector.Collector.__build_formats")
    n_n15 = 0
    for n in walk_no_nested(bf.node):
        if not (isinstance(n, ast.Compare) and len(n.ops) == 1 and isinstance(n.ops[0], (ast.In, ast.NotIn)) and
                "get_dyn_parts" in paths.flow_text(n.comparators[0], n, bf.node)):
            continue
        var = sorted(paths.load_names(n.left))
        its = [p_.iter for p_ in paths.parents(n, bf.node) if isinstance(p_, ast.For) and
               set(var) & {x.id for x in ast.walk(p_.target) if isinstance(x, ast.Name)}]
        its += [g_.iter for p_ in paths.parents(n, bf.node)
                if isinstance(p_, (ast.GeneratorExp, ast.ListComp, ast.SetComp)) for g_ in p_.generators
                if set(var) & {x.id for x in ast.walk(g_.target) if isinstance(x, ast.Name)}]
        if not its:
            continue
        n_n15 += 1
        nm15 = sorted({x for it_ in its for x in paths.load_names(it_)})
        _, ex15 = paths.backward_slice(bf.node, nm15, with_control=False)
        calls15 = paths.called_names(its + ex15)
        consts15 = {c_.value for e_ in its + ex15 for c_ in ast.walk(e_) if isinstance(c_, ast.Constant)
                    and isinstance(c_.value, str)}
        static = "get_static_parts" in calls15 and "partition_ranks" in calls15
        from_format = "rank-order" in consts15
        rep.check("N15", static and not from_format, db.loc(n), bf.short, "build-new:dyn-probe",
                  "the ranks probed against get_dyn_parts() are the tensor's ranks after static partitioning",
                  "Collector.__build_formats probes get_dyn_parts() with ranks taken from %s: the keys of the "
                  "dynamic partitioning are ranks as they stand after the static partitioning (K), not the "
                  "final ranks of the format (K1, K0), so a dynamically partitioned tensor is not described "
                  "anew and Format(...) names a tensor variable (A_MK1K0) that no statement binds" %
                  ("the format's rank-order" if from_format else sorted(calls15)[:6]),
                  decided=static or from_format)
    if n_n15 < 1:
        rep.undecided("N15", db.loc(bf.node), bf.short, "no membership test against get_dyn_parts() found")

    # ---- N3 --------------------------------------------------------------------
    rep.rule("N3", "receiver temporary is named before the next temporary is allocated", 4)
    # one instance per emitted assignment  <next_tmp()> = <curr_tmp()>.method(...): the curr_tmp() call
    # that names the receiver must be evaluated before the next_tmp() call that names the target of that
    # very assignment (a next_tmp() that belongs to an earlier statement is not concerned)
    for f in db.all_functions(["teaal.trans."]):
        def origin(e, at, depth=3):
            while isinstance(e, ast.Name) and depth > 0:
                v = paths.reaching_def(e.id, at, f.node)
                if v is None:
                    break
                e, at, depth = v, v, depth - 1
            return e

        def tmp_calls(e, attr):
            return [c for c in ast.walk(e) if isinstance(c, ast.Call) and isinstance(c.func, ast.Attribute)
                    and c.func.attr == attr]

        for S in [n for n in walk_no_nested(f.node) if isinstance(n, ast.Call) and norm(n.func) == "SAssign"
                  and len(n.args) == 2]:
            tgt = origin(S.args[0], S)
            if isinstance(tgt, ast.Call) and norm(tgt.func) == "AVar" and tgt.args:
                tgt = origin(tgt.args[0], tgt)
            val = origin(S.args[1], S)
            if not (isinstance(val, ast.Call) and norm(val.func) == "EMethod" and val.args):
                continue
            rcv = val.args[0]
            if isinstance(rcv, ast.Call) and norm(rcv.func) == "EVar" and rcv.args:
                rcv = origin(rcv.args[0], val)
            n3_next = tmp_calls(tgt, "next_tmp")
            n3_curr = tmp_calls(rcv, "curr_tmp")
            if not n3_next or not n3_curr:
                continue
            bad = paths.must_precede(f.node.body, lambda n: n in n3_curr, lambda n: n in n3_next)
            rep.check("N3", not bad, db.loc(n3_curr[0]), f.short, "tmp-order:%s:%s" % (f.short, norm(S)[:40]),
                      "%s names the receiver temporary (curr_tmp) before allocating the target (next_tmp)" % f.short,
                      "%s calls next_tmp() at %s before the curr_tmp() that names the receiver of the same "
                      "emitted assignment: the statement reads the temporary it is about to define "
                      "(tmpK = tmpK.op(...))" % (f.short, db.loc(bad[0]) if bad else "?"))

    # ---- N5 --------------------------------------------------------------------
    rep.rule("N5", "clones deriving a computed name from a fresh Tensor prepare it identically", 3)
    clones = []
    for f in db.all_functions(["teaal.trans.collector."]):
        for n in walk_no_nested(f.node):
            if isinstance(n, ast.Assign) and len(n.targets) == 1 and isinstance(n.targets[0], ast.Name) \
                    and isinstance(n.value, ast.Call) and norm(n.value.func) == "Tensor" and \
                    len(n.value.args) == 2:
                local = n.targets[0].id
                # used for a rank lookup afterwards?
                uses = [x for x in walk_no_nested(f.node) if isinstance(x, ast.Call) and
                        isinstance(x.func, ast.Attribute) and x.func.attr == "get_ranks" and
                        isinstance(x.func.value, ast.Name) and x.func.value.id == local]
                if not uses:
                    continue
                prep = set()
                for x in walk_no_nested(f.node):
                    if isinstance(x, ast.Call) and isinstance(x.func, ast.Attribute) and \
                            any(isinstance(a, ast.Name) and a.id == local for a in x.args):
                        # same straight-line region as the construction
                        if paths.block_of(paths_stmt(x))[2] is paths.block_of(n)[2]:
                            prep.add(x.func.attr)
                src = norm(n.value.args[1]).split(".")[-1]
                clones.append((f, n, local, frozenset(prep), src))
    if len(clones) < 3:
        raise AnalysisError("fewer than 3 fresh-Tensor derivation clones found (%d)" % len(clones))
    from collections import Counter
    maj_prep = Counter(c[3] for c in clones).most_common(1)[0][0]
    maj_src = Counter(c[4] for c in clones).most_common(1)[0][0]
    for f, n, local, prep, src in clones:
        ok = prep == maj_prep and src == maj_src and len(prep) >= 2
        rep.check("N5", ok, db.loc(n), f.short, "clone:%s" % f.short,
                  "%s: Tensor(_, %s) prepared by %s" % (f.short, src, sorted(prep)),
                  "%s derives a name/index from a fresh Tensor built from %s and prepared by %s, the other "
                  "clones use %s and %s: for some loop orders / partitionings binder and reader spell "
                  "different variable names" % (f.short, src, sorted(prep), maj_src, sorted(maj_prep)))


def paths_stmt(n: ast.AST) -> ast.stmt:
    while not isinstance(n, ast.stmt):
        n = n.parent
    return n


def mutants(db: DB):
    from sa.selftest import M, Mutant, Edit
    eq, col, gr, pt = ("teaal/trans/equation.py", "teaal/trans/collector.py", "teaal/trans/graphics.py",
                       "teaal/trans/partitioner.py")
    return [
        M("flattened extent built from the unpacked partitions, not their roots (C06-u3)", "teaal/trans/header.py",
          "                extents = [part.get_root_name(src)\n                           for src in part.unpack(root)]",
          "                extents = list(part.unpack(root))", "N12"),
        M("build-new decided on the format's final ranks (C06-u2)", "teaal/trans/collector.py",
          "            for static_rank in new_ranks:\n                if (static_rank,) in part_ir.get_dyn_parts():",
          "            for static_rank in rank_order:\n                if (static_rank,) in part_ir.get_dyn_parts():", "N15"),
        M("timestamps created only when some rank is mapped to space", "teaal/trans/graphics.py",
          "            if spacetime.get_slip():\n                assign = SAssign(AVar(\"timestamps\"), EDict({}))",
          "            if spacetime.get_slip() and len(spacetime.get_space()) > 0:\n                assign = SAssign(AVar(\"timestamps\"), EDict({}))",
          "N2"),
        M("binder renamed: inputs_", eq, "return SAssign(AVar(\"inputs_\" + rank.lower()), method_call)",
          "return SAssign(AVar(\"input_\" + rank.lower()), method_call)", "N1"),
        M("reader renamed: _start", eq, "interval = ETuple([EVar(rank.lower() + \"_start\"),",
          "interval = ETuple([EVar(rank.lower() + \"_begin\"),", "N1"),
        M("reader renamed: _val", eq, "[tensor.lower() + \"_val\" for tensor in term if self.__in_update(tensor)]",
          "[tensor.lower() + \"_value\" for tensor in term if self.__in_update(tensor)]", "N1"),
        M("fiber_name suffix renamed on the binder side", "teaal/ir/tensor.py", "            return stub + \"val\"",
          "            return stub + \"value\"", "N1"),
        M("reader renamed: _iter_num", col,
          "            iter_var = final_tensor.get_ranks()[-1].lower() + \"_iter_num\"\n            args.append(AParam(\"iteration_num\", EVar(iter_var)))",
          "            iter_var = final_tensor.get_ranks()[-1].lower() + \"_iter_no\"\n            args.append(AParam(\"iteration_num\", EVar(iter_var)))",
          "N1"),
        M("eager tracker renamed on the binder side", col,
          "            tracker = \"eager_\" + tensor.lower() + \"_\" + root.lower() + \"_read\"",
          "            tracker = \"eager_\" + tensor.lower() + \"_\" + root.lower() + \"_rd\"", "N1"),
        M("canvas variable renamed in display", "teaal/trans/canvas.py",
          "return SExpr(EFunc(\"displayCanvas\", [AJust(EVar(\"canvas\"))]))",
          "return SExpr(EFunc(\"displayCanvas\", [AJust(EVar(\"canv\"))]))", "N1"),
        M("unknown API callee", eq, "len_call = EFunc(\"len\", [AJust(inputs)])", "len_call = EFunc(\"length\", [AJust(inputs)])",
          "N1"),
        M("footer drops the metrics guard", gr,
          "        spacetime = self.program.get_spacetime()\n        if spacetime is not None and self.metrics is None:\n            return self.canvas.display_canvas()",
          "        spacetime = self.program.get_spacetime()\n        if spacetime is not None:\n            return self.canvas.display_canvas()",
          "N2"),
        M("body drops the metrics guard", gr,
          "        if spacetime is not None and self.metrics is None:\n            # If we are using slip, increment the timestamp",
          "        if spacetime is not None:\n            # If we are using slip, increment the timestamp", "N2"),
        M("timestamps read without slip", gr,
          "            if spacetime.get_slip():\n\n                # If this is the first time we are seeing the space stamp",
          "            if True:\n\n                # If this is the first time we are seeing the space stamp", "N2"),
        M("revert F4 fix", eq, "        return enum_int or (enum_st and enum_metrics)",
          "        return (enum_int or enum_st) and enum_metrics", ("N6", "N2")),
        M("rename only variables split together with the loop rank", eq,
          "                if new_rank:\n                    sexpr = sexpr.subs(symbol, str(symbol) + \"0\")",
          "                if new_rank and new_rank == partitioning.partition_rank((root.upper(),)) and troot:\n                    sexpr = sexpr.subs(symbol, str(symbol) + \"0\")",
          "N7"),
        M("split_equal allocates before naming the receiver", pt,
          "        curr_tmp = self.trans_utils.curr_tmp()\n        part_call = EMethod(EVar(curr_tmp), \"splitEqual\", args)\n\n        next_tmp = AVar(self.trans_utils.next_tmp())",
          "        next_tmp = AVar(self.trans_utils.next_tmp())\n        curr_tmp = self.trans_utils.curr_tmp()\n        part_call = EMethod(EVar(curr_tmp), \"splitEqual\", args)\n",
          "N3"),
        M("iter_num clone forgets the loop-order swizzle", col,
          "        final_tensor = Tensor(output.root_name(), output.get_init_ranks())\n        self.program.apply_all_partitioning(final_tensor)\n        self.program.get_loop_order().apply(final_tensor)\n\n        # We don't need",
          "        final_tensor = Tensor(output.root_name(), output.get_init_ranks())\n        self.program.apply_all_partitioning(final_tensor)\n\n        # We don't need",
          "N5"),
        M("trace_tree clone forgets partitioning", col,
          "            final_tensor = Tensor(tensor, tensor_ir.get_init_ranks())\n            self.program.apply_all_partitioning(final_tensor)\n",
          "            final_tensor = Tensor(tensor, tensor_ir.get_init_ranks())\n", "N5"),
        M("clone starts from current ranks", col,
          "                final_tensor = Tensor(\n                    output.root_name(), output.get_init_ranks())",
          "                final_tensor = Tensor(\n                    output.root_name(), output.get_ranks())", "N5"),
        M("revert F19 fix (update emitted for a tensor left at an un-iterated rank)", "teaal/trans/hifiber.py",
          "                        if rank is not None:\n                            raise ValueError(",
          "                        if False:\n                            raise ValueError(", "N14"),
        M("revert F18 fix (eviction key named after the flattened rank)", col,
          "                iter_ranks = self.program.get_loop_order().get_iter_ranks(\n                    loop_rank)\n                key.extend(EVar(iter_rank.lower())\n                           for iter_rank in iter_ranks)",
          "                key.append(EVar(loop_rank.lower()))", "N13"),
        M("revert F11 fix (shape names the concatenated rank)", "teaal/trans/header.py",
          "            args.append(TransUtils.build_shape(shape))", "            args.append(TransUtils.build_shape(unpart_ranks))",
          "N12"),
        M("bottom-rank renames do not accumulate", eq,
          "            for symbol in sexpr.atoms(Symbol):\n                new_rank = partitioning.partition_rank((str(symbol).upper(),))\n                if new_rank:\n                    sexpr = sexpr.subs(symbol, str(symbol) + \"0\")",
          "            full_expr = sexpr\n            for symbol in full_expr.atoms(Symbol):\n                new_rank = partitioning.partition_rank((str(symbol).upper(),))\n                if new_rank:\n                    sexpr = full_expr.subs(symbol, str(symbol) + \"0\")",
          "N10"),
        M("payload returns early for output-only loops", eq,
          "        payload: Payload\n        if inputs:\n            # Construct the term payloads",
          "        if output and not inputs:\n            return PVar(output.fiber_name())\n\n"
          "        payload: Payload\n        if inputs:\n            # Construct the term payloads", "N6"),
        M("metrics swizzle only when the tensor is re-ordered", "teaal/ir/flow_graph.py",
          "            if init_ranks:\n                metrics_swizzle_node",
          "            if init_ranks and static:\n                metrics_swizzle_node", "N8"),
        M("rank name probed against rank-tuple keys", col,
          "                if (static_rank,) in part_ir.get_dyn_parts():",
          "                if static_rank in part_ir.get_dyn_parts():", "N9"),
        Mutant("benign: both sides renamed", [Edit(eq, "\"inputs_\"", "\"eager_inputs_\"", count=2)], (),
               benign=True),
    ]
