"""
C14 - execution time is the bottleneck-per-block roll-up of component times.

Decided (DESIGN.md section 3, C14): structural facts that hold for every
architecture
  M1 every emitted component time is registered for the roll-up exactly once,
     under the name used as its dictionary key
  M2 its divisor is rate x instance count of that same component
  M3 the instance count flows unmodified from the level name to the divisor
  M4 the roll-up runs after all registrations, on the last Einsum
  M5 the roll-up is sum over blocks of max over components of sum over Einsums
Not decided: numeric results.
"""

from __future__ import annotations

import ast
from typing import Dict, List, Optional, Set, Tuple

from sa import paths
from sa.db import DB, AnalysisError, FuncInfo, norm, walk_no_nested
from sa.report import Report

COLL = "teaal.trans.collector.Collector"


def _is_ctor(n: ast.AST, name: str) -> bool:
    return isinstance(n, ast.Call) and isinstance(n.func, ast.Name) and n.func.id == name


def _estring_arg(n: ast.AST) -> Optional[ast.AST]:
    if _is_ctor(n, "EString") and n.args:
        return n.args[0]
    return None


def time_sites(db: DB, f: FuncInfo):
    """SAssign(AAccess(X, EString("time")), rhs) sites of a Collector method:
    (call node, X expr resolved, rhs expr resolved)."""
    out = []
    for n in walk_no_nested(f.node):
        if not (_is_ctor(n, "SAssign") and len(n.args) == 2):
            continue
        tgt = paths.resolve_flow(n.args[0], n, f.node)
        if not (_is_ctor(tgt, "AAccess") and len(tgt.args) == 2):
            continue
        k = _estring_arg(tgt.args[1])
        if not (isinstance(k, ast.Constant) and k.value == "time"):
            continue
        out.append((n, tgt.args[0], n.args[1]))
    return out


def _enclosing_loop(n: ast.AST, fnode: ast.AST) -> Optional[ast.For]:
    p = getattr(n, "parent", None)
    while p is not None and p is not fnode:
        if isinstance(p, ast.For):
            return p
        p = getattr(p, "parent", None)
    return None


def _factors(e: ast.AST) -> List[ast.AST]:
    if isinstance(e, ast.BinOp) and isinstance(e.op, ast.Mult):
        return _factors(e.left) + _factors(e.right)
    return [e]


def run(db: DB, rep: Report) -> None:
    rep.explanation = (
        "Static analysis of teaal/trans/collector.py, ir/fusion.py, ir/hardware.py, ir/component.py "
        "and parse/arch.py. A time site is a construction SAssign(AAccess(X, EString('time')), rhs) "
        "in a Collector method (locals resolved by flow-sensitive reaching definitions). For each: "
        "the enclosing loop body executes exactly one fusion.add_component(einsum, N) on every path "
        "and N equals the component-level key of X; rhs is EBinOp(_, ODiv(), EInt(D)) with D a "
        "product containing R.get_num_instances() and get_frequency(einsum) or R.get_bandwidth(), R "
        "being the component named N. The instance count is followed hop by hop from "
        "Architecture.__init__ through Hardware.__build_level/__build_component and every Component "
        "subclass constructor to Component.get_num_instances. In Collector.dump every builder that "
        "reaches add_component precedes __build_time, which is guarded by the last-Einsum test; in "
        "__build_time the accumulators use OAdd and the per-block combination is EFunc('max').")
    rep.trusted += ["flow-sensitive reaching definitions of sa/paths.py for straight-line code"]
    rep.assumptions += ["numeric values (frequencies, bandwidths, counts) are not decided"]

    c = db.cls(COLL)
    fus = db.cls("teaal.ir.fusion.Fusion")

    def is_addc(n: ast.AST) -> bool:
        return isinstance(n, ast.Call) and isinstance(n.func, ast.Attribute) and \
            n.func.attr == "add_component" and norm(n.func.value) == "self.fusion"

    # ---- M1 / M2 -------------------------------------------------------------
    rep.rule("M1", "every emitted component time is registered exactly once under its own key", 5)
    rep.rule("M2", "time divisor = rate x instance count of the same component", 5)
    all_sites = []
    reg_sites: List[Tuple[FuncInfo, ast.Call]] = []
    for f in c.methods.values():
        for n in walk_no_nested(f.node):
            if is_addc(n):
                reg_sites.append((f, n))
        if f.name == "__build_time":
            continue
        for call, X, rhs in time_sites(db, f):
            all_sites.append((f, call, X, rhs))
    matched_regs: Set[int] = set()
    for f, call, X, rhs in all_sites:
        loop = _enclosing_loop(call, f.node)
        # component-level key of X: EAccess(<metrics[einsum]>, EString(K))
        key_txt = None
        if _is_ctor(X, "EAccess") and len(X.args) == 2:
            k = _estring_arg(X.args[1])
            if k is not None:
                key_txt = norm(k)
        body = loop.body if loop is not None else f.node.body
        regs = [n for s in body for n in ast.walk(s) if is_addc(n)]
        outs = paths.path_counts(body, paths.make_pred(is_addc))
        once = all(cnt == 1 for cnt, k in outs if k in (paths.FALL, paths.CONT))
        name_ok = False
        reg_txt = None
        for r in regs:
            if len(r.args) == 2:
                reg_txt = paths.flow_text(r.args[1], r, f.node)
                if key_txt is not None and reg_txt == key_txt:
                    name_ok = True
                    matched_regs.add(id(r))
        rep.check("M1", once and name_ok and loop is not None, db.loc(call), f.short,
                  "time-site:%s" % f.name,
                  "%s: time of metrics[einsum][%s] registered as add_component(einsum, %s), once per path: %s"
                  % (f.name, key_txt, reg_txt, once),
                  "the component time emitted in %s under key %s is %s; it would be %s the roll-up" %
                  (f.short, key_txt,
                   "not registered exactly once per component (path counts %s)" % sorted(outs)
                   if not once else "registered under a different name (%s)" % reg_txt,
                   "missing from or counted twice in" if not once else "looked up under the wrong key in"))

        # M2
        rhs_r = paths.resolve_flow(rhs, call, f.node)
        ok = False
        why = "right-hand side is not EBinOp(_, ODiv(), EInt(D))"
        if _is_ctor(rhs_r, "EBinOp") and len(rhs_r.args) == 3 and norm(rhs_r.args[1]) == "ODiv()" and \
                _is_ctor(rhs_r.args[2], "EInt") and rhs_r.args[2].args:
            D = rhs_r.args[2].args[0]
            fs = _factors(D)
            inst = [x for x in fs if isinstance(x, ast.Call) and isinstance(x.func, ast.Attribute)
                    and x.func.attr == "get_num_instances" and not x.args]
            rate = [x for x in fs if isinstance(x, ast.Call) and isinstance(x.func, ast.Attribute)
                    and x.func.attr in ("get_frequency", "get_bandwidth")]
            why = "divisor %s lacks %s" % (norm(D), "the instance count" if not inst else "a rate")
            if len(inst) == 1 and len(rate) == 1 and len(fs) == 2:
                R = norm(inst[0].func.value)
                # R is the component named N
                same = False
                if key_txt is not None:
                    if key_txt == R + ".get_name()":
                        same = True
                    if R.endswith("get_component(%s)" % key_txt):
                        same = True
                rate_ok = True
                if rate[0].func.attr == "get_bandwidth":
                    rate_ok = norm(rate[0].func.value) == R
                else:
                    rate_ok = len(rate[0].args) == 1
                ok = same and rate_ok
                why = "instance count is taken from %s, the timed component is %s" % (R, key_txt) \
                    if not same else "bandwidth is taken from another component"
            elif len(fs) != 2:
                why = "divisor %s is not rate x instances" % norm(D)
        rep.check("M2", ok, db.loc(call), f.short, "divisor:%s" % f.name,
                  "%s: divisor of metrics[einsum][%s]['time']" % (f.name, key_txt),
                  "the time of component %s in %s is not (count) / (rate x its own instance count): %s"
                  % (key_txt, f.short, why))
    for f, r in reg_sites:
        if id(r) not in matched_regs:
            rep.check("M1", False, db.loc(r), f.short, "registration-without-time:" + norm(r),
                      "registration without a time site",
                      "fusion.add_component at %s has no matching time site: the roll-up would read "
                      "a 'time' entry that is never written" % db.loc(r))
    # add_component itself appends, Fusion.add_einsum initialises the list
    ac = fus.methods.get("add_component")
    if ac is None:
        raise AnalysisError("Fusion.add_component not found")
    apps = [n for n in walk_no_nested(ac.node) if isinstance(n, ast.Call) and
            isinstance(n.func, ast.Attribute) and n.func.attr == "append"]
    ok = len(apps) == 1 and len(apps[0].args) == 1 and isinstance(apps[0].args[0], ast.Name) and \
        apps[0].args[0].id == ac.call_params[1] and not paths.guards(apps[0], stop=ac.node)
    rep.check("M1", ok, db.loc(ac.node), ac.short, "add_component-appends",
              "Fusion.add_component appends its component argument unconditionally",
              "Fusion.add_component no longer appends the given component name once")

    # ---- M3 ------------------------------------------------------------------
    rep.rule("M3", "instance count flows unmodified from the level name to get_num_instances", 8)
    hw = db.cls("teaal.ir.hardware.Hardware")
    bl = hw.methods.get("__build_level")
    bc = hw.methods.get("__build_component")
    if bl is None or bc is None:
        raise AnalysisError("Hardware.__build_level/__build_component not found")
    # hop 0: the count stored for a level is computed within that level's own iteration
    ai = db.func("teaal.parse.arch.Architecture.__init__")
    stores = [n for n in walk_no_nested(ai.node) if isinstance(n, ast.Assign) and
              isinstance(n.targets[0], ast.Subscript) and isinstance(n.targets[0].slice, ast.Constant)
              and n.targets[0].slice.value == "num"]
    if not stores:
        raise AnalysisError("Architecture.__init__ no longer stores a level's instance count")
    for st in stores:
        loop = None
        p_ = st.parent
        while p_ is not ai.node:
            if isinstance(p_, (ast.For, ast.While)):
                loop = p_
                break
            p_ = p_.parent
        names = sorted(paths.load_names(st.value) - {"int", "str", "len"})
        stale = []
        if loop is not None:
            for nm in names:
                def is_def(n, nm=nm):
                    return isinstance(n, (ast.Assign, ast.AnnAssign)) and any(
                        isinstance(t, ast.Name) and t.id == nm
                        for t in (n.targets if isinstance(n, ast.Assign) else [n.target]))
                bad = paths.must_precede(loop.body, is_def, lambda n: n is st)
                if bad:
                    stale.append(nm)
        rep.check("M3", loop is not None and not stale, db.loc(st), ai.short, "hop:level-count:" + norm(st.value),
                  "level count %s is determined within the level's own iteration" % norm(st.value),
                  "the instance count stored for a level (%s) depends on %s, which is not assigned on every "
                  "path of the current level's iteration: a level can inherit the count of the level "
                  "processed before it" % (norm(st.value), ", ".join(stale) or "?"))
    # hop 2 (looked at first: it tells which parameter carries the count): __build_component passes
    # one of its parameters, unchanged, as the constructor's second argument (num_instances)
    def _comp_ctor(n) -> bool:
        if not (isinstance(n, ast.Call) and isinstance(n.func, ast.Name) and len(n.args) >= 2):
            return False
        lt = db.local_types(bc).get(n.func.id)
        if lt is not None and lt[0] == "type":
            return True
        # the class was chosen through a table / helper: a local called like a constructor
        return n.func.id not in bc.module.ns and any(
            isinstance(x, ast.Name) and isinstance(x.ctx, ast.Store) and x.id == n.func.id
            for x in walk_no_nested(bc.node))
    ctor_calls = [n for n in walk_no_nested(bc.node) if _comp_ctor(n)]
    nums = {n.args[1].id for n in ctor_calls if isinstance(n.args[1], ast.Name) and n.args[1].id in bc.call_params}
    ok = bool(ctor_calls) and len(nums) == 1 and all(isinstance(n.args[1], ast.Name) and n.args[1].id in nums
                                                     for n in ctor_calls)
    num_param = next(iter(nums)) if len(nums) == 1 else bc.call_params[1]
    stores = [n for n in walk_no_nested(bc.node) if isinstance(n, ast.Name) and
              isinstance(n.ctx, ast.Store) and n.id == num_param]
    rep.check("M3", ok and not stores, db.loc(bc.node), bc.short, "hop:component-ctor",
              "__build_component passes '%s' unchanged as the constructor's second argument" % num_param,
              "Hardware.__build_component modifies or does not pass the instance count to the "
              "component constructor", decided=bool(ctor_calls))
    # hop 1: __build_level passes tree["num"] for that parameter
    tree_param = bl.call_params[0]
    calls = [n for n in walk_no_nested(bl.node) if isinstance(n, ast.Call) and
             isinstance(n.func, ast.Attribute) and n.func.attr == "__build_component"]
    k_num = bc.call_params.index(num_param) if num_param in bc.call_params else 1

    def _num_arg(n: ast.Call):
        for kw in n.keywords:
            if kw.arg == num_param:
                return kw.value
        return n.args[k_num] if k_num < len(n.args) else None
    ok = bool(calls) and all(_num_arg(n) is not None and
                             paths.flow_text(_num_arg(n), n, bl.node) == "%s['num']" % tree_param for n in calls)
    rep.check("M3", ok, db.loc(bl.node), bl.short, "hop:level->component",
              "__build_level passes %s['num'] to __build_component" % tree_param,
              "Hardware.__build_level does not hand the level's instance count (tree['num']) "
              "unmodified to __build_component")
    # hop 3: every Component subclass forwards num_instances unchanged
    comp = db.cls("teaal.ir.component.Component")
    base_init = comp.methods["__init__"]
    pname = base_init.call_params[1]
    for k in [comp] + comp.all_subclasses():
        init = k.methods.get("__init__")
        if init is None:
            continue
        if k is comp:
            st = [n for n in walk_no_nested(init.node) if isinstance(n, ast.Assign) and
                  isinstance(n.value, ast.Name) and n.value.id == pname and
                  any(isinstance(t, ast.Attribute) and norm(t.value) == "self" for t in n.targets)]
            fld = st[0].targets[0].attr if st else None
            getter = comp.methods.get("get_num_instances")
            rets = [n for n in walk_no_nested(getter.node) if isinstance(n, ast.Return)] if getter else []
            ok = fld is not None and len(rets) == 1 and norm(rets[0].value) == "self." + fld
            # the field is written nowhere else
            writes = []
            for kk in [comp] + comp.all_subclasses():
                for g in kk.methods.values():
                    for n in walk_no_nested(g.node):
                        if isinstance(n, (ast.Assign, ast.AugAssign, ast.AnnAssign)):
                            ts = n.targets if isinstance(n, ast.Assign) else [n.target]
                            for t in ts:
                                if isinstance(t, ast.Attribute) and norm(t.value) == "self" and \
                                        t.attr == fld and not (g is init and n in st):
                                    writes.append(n)
            rep.check("M3", ok and not writes, db.loc(init.node), k.name + ".__init__",
                      "hop:Component.store", "Component stores the count and get_num_instances returns it",
                      "Component does not store its num_instances parameter unchanged / "
                      "get_num_instances does not return it / the field is written elsewhere")
            continue
        p2 = init.call_params[1] if len(init.call_params) > 1 else None
        sup = [n for n in walk_no_nested(init.node) if isinstance(n, ast.Call) and
               isinstance(n.func, ast.Attribute) and n.func.attr == "__init__" and
               isinstance(n.func.value, ast.Call) and norm(n.func.value.func) == "super"]
        ok = len(sup) == 1 and len(sup[0].args) >= 2 and isinstance(sup[0].args[1], ast.Name) and \
            sup[0].args[1].id == p2
        restore = [n for n in walk_no_nested(init.node) if isinstance(n, ast.Name) and
                   isinstance(n.ctx, ast.Store) and n.id == p2]
        rep.check("M3", ok and not restore, db.loc(init.node), k.name + ".__init__",
                  "hop:%s.super" % k.name, "%s forwards '%s' unchanged to super().__init__" % (k.name, p2),
                  "%s.__init__ does not forward its instance-count parameter unchanged to the base "
                  "constructor" % k.name)

    # ---- M6: rate and count getters are pure functions of their arguments ---------
    rep.rule("M6", "rate / count getters are pure, unscaled and depend on their argument", 6)
    from sa.rules.c05 import self_writes
    getters = [db.func("teaal.ir.hardware.Hardware.get_frequency"),
               db.func("teaal.ir.component.Component.get_num_instances"),
               db.func("teaal.ir.component.MemoryComponent.get_bandwidth")]
    for g in getters:
        w = self_writes(db, g)
        ok = not w
        dep = True
        if g.call_params:
            # the result depends on the parameter (per-Einsum configuration)
            rets = [n.value for n in walk_no_nested(g.node) if isinstance(n, ast.Return) and n.value is not None]
            names, exprs = paths.backward_slice(g.node, {x for r in rets for x in paths.load_names(r)})
            dep = g.call_params[0] in names or any(g.call_params[0] in paths.load_names(r) for r in rets)
        # the value handed out is the configured attribute itself: no arithmetic on the way
        arith = []
        rets_ = [n.value for n in walk_no_nested(g.node) if isinstance(n, ast.Return) and n.value is not None]
        for r_ in rets_:
            for x in ast.walk(paths.inline_locals(r_, g.node)):
                if isinstance(x, ast.BinOp) and not isinstance(x.op, ast.Add) or \
                        (isinstance(x, ast.BinOp) and not any(isinstance(c_, ast.Constant) and isinstance(c_.value, str)
                                                              for c_ in ast.walk(x))):
                    arith.append(norm(x))
        rep.check("M6", not arith, db.loc(g.node), g.short, "unscaled:" + g.short,
                  "%s returns the configured value without arithmetic" % g.short,
                  "%s scales the configured value (%s): the collector multiplies rate and instance count "
                  "itself, so the factor would be applied twice (or a wrong rate used)" %
                  (g.short, arith[0] if arith else ""))
        rep.check("M6", ok and dep, db.loc(g.node), g.short, "pure:" + g.short,
                  "%s writes no state%s" % (g.short, " and depends on '%s'" % g.call_params[0] if g.call_params else ""),
                  "%s %s: a value computed for one Einsum / configuration would be reused for another" %
                  (g.short, "writes self.%s" % w[0][0] if w else "does not depend on its argument"))

    # ---- M7: components are looked up in the configuration of the Einsum ------------
    rep.rule("M7", "component table is keyed by configuration; lookups select the Einsum's configuration", 2)
    rep.rule("M8", "a traffic path lists its memories by depth, whatever the order of sibling levels", 1)
    _check_traffic_path_order(db, rep)
    hinit = hw.methods["__init__"]
    def _cfg_target(n: ast.For):
        """the loop variable that names the configuration: `for c in spec[...]` or
        `for c, roots in spec[...].items()`"""
        if isinstance(n.target, ast.Name):
            return n.target.id
        if isinstance(n.target, ast.Tuple) and len(n.target.elts) == 2 and isinstance(n.target.elts[0], ast.Name) \
                and isinstance(n.iter, ast.Call) and isinstance(n.iter.func, ast.Attribute) and \
                n.iter.func.attr == "items":
            return n.target.elts[0].id
        return None
    cfg_loops = [n for n in walk_no_nested(hinit.node) if isinstance(n, ast.For) and
                 _cfg_target(n) is not None and "architecture" in paths.flow_text(n.iter, n, hinit.node) and
                 any(isinstance(x, ast.Call) and isinstance(x.func, ast.Attribute) and
                     x.func.attr == "__build_level" for x in ast.walk(n))]
    if len(cfg_loops) != 1:
        raise AnalysisError("per-configuration loop of Hardware.__init__ not found")
    cfg_var = _cfg_target(cfg_loops[0])

    def cfg_bound(e: ast.AST, g: FuncInfo, seen=frozenset()) -> bool:
        """does expression e denote the configuration being built?  (recursive
        calls that pass the parameter on unchanged are assumed to hold)"""
        if not isinstance(e, ast.Name):
            return False
        if g is hinit:
            return e.id == cfg_var
        if (g.qualname, e.id) in seen:
            return True
        if e.id in g.call_params:
            if any(isinstance(x, ast.Name) and isinstance(x.ctx, ast.Store) and x.id == e.id
                   for x in walk_no_nested(g.node)):
                return False
            idx = g.call_params.index(e.id)
            cs = [(c_, call) for c_, call in db.callers().get(g.qualname, []) if c_.cls is hw]
            return bool(cs) and all(idx < len(call.args) and
                                    cfg_bound(call.args[idx], c_, seen | {(g.qualname, e.id)})
                                    for c_, call in cs)
        return False
    table_field = None
    n_store = 0
    for g in hw.methods.values():
        for n in walk_no_nested(g.node):
            if isinstance(n, ast.Assign) and isinstance(n.targets[0], ast.Subscript) and \
                    isinstance(n.value, ast.Name):
                t = n.targets[0]
                chain = []
                b = t
                while isinstance(b, ast.Subscript):
                    chain.append(b.slice)
                    b = b.value
                if not (isinstance(b, ast.Attribute) and norm(b.value) == "self"):
                    continue
                vt = db.type_of(n.value, g)
                # typed as a Component, or (class chosen through a table: type unknown) filed
                # under its own get_name()
                by_name = norm(chain[0]) == norm(n.value) + ".get_name()"
                if not ((vt and vt[0] == "cls" and db.classes.get(vt[1]) is not None and
                         comp in db.classes[vt[1]].mro()) or by_name):
                    continue
                n_store += 1
                table_field = b.attr
                first = chain[-1]
                ok = len(chain) >= 2 and cfg_bound(first, g)
                rep.check("M7", ok, db.loc(n), g.short, "component-table-store:" + norm(t),
                          "component stored as %s (first key is the configuration being built)" % norm(t),
                          "Hardware stores a component as %s: the table is not keyed by the configuration "
                          "although components are built once per configuration; with equal component names "
                          "in two configurations one object answers both, and an Einsum is timed with the "
                          "other configuration's instance count" % norm(t))
    if n_store < 1:
        raise AnalysisError("no store of a component into a table of Hardware found")
    gcs = hw.methods["get_components"]
    reads = [n for n in walk_no_nested(gcs.node) if isinstance(n, ast.Subscript) and
             isinstance(n.ctx, ast.Load) and norm(n).startswith("self.%s[" % table_field) and
             not isinstance(n.parent, ast.Subscript)]
    ok = bool(reads)
    for r_ in reads:
        b = r_
        chain = []
        while isinstance(b, ast.Subscript):
            chain.append(b.slice)
            b = b.value
        first = chain[-1]
        ok = ok and len(chain) >= 2 and gcs.call_params[0] in paths.load_names(first)
    via_helper = False
    if not reads:
        # the table is read in a private helper that is handed the Einsum: self.__h(einsum)[name]
        for cl in [n for n in ast.walk(gcs.node) if isinstance(n, ast.Call) and isinstance(n.func, ast.Attribute)
                   and isinstance(n.func.value, ast.Name) and n.func.value.id == "self"]:
            h_ = hw.methods.get(cl.func.attr)
            if h_ is None or not h_.call_params:
                continue
            hreads = [n for n in walk_no_nested(h_.node) if isinstance(n, ast.Subscript) and
                      isinstance(n.ctx, ast.Load) and norm(n).startswith("self.%s[" % table_field) and
                      not isinstance(n.parent, ast.Subscript)]
            for r_ in hreads:
                first = r_.slice
                for k_, p_ in enumerate(h_.call_params):
                    if p_ in paths.load_names(first) and k_ < len(cl.args) and \
                            gcs.call_params[0] in paths.load_names(cl.args[k_]):
                        via_helper = True
    rep.check("M7", ok or via_helper, db.loc(gcs.node), gcs.short, "component-table-read",
              "get_components(einsum, ...) selects the table of the Einsum's configuration",
              "Hardware.get_components does not select the component through the configuration of its "
              "'%s' argument" % gcs.call_params[0], decided=ok or via_helper or bool(reads))

    # ---- M4 ------------------------------------------------------------------
    rep.rule("M4", "roll-up runs after every registering builder, on the last Einsum only", 2)
    dump = c.methods.get("dump")
    bt = c.methods.get("__build_time")
    if dump is None or bt is None:
        raise AnalysisError("Collector.dump/__build_time not found")
    registering = {f.name for f, _ in reg_sites}

    def is_bt(n):
        return isinstance(n, ast.Call) and isinstance(n.func, ast.Attribute) and n.func.attr == "__build_time"
    for nm in sorted(registering):
        def is_b(n, nm=nm):
            return isinstance(n, ast.Call) and isinstance(n.func, ast.Attribute) and n.func.attr == nm
        calls_nm = [n for n in walk_no_nested(dump.node) if is_b(n)]
        # the builder runs on every path, and never after the roll-up
        outs = paths.path_counts(dump.node.body, paths.make_pred(is_b))
        always = all(cnt >= 1 for cnt, k in outs if k != paths.RAISE)
        late = paths.must_precede(dump.node.body, is_b, is_bt)
        # must_precede(P=builder, Q=roll-up): roll-up calls with no earlier builder
        rep.check("M4", bool(calls_nm) and always and not late, db.loc(dump.node), dump.short,
                  "before-rollup:" + nm, "%s is called on every path of dump, before __build_time" % nm,
                  "Collector.dump can reach __build_time without having run %s first; the times it "
                  "registers are missing from the roll-up" % nm,
                  decided=bool(calls_nm))
    bts = [n for n in walk_no_nested(dump.node) if is_bt(n)]
    ok = False
    if len(bts) == 1:
        for t, pol in paths.guards(bts[0], stop=dump.node):
            txt = paths.inlined_text(t, dump.node)
            if pol and "get_einsum_ind()" in txt and "get_all_einsums()" in txt and "+ 1" in txt and "==" in txt:
                ok = True
    rep.check("M4", ok, db.loc(bts[0]) if bts else db.loc(dump.node), dump.short, "rollup-guard",
              "__build_time is emitted only for the last Einsum",
              "the roll-up is not guarded by 'this is the last Einsum' (get_einsum_ind() + 1 == "
              "len(get_all_einsums())); it would run before later Einsums registered their components")

    # ---- M9 ------------------------------------------------------------------
    rep.rule("M9", "every Einsum compiled for metrics is handed to the block builder (Fusion.add_einsum)", 1)
    n_m9 = 0
    for f in db.all_functions(["teaal.trans.hifiber."]):
        for n in walk_no_nested(f.node):
            if not (isinstance(n, ast.Call) and isinstance(n.func, ast.Attribute) and n.func.attr == "add_einsum"
                    and "fusion" in norm(n.func.value).lower()):
                continue
            n_m9 += 1
            atoms = []
            for t, pol in paths.guards(n, stop=f.node):
                atoms.extend(paths.expand_atoms(t, pol, f.node))
            extra, unsure = [], False
            for a, pol in atoms:
                txt = norm(a)
                for suf in (" is not None", " is None"):
                    if txt.endswith(suf):
                        txt = txt[:-len(suf)]
                if txt in ("self.hardware", "self.format", "self.metrics", "self.arch", "self.bindings"):
                    continue
                extra.append(("" if pol else "not ") + norm(a)[:70])
                if isinstance(a, ast.Name) or (isinstance(a, ast.Call) and norm(a.func).startswith("self.__")):
                    unsure = True
            rep.check("M9", not extra, db.loc(n), f.short, "add-einsum-guard",
                      "Fusion.add_einsum runs for every Einsum whenever hardware and format are given",
                      "%s hands the Einsum to Fusion.add_einsum only under %s: an Einsum for which that is "
                      "false belongs to no block, so metrics['blocks'] and the roll-up of the total time "
                      "are taken over the wrong blocks (its neighbours merge across it, or the final "
                      "roll-up is never emitted)" % (f.short, extra), decided=not unsure)
    if n_m9 < 1:
        raise AnalysisError("no call of Fusion.add_einsum found in teaal.trans.hifiber")

    # ---- M5 ------------------------------------------------------------------
    rep.rule("M5", "roll-up is sum over blocks of max over components of sum over Einsums", 4)
    fn = bt.node
    binops = [n for n in walk_no_nested(fn) if _is_ctor(n, "EBinOp") and len(n.args) == 3]
    add_ok = bool(binops) and all(norm(n.args[1]) == "OAdd()" for n in binops)
    rep.check("M5", add_ok and len(binops) >= 2, db.loc(fn), bt.short, "rollup:accumulators",
              "accumulators in __build_time use OAdd (%d sites)" % len(binops),
              "an accumulation in __build_time uses an operator other than OAdd, or one of the two "
              "accumulations (per component across Einsums, across blocks) is gone",
              decided=bool(binops) and not add_ok)
    # per-component accumulation: dict[comp] = EBinOp(dict[comp], OAdd(), new_time)
    per_comp = [n for n in walk_no_nested(fn) if isinstance(n, ast.Assign) and
                isinstance(n.targets[0], ast.Subscript) and _is_ctor(n.value, "EBinOp") and
                norm(n.value.args[0]) == norm(n.targets[0])]
    if not per_comp:
        # the same accumulation through a local: v = EBinOp(D[k], OAdd(), v); D[k] = v
        for n in walk_no_nested(fn):
            if isinstance(n, ast.Assign) and isinstance(n.targets[0], ast.Subscript) and \
                    isinstance(n.value, ast.Name):
                for st, v in paths.defs_of(fn, n.value.id):
                    if v is not None and _is_ctor(v, "EBinOp") and norm(v.args[0]) == norm(n.targets[0]) and \
                            norm(v.args[1]) == "OAdd()":
                        per_comp.append(n)
    overwritten = [n for n in walk_no_nested(fn) if isinstance(n, ast.Assign) and
                   isinstance(n.targets[0], ast.Subscript) and n not in per_comp]
    rep.check("M5", len(per_comp) == 1, db.loc(fn), bt.short, "rollup:per-component",
              "per-component time accumulates over the Einsums of a block",
              "__build_time no longer accumulates a component's time over the Einsums of a block",
              decided=not per_comp and len({norm(n.targets[0]) for n in overwritten}) == 1 and
              not any(_is_ctor(x, "EBinOp") for n in overwritten for x in ast.walk(n.value)) and
              not any(isinstance(n.value, ast.Name) for n in overwritten))
    # every fold: a name (or entry) initialised before a loop and re-assigned in
    # it to an OAdd EBinOp must carry itself as an operand
    for n in walk_no_nested(fn):
        if not (isinstance(n, ast.Assign) and len(n.targets) == 1 and _is_ctor(n.value, "EBinOp")
                and len(n.value.args) == 3 and norm(n.value.args[1]) == "OAdd()"):
            continue
        lp = next((p_ for p_ in list(paths.parents(n, fn)) if isinstance(p_, (ast.For, ast.While))), None)
        if lp is None:
            continue
        tgt = norm(n.targets[0])
        outside = [x for x in walk_no_nested(fn) if isinstance(x, (ast.Assign, ast.AnnAssign)) and
                   getattr(x, "value", None) is not None and
                   norm(x.targets[0] if isinstance(x, ast.Assign) else x.target) == tgt and
                   lp not in list(paths.parents(x, fn))]
        if not outside and isinstance(n.targets[0], ast.Name):
            continue        # a per-iteration temporary, not a fold
        carried = tgt in (norm(n.value.args[0]), norm(n.value.args[2]))
        rep.check("M5", carried, db.loc(n), bt.short, "rollup:fold@" + tgt,
                  "fold %s = EBinOp(%s, OAdd(), %s) carries its accumulator" %
                  (tgt, norm(n.value.args[0]), norm(n.value.args[2])),
                  "the accumulation '%s' in __build_time does not include the accumulated value %s "
                  "itself: all but the last term of the sum are dropped" % (norm(n)[:80], tgt))
    # max over exactly the per-component expressions
    maxes = [n for n in walk_no_nested(fn) if _is_ctor(n, "EFunc") and n.args and
             isinstance(n.args[0], ast.Constant)]
    ok = len(maxes) == 1 and maxes[0].args[0].value == "max"
    dict_name = norm(per_comp[0].targets[0].value) if per_comp else None
    if ok and dict_name:
        arg = paths.resolve_flow(maxes[0].args[1], maxes[0], fn, depth=1)
        ok = isinstance(arg, ast.ListComp) and _is_ctor(arg.elt, "AJust") and \
            isinstance(arg.elt.args[0], ast.Subscript) and norm(arg.elt.args[0].value) == dict_name and \
            not arg.generators[0].ifs
        if ok:
            it = paths.resolve_flow(arg.generators[0].iter, maxes[0], fn, depth=1)
            ok = dict_name in norm(it)
    bad_max = bool(maxes) and (maxes[0].args[0].value != "max" or len(maxes) != 1)
    if maxes and not bad_max and not ok:
        a_ = paths.resolve_flow(maxes[0].args[1], maxes[0], fn, depth=1)
        bad_max = isinstance(a_, ast.ListComp) and bool(a_.generators[0].ifs)
    rep.check("M5", ok, db.loc(maxes[0]) if maxes else db.loc(fn), bt.short, "rollup:max",
              "block time is max(...) over exactly the per-component times",
              "the per-block combination in __build_time is not EFunc('max') over all per-component "
              "times (found: %s)" % (norm(maxes[0]) if maxes else "no EFunc"), decided=bad_max)
    # every value a block contributes to the total is built from the per-component accumulators
    accs = [n for n in walk_no_nested(fn) if isinstance(n, ast.Assign) and isinstance(n.targets[0], ast.Name)
            and _is_ctor(n.value, "EBinOp") and len(n.value.args) == 3 and
            isinstance(n.value.args[0], ast.Name) and n.value.args[0].id == n.targets[0].id and
            isinstance(n.value.args[2], ast.Name)]
    blk_names = {n.value.args[2].id for n in accs if any(
        isinstance(p_, ast.For) and "get_blocks" in paths.called_names([p_.iter])
        for p_ in paths.parents(n, fn))}
    left = {id(x): (lp, nm) for x, lp, nm in paths.leftover_uses(fn)}
    for bname in sorted(blk_names):
        for st, v in paths.defs_of(fn, bname):
            if v is None:
                continue
            kind_, good, known = "?", False, False
            if isinstance(v, ast.Subscript) and dict_name and norm(v.value) == dict_name:
                kind_, good, known = "accumulator " + norm(v)[:40], True, True
            elif _is_ctor(v, "EFunc"):
                kind_, good, known = "EFunc (checked as rollup:max)", True, True
            elif _is_ctor(v, "EInt"):
                kind_, good, known = norm(v), True, True
            elif isinstance(v, ast.Name) and id(v) in left:
                lp, nm = left[id(v)]
                kind_, good, known = "'%s', left over from the loop over %s" % (nm, norm(lp.iter)[:30]), False, True
            rep.check("M5", good, db.loc(st), bt.short, "rollup:block-value:" + norm(v)[:40],
                      "the block's time %s = %s" % (bname, kind_),
                      "the time a block contributes to the total is %s instead of a per-component "
                      "accumulator: what the other Einsums of the block added to that component is dropped" %
                      kind_, decided=known)
    # the value stored in metrics["time"] is the cross-block accumulator
    sites = time_sites(db, bt)
    ok = False
    if len(sites) == 1:
        call, X, rhs = sites[0]
        if isinstance(rhs, ast.Name):
            acc = rhs.id
            accum = [n for n in walk_no_nested(fn) if isinstance(n, ast.Assign) and
                     isinstance(n.targets[0], ast.Name) and n.targets[0].id == acc and
                     _is_ctor(n.value, "EBinOp") and isinstance(n.value.args[0], ast.Name) and
                     n.value.args[0].id == acc]
            blk_loop = [n for n in walk_no_nested(fn) if isinstance(n, ast.For) and
                        "get_blocks" in paths.called_names([n.iter])]
            in_loop = bool(accum) and bool(blk_loop) and any(
                a in list(ast.walk(blk_loop[0])) for a in accum)
            outside = bool(blk_loop) and call not in list(ast.walk(blk_loop[0]))
            ok = in_loop and outside and _is_ctor(X, "EVar")
    rep.check("M5", ok, db.loc(fn), bt.short, "rollup:stored",
              "metrics['time'] is assigned the cross-block accumulator after the block loop",
              "the value assigned to metrics['time'] is not the accumulator summed over all blocks", decided=False)


def _check_traffic_path_order(db: DB, rep: Report) -> None:
    """M8: the memories of a traffic path are listed from the outermost to the innermost level
    (the collector charges each buffer as filled from the one before it): the level worklist of
    Hardware.get_traffic_path is consumed breadth-first, or the result is sorted by depth."""
    gp = db.func("teaal.ir.hardware.Hardware.get_traffic_path")
    loops = [n for n in walk_no_nested(gp.node) if isinstance(n, ast.While) and isinstance(n.test, ast.Name)]
    if len(loops) != 1:
        rep.undecided("M8", db.loc(gp.node), gp.short, "the level worklist loop of get_traffic_path was not found")
        return
    wl = loops[0].test.id
    pops = [n for n in ast.walk(loops[0]) if isinstance(n, ast.Call) and isinstance(n.func, ast.Attribute) and
            isinstance(n.func.value, ast.Name) and n.func.value.id == wl and n.func.attr in ("pop", "popleft")]
    pushes_back = any(isinstance(n, ast.Call) and isinstance(n.func, ast.Attribute) and
                      isinstance(n.func.value, ast.Name) and n.func.value.id == wl and
                      n.func.attr in ("extend", "append") for n in ast.walk(loops[0]))
    sorted_after = any(isinstance(n, ast.Call) and ((isinstance(n.func, ast.Attribute) and n.func.attr == "sort")
                                                     or norm(n.func) == "sorted")
                       for n in walk_no_nested(gp.node))
    fifo = len(pops) == 1 and pushes_back and (
        pops[0].func.attr == "popleft" or (pops[0].args and norm(pops[0].args[0]) == "0"))
    lifo = len(pops) == 1 and pushes_back and pops[0].func.attr == "pop" and not pops[0].args
    rep.check("M8", fifo or sorted_after, db.loc(pops[0]) if pops else db.loc(gp.node), gp.short,
              "traffic-path:by-depth", "levels are visited breadth-first (the path is ordered by depth)",
              "Hardware.get_traffic_path takes the next level with %s from a worklist it extends at the back: "
              "the memories come out in depth-first visiting order, so for buffers in sibling subtrees at "
              "different depths the path - which buffer is filled from which, and whose time enters the "
              "roll-up - depends on the order of the subtrees in the YAML" %
              (norm(pops[0]) if pops else "?"), decided=fifo or lifo or sorted_after)


def mutants(db: DB):
    from sa.selftest import M, Mutant, Edit
    col = "teaal/trans/collector.py"
    comp = "teaal/ir/component.py"
    return [
        M("Einsums that bind no component skip the block builder (C14-u3)", "teaal/trans/hifiber.py",
          "        if self.hardware and self.format:\n            self.metrics = Metrics(self.program, self.hardware, self.format)\n            self.fusion.add_einsum(self.program)",
          "        if self.hardware and self.format:\n            self.metrics = Metrics(self.program, self.hardware, self.format)\n            if self.hardware.get_components(self.program.get_equation().get_output().root_name(), FunctionalComponent):\n                self.fusion.add_einsum(self.program)", "M9"),
        M("revert F16 fix (depth-first traffic path)", "teaal/ir/hardware.py",
          "            level, depth = levels.pop(0)", "            level, depth = levels.pop()", "M8"),
        M("single-component block uses the last Einsum's time", col,
          "                block_time = component_time[comp]", "                block_time = new_time", "M5"),
        M("delete add_component (compute)", col, "            self.fusion.add_component(einsum, fu.get_name())\n",
          "", "M1"),
        M("register a different name (sequencers)", col, "self.fusion.add_component(einsum, seq.get_name())",
          "self.fusion.add_component(einsum, einsum)", "M1"),
        M("register twice (merges)", col, "            self.fusion.add_component(einsum, merger.get_name())\n",
          "            self.fusion.add_component(einsum, merger.get_name())\n"
          "            self.fusion.add_component(einsum, merger.get_name())\n", "M1"),
        M("traffic registration conditional", col, "            self.fusion.add_component(einsum, src)\n",
          "            if tensors:\n                self.fusion.add_component(einsum, src)\n", "M1"),
        M("drop instance count (intersections)", col,
          "            op_freq = self.metrics.get_hardware().get_frequency(einsum) * \\\n                intersector.get_num_instances()",
          "            op_freq = self.metrics.get_hardware().get_frequency(einsum)", "M2"),
        M("another component's instance count (traffic)", col,
          "                    component.get_bandwidth() *\n                    component.get_num_instances()))",
          "                    component.get_bandwidth() *\n                    buffer_.get_num_instances()))", "M2"),
        M("instances squared (compute)", col,
          "            op_freq = self.metrics.get_hardware().get_frequency(einsum) * \\\n                fu.get_num_instances()",
          "            op_freq = self.metrics.get_hardware().get_frequency(einsum) * \\\n                fu.get_num_instances() * fu.get_num_instances()",
          "M2"),
        M("time multiplies instead of divides", col, "time = EBinOp(EParens(steps), ODiv(), EInt(op_freq))",
          "time = EBinOp(EParens(steps), OMul(), EInt(op_freq))", "M2"),
        Mutant("subclasses pass num_instances + 1",
               [Edit(comp, "super().__init__(name, num_instances, attrs, bindings)",
                     "super().__init__(name, num_instances + 1, attrs, bindings)",
                     count=db.module("teaal.ir.component").src.count(
                         "super().__init__(name, num_instances, attrs, bindings)"))], ("M3",)),
        M("Hardware passes num + 1", "teaal/ir/hardware.py", "self.__build_component(comp, tree[\"num\"], config)",
          "self.__build_component(comp, tree[\"num\"] + 1, config)", "M3"),
        M("component ctor gets constant", "teaal/ir/hardware.py",
          "component = class_(name, num_instances, local[\"attributes\"], binding)",
          "component = class_(name, 1, local[\"attributes\"], binding)", "M3"),
        M("getter returns constant", comp, "        return self.num_instances\n", "        return 1\n", "M3"),
        M("bandwidth getter already multiplies by instances", comp, "        return self.bandwidth\n",
          "        return self.bandwidth * self.num_instances\n", "M6"),
        M("revert F5 fix in get_components", "teaal/ir/hardware.py",
          "            component = self.components[self.configs[einsum]][name]",
          "            component = [c[name] for c in self.components.values() if name in c][-1]", "M7"),
        M("component table keyed by name again", "teaal/ir/hardware.py",
          "        self.components[config][component.get_name()] = component",
          "        self.components.setdefault(\"all\", {})[component.get_name()] = component", "M7"),
        M("sequencers after roll-up", col,
          "        # Track the sequences\n        block.add(self.__build_sequencers())\n\n        # Add the final execution time modeling\n        num_einsums = len(self.program.get_all_einsums())\n        if self.program.get_einsum_ind() + 1 == num_einsums:\n            block.add(self.__build_time())\n",
          "        # Add the final execution time modeling\n        num_einsums = len(self.program.get_all_einsums())\n        if self.program.get_einsum_ind() + 1 == num_einsums:\n            block.add(self.__build_time())\n\n        # Track the sequences\n        block.add(self.__build_sequencers())\n",
          "M4"),
        M("roll-up on every Einsum", col, "        if self.program.get_einsum_ind() + 1 == num_einsums:\n            block.add(self.__build_time())",
          "        if True:\n            block.add(self.__build_time())", "M4"),
        M("max -> sum", col, "block_time = EFunc(\"max\", comp_args)", "block_time = EFunc(\"sum\", comp_args)", "M5"),
        M("max -> min", col, "block_time = EFunc(\"max\", comp_args)", "block_time = EFunc(\"min\", comp_args)", "M5"),
        M("blocks combined with max-like operator", col, "                time = EBinOp(time, OAdd(), block_time)",
          "                time = EBinOp(time, OMul(), block_time)", "M5"),
        M("per-component accumulation overwritten", col,
          "                        component_time[comp] = EBinOp(\n                            component_time[comp], OAdd(), new_time)",
          "                        component_time[comp] = new_time", "M5"),
        M("max over a filtered subset", col, "comp_args = [AJust(component_time[comp]) for comp in comps]",
          "comp_args = [AJust(component_time[comp]) for comp in comps if comp]", "M5"),
        M("benign: instances x rate order", col,
          "            op_freq = self.metrics.get_hardware().get_frequency(einsum) * \\\n                seq.get_num_instances()",
          "            op_freq = seq.get_num_instances() * \\\n                self.metrics.get_hardware().get_frequency(einsum)",
          (), benign=True),
    ]
