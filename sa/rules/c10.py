"""
C10 - statement order respects every data and control dependence.

Decided (DESIGN.md section 3, C10): structural necessary conditions
  K1 node identity is total over node fields (and accessors return the field
     their constructor parameter initialises)
  K2 translator dispatch is exhaustive over the node kinds the flow graph can
     contain, and no arm is silently empty
  K4 hoisting relocates a node only under a non-descendance test of the loop
     being processed and inserts it at the loop's own index
  K5 kind-level dependence edges the emitted names require are present
  K6 no emitting node is left without a predecessor or successor by its builder
Not decided: instance-level dependences of one specification's graph and the
tie-breaks of the topological order (run-time networkx data).
"""

from __future__ import annotations

import ast
from typing import Dict, List, Optional, Set, Tuple

from sa import paths
from sa.db import DB, AnalysisError, ClassInfo, FuncInfo, norm, walk_no_nested
from sa.fixtures import fixture
from sa.report import Report

FG = "teaal.ir.flow_graph.FlowGraph"
NODE = "teaal.ir.node.Node"

# Kind pairs (after contracting pruned kinds) that the emitted names require.
REQUIRED: List[Tuple[str, str, str]] = [
    ("OtherNode(Output)", "OtherNode(Graphics)", "createCanvas takes the output tensor"),
    ("OtherNode(Graphics)", "LoopNode", "canvas exists before any loop adds activity"),
    ("PartNode", "OtherNode(Graphics)", "createCanvas arguments are final (partitioned) tensor names"),
    ("SwizzleNode(loop-order)", "OtherNode(Graphics)", "createCanvas arguments are final (swizzled) tensor names"),
    ("PartNode", "SwizzleNode(loop-order)", "<T>_<ranks> is bound by the partition before it is swizzled"),
    ("SwizzleNode(partitioning)", "PartNode", "flattening needs its ranks adjacent first"),
    ("SwizzleNode(loop-order)", "GetRootNode", "getRoot reads the swizzled tensor name"),
    ("GetRootNode", "LoopNode", "<t>_<rank> fiber is bound before the loop iterates it"),
    ("OtherNode(Output)", "GetRootNode", "output root fiber needs the output tensor"),
    ("FromFiberNode", "PartNode", "dynamic partition of the tensor rebuilt from the current fiber"),
    ("LoopNode", "FromFiberNode", "fromFiber reads the loop's payload fiber"),
    ("LoopNode", "PartNode", "splitNonUniform(<leader fiber>) reads a fiber bound by a loop"),
    ("EagerInputNode", "IntervalNode", "inputs_* is read by the interval"),
    ("IntervalNode", "LoopNode", "*_start/*_end are read by the loop's projection"),
    ("LoopNode", "IntervalNode", "*_pos of the enclosing loop is read by the interval"),
    ("GetRootNode", "EagerInputNode", "eager inputs read the root fibers"),
    ("LoopNode", "GetPayloadNode", "loop variables are the lookup coordinates"),
    ("GetPayloadNode", "OtherNode(Body)", "looked-up *_val is read by the update"),
    ("GetPayloadNode", "LoopNode", "looked-up fiber is iterated by an inner loop"),
    ("LoopNode", "OtherNode(Body)", "update is innermost"),
    ("GetRootNode", "OtherNode(Body)", "*_val / *_ref of rank-0 tensors"),
    ("OtherNode(Body)", "EndLoopNode", "loops close after the update"),
    ("EndLoopNode", "OtherNode(Footer)", "footer after all loops closed"),
    ("LoopNode", "LoopNode", "loop nest order"),
    ("EndLoopNode", "EndLoopNode", "loops close in reverse order"),
    ("SwizzleNode(metrics)", "SwizzleNode(partitioning)",
     "merger's initial rank order is established before the flattening swizzle"),
    ("SwizzleNode(metrics)", "SwizzleNode(loop-order)",
     "merger's initial rank order is established before the loop-order swizzle"),
    ("MetricsNode(Start)", "LoopNode", "collection opened before the loop nest"),
    ("MetricsNode(Start)", "MetricsHeaderNode", "collection opened before per-loop headers"),
    ("MetricsHeaderNode", "LoopNode", "eager trackers exist before the loop"),
    ("LoopNode", "MetricsHeaderNode", "header of an inner loop lies inside the outer loop"),
    ("OtherNode(Body)", "MetricsNode(Body)", "iteration counters after the update"),
    ("MetricsNode(Body)", "EndLoopNode", "metrics body inside the innermost loop"),
    ("EndLoopNode", "MetricsFooterNode", "loop footer after the loop closes"),
    ("MetricsFooterNode", "EndLoopNode", "footer of an inner loop lies inside the outer loop"),
    ("MetricsFooterNode", "MetricsNode(End)", "collection closed after the last footer"),
    ("EndLoopNode", "MetricsNode(End)", "collection closed after the loop nest"),
    ("MetricsNode(End)", "OtherNode(Footer)", "footer after collection closed"),
    ("OtherNode(Footer)", "MetricsNode(Dump)", "dump reads the final output tensor"),
]

# (builder, src kind, dst kind): the same kind pair added by two builders; one
# builder's edge cannot stand in for the other's
PER_BUILDER: List[Tuple[str, str, str]] = [
    ("__build_static_part", "SwizzleNode(metrics)", "SwizzleNode(partitioning)"),
    ("__build_static_part", "RankNode", "SwizzleNode(metrics)"),
    ("__build_swizzle_root_fiber", "SwizzleNode(metrics)", "SwizzleNode(loop-order)"),
    ("__build_swizzle_root_fiber", "RankNode", "SwizzleNode(metrics)"),
]

# reviewed exemption for K6 (by name, with reason)
K6_EXEMPT = {
    ("__connect_dyn_part", "PartNode"):
        "nodes are identified by value; the equal PartNode(root, (rank,)) receives its out-edges "
        "in __build_dyn_part",
}


def node_classes(db: DB) -> Dict[str, ClassInfo]:
    base = db.cls(NODE)
    out = {}
    for c in base.all_subclasses():
        if c.module.name in ("teaal.ir.flow_nodes", "teaal.ir.part_nodes"):
            out[c.qualname] = c
    return out


def _calls_super(fn: ast.AST, meth: str) -> bool:
    return any(isinstance(n, ast.Call) and isinstance(n.func, ast.Attribute) and n.func.attr == meth and
               isinstance(n.func.value, ast.Call) and norm(n.func.value.func) == "super"
               for n in ast.walk(fn))


def init_fields(c: ClassInfo) -> Tuple[Set[str], Dict[str, str]]:
    """(fields assigned by the constructor - the class's own or the inherited one, following
    super().__init__ chains -, parameter -> field it initialises)."""
    fields: Set[str] = set()
    p2f: Dict[str, str] = {}
    follow = True
    for k in c.mro():
        init = k.methods.get("__init__")
        if init is None or not follow:
            continue
        for n in walk_no_nested(init.node):
            if isinstance(n, (ast.Assign, ast.AnnAssign)):
                ts = n.targets if isinstance(n, ast.Assign) else [n.target]
                for t in ts:
                    if isinstance(t, ast.Attribute) and isinstance(t.value, ast.Name) and t.value.id == "self":
                        fields.add(t.attr)
                        if isinstance(n.value, ast.Name):
                            p2f.setdefault(n.value.id, t.attr)
        follow = _calls_super(init.node, "__init__")
    return fields, p2f


def key_fields(c: ClassInfo) -> Optional[Set[str]]:
    """self attributes in the identity key (own or inherited, following super() chains); None: no key."""
    out: Optional[Set[str]] = None
    follow = True
    for k in c.mro():
        key = k.methods.get("_Node__key")
        if key is None or not follow:
            continue
        if getattr(key, "is_abstract", False) or not any(
                isinstance(n, ast.Return) and n.value is not None for n in walk_no_nested(key.node)):
            continue
        out = out or set()
        for n in walk_no_nested(key.node):
            if isinstance(n, ast.Return) and n.value is not None:
                out |= paths.self_attrs(n.value)
        follow = _calls_super(key.node, "_Node__key")
    return out


class Kinds:
    """Infers the node kind(s) an expression in FlowGraph may denote."""

    def __init__(self, db: DB, fg: ClassInfo):
        self.db = db
        self.fg = fg
        self.flow_mod = db.module("teaal.ir.flow_graph")
        self.node_names = {}
        base = db.cls(NODE)
        for c in base.all_subclasses():
            ent = self.flow_mod.ns.get(c.name)
            if ent and ent[0] == "class" and ent[1] is c:
                self.node_names[c.name] = c

    def ctor_kind(self, call: ast.Call) -> Optional[str]:
        if not (isinstance(call.func, ast.Name) and call.func.id in self.node_names):
            return None
        nm = call.func.id
        lit = None
        if nm in ("OtherNode", "MetricsNode") and call.args:
            a = call.args[0]
            lit = a.value if isinstance(a, ast.Constant) else "?"
        if nm == "SwizzleNode" and len(call.args) >= 3:
            a = call.args[2]
            lit = a.value if isinstance(a, ast.Constant) else "?"
        return "%s(%s)" % (nm, lit) if lit is not None else nm

    def of(self, e: ast.AST, f: FuncInfo, depth: int = 0) -> Set[str]:
        if depth > 6:
            return {"?"}
        if isinstance(e, ast.Call):
            k = self.ctor_kind(e)
            if k:
                return {k}
            if isinstance(e.func, ast.Name) and e.func.id == "cast" and len(e.args) == 2:
                return self.of(e.args[1], f, depth + 1)
            return {"?"}
        if isinstance(e, ast.Name):
            out: Set[str] = set()
            if e.id in f.params:
                # parameter: union over call sites
                idx = f.call_params.index(e.id) if e.id in f.call_params else None
                for caller, call in self.db.callers().get(f.qualname, []):
                    if idx is not None and idx < len(call.args):
                        out |= self.of(call.args[idx], caller, depth + 1)
                return out or {"?"}
            for st, val in paths.defs_of(f.node, e.id):
                if isinstance(st, (ast.For, ast.comprehension)):
                    out |= self.elems(val, f, depth + 1, st.target, e.id)
                elif isinstance(st, ast.Call):
                    continue
                elif val is not None:
                    out |= self.of(val, f, depth + 1)
            return out or {"?"}
        if isinstance(e, ast.Subscript):
            return self.elems(e.value, f, depth + 1)
        if isinstance(e, ast.Constant) and e.value is None:
            return set()            # "no node" (an optional operand that is tested before use)
        if isinstance(e, ast.IfExp):
            return self.of(e.body, f, depth + 1) | self.of(e.orelse, f, depth + 1)
        return {"?"}

    def elems(self, coll: Optional[ast.AST], f: FuncInfo, depth: int,
              target: Optional[ast.AST] = None, name: Optional[str] = None) -> Set[str]:
        """Kinds of the elements of a collection expression."""
        if coll is None:
            return {"?"}
        if isinstance(coll, ast.Call) and isinstance(coll.func, ast.Name) and \
                coll.func.id in ("enumerate", "reversed", "list", "sorted") and coll.args:
            # for i, x in enumerate(xs): the index is not a node
            if coll.func.id == "enumerate" and isinstance(target, ast.Tuple) and name is not None:
                if isinstance(target.elts[0], ast.Name) and target.elts[0].id == name:
                    return set()
            return self.elems(coll.args[0], f, depth, None, None)
        if isinstance(coll, ast.Call) and isinstance(coll.func, ast.Name) and coll.func.id == "zip" and coll.args:
            # for a, b in zip(xs, ys): the k-th target takes the elements of the k-th argument
            if isinstance(target, ast.Tuple) and name is not None:
                for k, t_ in enumerate(target.elts):
                    if isinstance(t_, ast.Name) and t_.id == name and k < len(coll.args):
                        return self.elems(coll.args[k], f, depth + 1, None, None)
            out_z: Set[str] = set()
            for a_ in coll.args:
                out_z |= self.elems(a_, f, depth + 1, None, None)
            return out_z
        if isinstance(coll, ast.Subscript) and isinstance(coll.slice, ast.Slice):
            return self.elems(coll.value, f, depth + 1, None, None)
        if isinstance(coll, ast.BinOp) and isinstance(coll.op, ast.Add):
            return self.elems(coll.left, f, depth + 1) | self.elems(coll.right, f, depth + 1)
        if isinstance(coll, (ast.ListComp, ast.GeneratorExp)):
            return self.of(coll.elt, f, depth + 1)
        if isinstance(coll, (ast.List, ast.Tuple)):
            out: Set[str] = set()
            for x in coll.elts:
                out |= self.of(x, f, depth + 1)
            return out
        if isinstance(coll, ast.Name):
            out = set()
            for st, val in paths.defs_of(f.node, coll.id):
                if isinstance(st, ast.Call):      # xs.append(v) / xs.extend(vs)
                    if val is not None and isinstance(st.func, ast.Attribute) and st.func.attr in ("extend", "update"):
                        out |= self.elems(val, f, depth + 1)
                    elif val is not None:
                        out |= self.of(val, f, depth + 1)
                elif isinstance(st, (ast.Assign, ast.AnnAssign)) and val is not None:
                    out |= self.elems(val, f, depth + 1)
            return out or {"?"}
        return {"?"}


@fixture("C10/K12 coarse memo matcher")
def _fx_k12() -> bool:
    src = ("class P:\n    def f(self, rank):\n        root = self.root_of(rank)\n"
           "        if root not in self.memo:\n            self.memo[root] = self.leader(rank)\n"
           "        return self.memo[root]\n"
           "    def g(self, rank):\n        if rank not in self.memo:\n"
           "            self.memo[rank] = self.leader(rank)\n        return self.memo[rank]\n")
    tree = paths.link_parents(ast.parse(src))
    f_, g_ = tree.body[0].body
    return len(paths.coarse_memos(f_)) == 1 and not paths.coarse_memos(g_)


def run(db: DB, rep: Report) -> None:
    rep.explanation = (
        "Structural analysis of teaal/ir/flow_graph.py, flow_nodes.py, part_nodes.py and "
        "HiFiber.__trans_nodes: (K1) for every Node subclass the attributes assigned in __init__ "
        "equal those in its _Node__key tuple and each accessor returns the field its constructor "
        "parameter initialises; (K2) node classes and OtherNode/MetricsNode type strings the graph "
        "builder instantiates, minus those __prune removes, equal the isinstance / get_type() arms "
        "of the translator, and every arm hands a translator result to code.add on every path; "
        "(K4) the relocation in __hoist is control-dependent on a membership test against "
        "nx.descendants(graph, LoopNode(rank)) of the loop being processed and inserts at the loop's "
        "index; (K5) the may-edge relation between node kinds, inferred from every add_edge site by "
        "local def-use and contracted over pruned kinds, contains each dependence in a reviewed "
        "table; (K6) every emitting node a builder creates has an in- and an out-edge there.")
    rep.trusted += ["networkx: add_edge/descendants/topological_sort semantics",
                    "kind table REQUIRED / PER_BUILDER in sa/rules/c10.py (reviewed against the emitters)"]
    rep.assumptions += ["may-edges over-approximate instance edges: a present kind pair does not show "
                        "that every instance dependence is present"]

    fg = db.cls(FG)
    kinds = Kinds(db, fg)
    ncls = node_classes(db)

    # ---- K1 -----------------------------------------------------------------
    rep.rule("K1", "node identity (_Node__key) is total over __init__ fields; accessors return "
             "their parameter's field", 18)
    for q, c in sorted(ncls.items()):
        if c.subclasses and "__init__" not in c.methods:
            continue   # abstract intermediate (PartitioningNode)
        fields, p2f = init_fields(c)
        kf = key_fields(c)
        key = kf is not None
        kfields: Set[str] = kf or set()
        ok = key and fields == kfields
        rep.check("K1", ok, db.loc(c.node), c.name, "key:%s" % c.name,
                  "%s: fields %s, key %s" % (c.name, sorted(fields), sorted(kfields)),
                  "node class %s: identity key %s does not cover the constructor fields %s; two "
                  "different nodes collapse into one graph vertex (or equal nodes stay apart)" %
                  (c.name, sorted(kfields) if key else "is missing", sorted(fields)))
        # accessors
        accessors = {}
        for k in reversed(c.mro()):
            for nm, g in k.methods.items():
                if nm.startswith("get_"):
                    accessors[nm] = g
        for nm, g in sorted(accessors.items()):
            pname = nm[4:]
            want = p2f.get(pname) or p2f.get(pname + "_")
            rets = [n for n in walk_no_nested(g.node) if isinstance(n, ast.Return) and n.value is not None]
            if want is None or len(rets) != 1 or not (
                    isinstance(rets[0].value, ast.Attribute) and isinstance(rets[0].value.value, ast.Name)
                    and rets[0].value.value.id == "self"):
                continue   # computed accessor (FlattenNode.get_rank joins ranks)
            got = rets[0].value.attr
            rep.check("K1", got == want, db.loc(g.node), c.name + "." + nm, "accessor:%s.%s" % (c.name, nm),
                      "%s.%s returns self.%s" % (c.name, nm, got),
                      "%s.%s returns self.%s but the constructor parameter '%s' initialises self.%s; "
                      "the translator would emit the statement for the wrong tensor/rank" %
                      (c.name, nm, got, pname, want))

    # ---- collect add_edge sites ----------------------------------------------
    builders = [f for f in fg.methods.values()]
    sites = []   # (func, call, srckinds, dstkinds)
    for f in builders:
        for n in walk_no_nested(f.node):
            if isinstance(n, ast.Call) and isinstance(n.func, ast.Attribute) and \
                    n.func.attr == "add_edge" and norm(n.func.value) == "self.graph" and len(n.args) >= 2:
                if f.name == "__prune":
                    continue
                sk = kinds.of(n.args[0], f)
                dk = kinds.of(n.args[1], f)
                sites.append((f, n, sk, dk))
    sites = [x for x in sites if x[2] and x[3]]      # an operand that is None: no edge is added
    unknown = [(f, n) for f, n, sk, dk in sites if "?" in sk or "?" in dk]
    if unknown:
        f, n = unknown[0]
        raise AnalysisError("cannot infer the node kinds of %s at %s" % (norm(n), db.loc(n)))

    # ---- pruned kinds (from __prune's isinstance chain) -----------------------
    prune = fg.methods.get("__prune")
    if prune is None:
        raise AnalysisError("FlowGraph.__prune not found")
    pruned_cls: Set[str] = set()
    pruned_lits: Set[Tuple[str, str]] = set()
    prune_fns = [prune] + [g for _, gs in db.callees(prune) for g in gs if g.cls is fg]
    lit_guarded: Set[str] = set()
    for pf in prune_fns[1:]:
        # predicate helper:  if isinstance(node, C): return node.get_type() == "<lit>"
        for r_ in [n for n in walk_no_nested(pf.node) if isinstance(n, ast.Return) and n.value is not None]:
            if isinstance(r_.value, ast.Compare) and "get_type" in paths.called_names([r_.value]) and \
                    isinstance(r_.value.comparators[0], ast.Constant):
                for t, pol in paths.guards(r_, stop=pf.node):
                    for a, p_ in paths.conjuncts(t, pol):
                        if p_ and isinstance(a, ast.Call) and norm(a.func) == "isinstance" and \
                                isinstance(a.args[1], ast.Name):
                            pruned_lits.add((a.args[1].id, r_.value.comparators[0].value))
                            lit_guarded.add(a.args[1].id)
    for n in [x for pf in prune_fns for x in walk_no_nested(pf.node)]:
        # node == OtherNode("StartLoop") (possibly through a local)
        if isinstance(n, ast.Compare) and len(n.ops) == 1 and isinstance(n.ops[0], ast.Eq):
            for side in (n.left, n.comparators[0]):
                v_ = side
                if isinstance(side, ast.Name):
                    v_ = paths.reaching_def(side.id, n, prune.node) or side
                if isinstance(v_, ast.Call):
                    k_ = kinds.ctor_kind(v_)
                    if k_ and "(" in k_:
                        pruned_lits.add((k_.split("(")[0], k_[k_.index("(") + 1:-1]))
        if isinstance(n, ast.Call) and isinstance(n.func, ast.Name) and n.func.id == "isinstance" and \
                len(n.args) == 2 and isinstance(n.args[1], ast.Tuple):
            for e_ in n.args[1].elts:
                if isinstance(e_, ast.Name):
                    pruned_cls.add(e_.id)
        if isinstance(n, ast.Call) and isinstance(n.func, ast.Name) and n.func.id == "isinstance" and \
                len(n.args) == 2 and isinstance(n.args[1], ast.Name):
            cname = n.args[1].id
            # class test combined with a get_type() comparison prunes one literal only
            p = n.parent
            lit = None
            if isinstance(p, ast.BoolOp) and isinstance(p.op, ast.And):
                for v in p.values:
                    if isinstance(v, ast.Compare) and "get_type" in paths.called_names([v]) and \
                            isinstance(v.comparators[0], ast.Constant):
                        lit = v.comparators[0].value
            if lit is None and cname not in lit_guarded:
                pruned_cls.add(cname)
            elif lit is not None:
                pruned_lits.add((cname, lit))
    if not pruned_cls:
        raise AnalysisError("the node kinds FlowGraph.__prune removes were not recognised")

    def is_pruned(kind: str) -> bool:
        base = kind.split("(")[0]
        if base in pruned_cls:
            return True
        if "(" in kind:
            return (base, kind[kind.index("(") + 1:-1]) in pruned_lits
        return False

    # ---- K2 dispatch ----------------------------------------------------------
    rep.rule("K2", "translator dispatch is exhaustive over non-pruned node kinds; no empty arm", 13)
    tn = db.func("teaal.trans.hifiber.HiFiber.__trans_nodes")
    inst_cls: Dict[str, ast.AST] = {}
    inst_lits: Dict[str, Dict[str, ast.AST]] = {"OtherNode": {}, "MetricsNode": {}}
    for f in builders:
        if f.name in ("draw",):
            continue
        for n in walk_no_nested(f.node):
            if isinstance(n, ast.Call):
                k = kinds.ctor_kind(n)
                if not k:
                    continue
                base = k.split("(")[0]
                inst_cls.setdefault(base, n)
                if base in inst_lits and "(" in k:
                    inst_lits[base].setdefault(k[k.index("(") + 1:-1], n)
    arms: Dict[str, ast.If] = {}
    for n in walk_no_nested(tn.node):
        if isinstance(n, ast.If) and isinstance(n.test, ast.Call) and \
                isinstance(n.test.func, ast.Name) and n.test.func.id == "isinstance" and \
                len(n.test.args) == 2 and isinstance(n.test.args[1], ast.Name):
            arms[n.test.args[1].id] = n
    # table-driven dispatch: a dict literal {NodeClass: translator, ...} in the translator class
    table: Dict[str, ast.AST] = {}
    for g_ in tn.cls.methods.values():
        for n in walk_no_nested(g_.node):
            if isinstance(n, ast.Dict) and len(n.keys) >= 3 and \
                    all(isinstance(k, ast.Name) and k.id.endswith("Node") for k in n.keys):
                for k in n.keys:
                    table[k.id] = k
    need = {c for c in inst_cls if c not in pruned_cls}
    for cname in sorted(need | set(arms)):
        if cname in need and cname not in arms and cname in table:
            rep.instance("K2", db.loc(table[cname]), "dispatch-table entry %s <-> constructed at %s" %
                         (cname, db.loc(inst_cls[cname])))
        elif cname in need and cname not in arms:
            rep.check("K2", False, db.loc(inst_cls[cname]), "FlowGraph", "arm-missing:" + cname,
                      "node class %s has no translator arm" % cname,
                      "the flow graph can contain %s nodes (constructed at %s) but "
                      "HiFiber.__trans_nodes has no isinstance arm for them" %
                      (cname, db.loc(inst_cls[cname])))
        elif cname in arms and cname not in need:
            rep.instance("K2", db.loc(arms[cname]), "arm for %s which the builder never creates "
                         "(dead arm, harmless)" % cname)
        else:
            rep.instance("K2", db.loc(arms[cname]), "arm %s <-> constructed at %s" %
                         (cname, db.loc(inst_cls[cname])))

    # the accumulator: the local bound to SBlock([...]) that the function returns
    accs = {n.targets[0].id for n in walk_no_nested(tn.node)
            if isinstance(n, ast.Assign) and len(n.targets) == 1 and isinstance(n.targets[0], ast.Name)
            and isinstance(n.value, ast.Call) and norm(n.value.func) == "SBlock"}
    if len(accs) != 1:
        raise AnalysisError("statement accumulator of __trans_nodes not found")
    acc = next(iter(accs))

    def emits(stmts: List[ast.stmt]) -> Set[Tuple[int, str]]:
        def is_add(n):
            return isinstance(n, ast.Call) and isinstance(n.func, ast.Attribute) and \
                n.func.attr == "add" and isinstance(n.func.value, ast.Name) and \
                n.func.value.id == acc and len(n.args) == 1 and \
                isinstance(n.args[0], (ast.Call, ast.Name))
        return paths.path_counts(stmts, paths.make_pred(is_add))

    def check_arm(label: str, stmts: List[ast.stmt], node: ast.AST, must_return: bool = False) -> None:
        outs = emits(stmts)
        if must_return:
            ok = all(k == paths.RET for _, k in outs)
            rep.check("K2", ok, db.loc(node), tn.short, "arm-returns:" + label,
                      "arm %s returns (closes the loop body)" % label,
                      "the %s arm does not return on every path; the recursive consumption of "
                      "Loop/EndLoop brackets breaks" % label)
            return
        ok = all(c >= 1 for c, k in outs if k in (paths.FALL,))
        ok = ok and any(k == paths.FALL for _, k in outs)
        rep.check("K2", ok, db.loc(node), tn.short, "arm-emits:" + label,
                  "arm %s adds a translator result to the code on every path" % label,
                  "the %s arm of HiFiber.__trans_nodes has a path that adds no statement: the node's "
                  "code is silently dropped" % label)

    for cname, arm in sorted(arms.items()):
        if cname in ("OtherNode", "MetricsNode"):
            # literal sub-dispatch
            lits_arm: Dict[str, ast.If] = {}
            cur: Optional[ast.AST] = arm.body[0] if arm.body and isinstance(arm.body[0], ast.If) else None
            last_else: List[ast.stmt] = []
            while isinstance(cur, ast.If):
                t = cur.test
                if isinstance(t, ast.Compare) and "get_type" in paths.called_names([t]) and \
                        isinstance(t.comparators[0], ast.Constant):
                    lits_arm[t.comparators[0].value] = cur
                last_else = cur.orelse
                cur = cur.orelse[0] if len(cur.orelse) == 1 and isinstance(cur.orelse[0], ast.If) else None
            want = {l for l in inst_lits[cname] if (cname, l) not in pruned_lits}
            for lit in sorted(want | set(lits_arm)):
                if lit in want and lit not in lits_arm:
                    rep.check("K2", False, db.loc(inst_lits[cname][lit]), "FlowGraph",
                              "arm-missing:%s(%s)" % (cname, lit),
                              "%s(%s) has no translator arm" % (cname, lit),
                              "the flow graph can contain %s(\"%s\") but the translator has no "
                              "get_type() arm for it" % (cname, lit))
                elif lit in lits_arm:
                    check_arm("%s(%s)" % (cname, lit), lits_arm[lit].body, lits_arm[lit])
            ok = bool(last_else) and paths.always_exits(last_else) and \
                any(isinstance(s, ast.Raise) for s in last_else)
            rep.check("K2", ok, db.loc(arm), tn.short, "arm-else:" + cname,
                      "%s sub-dispatch ends in raise" % cname,
                      "the %s sub-dispatch of __trans_nodes does not end in a raise: an unknown "
                      "type string would be skipped silently" % cname)
        elif cname == "EndLoopNode":
            check_arm(cname, arm.body, arm, must_return=True)
        else:
            check_arm(cname, arm.body, arm)
    # the outer dispatch ends in raise
    cur = None
    for n in walk_no_nested(tn.node):
        if isinstance(n, ast.If) and n in arms.values() and not (
                isinstance(n.parent, ast.If) and n in n.parent.orelse):
            cur = n
    last_else = []
    while isinstance(cur, ast.If):
        last_else = cur.orelse
        cur = cur.orelse[0] if len(cur.orelse) == 1 and isinstance(cur.orelse[0], ast.If) else None
    rep.check("K2", bool(last_else) and any(isinstance(x, ast.Raise) for s in last_else for x in ast.walk(s)),
              db.loc(tn.node), tn.short, "dispatch-else", "node dispatch ends in raise",
              "the node dispatch of __trans_nodes does not end in a raise: an unknown node kind "
              "would be skipped silently", decided=not table)

    # ---- K3 loop bracket chain and its recursive consumption ----------------------
    rep.rule("K3", "loop nest chain: loops in order, update innermost, ends reversed; recursive consumption", 4)
    _check_chain(db, rep, fg, tn)

    # ---- K7 per-level dependence decisions use per-level facts -----------------------
    rep.rule("K7", "the leader-fiber dependence of a level is decided from that level alone", 2)
    bd = fg.methods.get("__build_dyn_part")
    if bd is None:
        raise AnalysisError("FlowGraph.__build_dyn_part not found")
    n_k7 = 0
    for lp in [n for n in walk_no_nested(bd.node) if isinstance(n, ast.For)]:
        edges = [x for s_ in lp.body for x in ast.walk(s_) if isinstance(x, ast.Call) and
                 isinstance(x.func, ast.Attribute) and x.func.attr == "add_edge" and x.args and
                 norm(x.args[0]).startswith("FiberNode(")]
        if not edges:
            continue
        it_names, it_exprs = paths.backward_slice(bd.node, paths.load_names(lp.iter), with_control=False)
        for e in edges:
            n_k7 += 1
            aggregates = []
            for t, pol in paths.guards(e, stop=lp):
                for nm in paths.load_names(t):
                    defs_in = any(isinstance(x, ast.Name) and isinstance(x.ctx, ast.Store) and x.id == nm
                                  for s_ in lp.body for x in ast.walk(s_))
                    if defs_in or nm in {x.id for x in ast.walk(lp.target) if isinstance(x, ast.Name)}:
                        continue
                    # defined outside the loop: must not be computed by walking the loop's own collection
                    nms, exprs = paths.backward_slice(bd.node, [nm], with_control=True)
                    if any(isinstance(x, (ast.For, ast.comprehension)) and
                           (paths.load_names(x.iter) & (paths.load_names(lp.iter) | set()))
                           for st, v in paths.defs_of(bd.node, nm) for x in [st] if isinstance(st, (ast.For, ast.comprehension))):
                        aggregates.append(nm)
                        continue
                    for st, v in paths.defs_of(bd.node, nm):
                        p_ = getattr(st, "parent", None)
                        while p_ is not None and p_ is not bd.node:
                            if isinstance(p_, ast.For) and p_ is not lp and \
                                    (paths.load_names(p_.iter) & paths.load_names(lp.iter)):
                                aggregates.append(nm)
                            p_ = getattr(p_, "parent", None)
            # and the decision does depend on the level: some name in the guard is computed inside
            # the loop from the loop variable
            lvars = {x.id for x in ast.walk(lp.target) if isinstance(x, ast.Name)}
            dep = False
            for t, pol in paths.guards(e, stop=lp):
                for nm in paths.load_names(t):
                    if nm in lvars:
                        dep = True
                    for st, v in paths.defs_of(bd.node, nm):
                        inside = any(p_ is lp for p_ in _parents_of(st, bd.node))
                        if inside and v is not None:
                            nms, _ = paths.backward_slice(bd.node, paths.load_names(v), with_control=False)
                            if (nms | paths.load_names(v)) & lvars:
                                dep = True
            # sharper: the name compared with the tensor's own root (the leader) is per-level
            roots = {n_.targets[0].id for n_ in walk_no_nested(bd.node) if isinstance(n_, ast.Assign) and
                     isinstance(n_.targets[0], ast.Name) and norm(n_.value).endswith(".root_name()")}
            for t, pol in paths.guards(e, stop=lp):
                for atom, p_ in paths.conjuncts(t, pol):
                    if isinstance(atom, ast.Compare) and len(atom.ops) == 1:
                        sides = [atom.left, atom.comparators[0]]
                        if any(isinstance(x, ast.Name) and x.id in roots for x in sides):
                            for x in sides:
                                if isinstance(x, ast.Name) and x.id not in roots:
                                    per_level = False
                                    for st, v in paths.defs_of(bd.node, x.id):
                                        inside = any(q_ is lp for q_ in _parents_of(st, bd.node))
                                        if inside and v is not None:
                                            nms, _ = paths.backward_slice(bd.node, paths.load_names(v),
                                                                          with_control=False)
                                            if (nms | paths.load_names(v)) & lvars:
                                                per_level = True
                                    dep = dep and per_level
            # a value looked up in a table that this loop itself fills: the key must be the level
            # (the loop's element), not something derived from it through a call
            memo_bad = []
            for t, pol in paths.guards(e, stop=lp):
                for nm in paths.load_names(t):
                    for st, v in paths.defs_of(bd.node, nm):
                        if not (isinstance(v, ast.Subscript) and any(q_ is lp for q_ in _parents_of(st, bd.node))):
                            continue
                        table = norm(v.value)
                        written = [x for x in ast.walk(lp) if isinstance(x, ast.Assign) and
                                   any(isinstance(tg, ast.Subscript) and norm(tg.value) == table
                                       for tg in x.targets)]
                        if not written:
                            continue
                        key = paths.resolve_flow(v.slice, st, bd.node, depth=3)
                        comps = key.elts if isinstance(key, ast.Tuple) else [key]
                        plain = {c.id for c in comps if isinstance(c, ast.Name)}
                        level_vars = set(lvars) | {y.id for x in ast.walk(lp) if isinstance(x, ast.For)
                                                   for y in ast.walk(x.target) if isinstance(y, ast.Name)}
                        if not (plain & level_vars):
                            memo_bad.append((table, norm(key)))
            rep.check("K7", not memo_bad, db.loc(e), "FlowGraph." + bd.name, "leader-edge-memo",
                      "the leader used for %s is not read from a table keyed coarser than the level" % norm(e)[:40],
                      "the leader that decides about %s is read from %s[%s], a table this loop fills while it "
                      "walks the levels; its key is not the level itself, so a later level re-uses the leader "
                      "looked up for an earlier one and its split loses the dependence on the fiber it follows" %
                      (norm(e)[:50], memo_bad[0][0] if memo_bad else "", memo_bad[0][1][:40] if memo_bad else ""))
            rep.check("K7", dep, db.loc(e), "FlowGraph." + bd.name, "leader-edge-depends-on-level",
                      "the decision about %s depends on the level being connected" % norm(e)[:40],
                      "whether the partitioning of a level waits for a leader's fiber does not depend on that "
                      "level (no name in the guard is computed from the loop variable %s): the leader of "
                      "another level decides, so a follower split can precede the fiber it follows" %
                      sorted(lvars))
            rep.check("K7", not aggregates, db.loc(e), "FlowGraph." + bd.name, "leader-edge-guard",
                      "the edge %s is decided from facts of its own level" % norm(e)[:50],
                      "whether the partitioning of a level waits for the leader's fiber (%s) is decided from %s, "
                      "which is accumulated over all levels of the rank: a tensor that leads one level but "
                      "follows another loses the dependence, and its split is emitted before the fiber it "
                      "reads is bound" % (norm(e)[:50], sorted(set(aggregates))))
    if n_k7 < 1:
        raise AnalysisError("leader-fiber edge of __build_dyn_part not found")

    # ---- K8 a swizzle / partition node depends on exactly the ranks it names ---------
    rep.rule("K8", "a swizzle or partition node waits for exactly the ranks it is constructed with", 5)
    n_k8 = 0
    for f in builders:
        for n in walk_no_nested(f.node):
            if not (isinstance(n, ast.Assign) and len(n.targets) == 1 and isinstance(n.targets[0], ast.Name)
                    and isinstance(n.value, ast.Call) and isinstance(n.value.func, ast.Name)
                    and n.value.func.id in ("SwizzleNode", "PartNode") and len(n.value.args) >= 2):
                continue
            local = n.targets[0].id
            ranks_arg = n.value.args[1]
            want = norm(ranks_arg)
            for w in ("list(%s)", "%s.copy()", "tuple(%s)"):
                pass
            base = want
            if isinstance(ranks_arg, ast.Call) and isinstance(ranks_arg.func, ast.Name) and \
                    ranks_arg.func.id in ("list", "tuple") and ranks_arg.args:
                base = norm(ranks_arg.args[0])
            if isinstance(ranks_arg, ast.Call) and isinstance(ranks_arg.func, ast.Attribute) and \
                    ranks_arg.func.attr == "copy":
                base = norm(ranks_arg.func.value)
            # loops that add RankNode(_, x) -> local
            for lp in [x for x in walk_no_nested(f.node) if isinstance(x, ast.For)]:
                edges = [e for s_ in lp.body for e in ast.walk(s_) if isinstance(e, ast.Call) and
                         isinstance(e.func, ast.Attribute) and e.func.attr == "add_edge" and len(e.args) >= 2
                         and isinstance(e.args[1], ast.Name) and e.args[1].id == local and
                         norm(e.args[0]).startswith("RankNode(")]
                if not edges:
                    continue
                # the node must be the one constructed (nearest preceding construction of that local)
                if paths.reaching_def(local, lp, f.node) is not n.value and \
                        not any(p_ is n.parent for p_ in _parents_of(lp, f.node)) and \
                        paths.block_of(n)[2] is not paths.block_of(lp)[2]:
                    continue
                if paths.reaching_def(local, lp, f.node) is not None and \
                        paths.reaching_def(local, lp, f.node) is not n.value:
                    continue
                it_res = paths.resolve_flow(lp.iter, lp, f.node, depth=3)
                if isinstance(it_res, (ast.Tuple, ast.List)) and not it_res.elts:
                    continue        # a loop over an empty literal (an inlined helper's unused side) adds no edge
                n_k8 += 1
                it = norm(lp.iter)
                if it != base and norm(it_res) == paths.flow_text(ast.parse(base, mode="eval").body, n, f.node):
                    it = base       # the same list, reached through a local / an inlined helper's parameter
                rep.check("K8", it == base, db.loc(lp), "FlowGraph." + f.name, "rank-deps:%s.%s" % (f.name, local),
                          "%s = %s(..., %s, ...) waits for RankNodes of %s" % (local, n.value.func.id, want, it),
                          "FlowGraph.%s builds %s over the ranks %s but makes it wait for the ranks of %s: it "
                          "can be scheduled before the statement that creates one of the ranks it reads" %
                          (f.name, n.value.func.id, want, it))
    if n_k8 < 5:
        rep.undecided("K8", "teaal/ir/flow_graph.py", "FlowGraph", "fewer than 5 rank-dependence loops found (%d)" % n_k8)

    # ---- K9 builder loops cover their whole collection ----------------------------
    rep.rule("K9", "a builder loop that adds dependence edges per element covers the whole collection", 8)
    from sa.rules.c18 import _early_exits_before, _narrow_iter
    for f in fg.methods.values():
        for lp in [n for n in walk_no_nested(f.node) if isinstance(n, ast.For)]:
            work = [x for s_ in lp.body for x in ast.walk(s_) if isinstance(x, ast.Call) and
                    isinstance(x.func, ast.Attribute) and
                    (x.func.attr == "add_edge" or (x.func.attr.startswith("__") and
                                                   norm(x.func.value) == "self"))]
            if not work:
                continue
            first = work[0]
            st = first
            while not isinstance(st, ast.stmt):
                st = st.parent
            exits = [x for w in work[:1] for x in _early_exits_before(lp, st)]
            # and after the first piece of work: a bare conditional break anywhere in the body
            for x in ast.walk(lp):
                if isinstance(x, ast.Break) and x not in exits:
                    inner = [p_ for p_ in paths.parents(x, lp) if isinstance(p_, (ast.For, ast.While))]
                    _, _, blk = paths.block_of(x)
                    if not inner and blk and blk[0] is x:
                        exits.append(x)
            why = _narrow_iter(lp.iter)
            if why is not None and "slice" not in why:
                why = None      # a literal tuple of elements is a whole (small) collection
            rep.check("K9", not exits and why is None, db.loc(lp), f.short, "loop:" + norm(lp.iter)[:50],
                      "loop over %s adds edges for every element" % norm(lp.iter)[:50],
                      "the loop over %s in %s, which adds the dependence edges of each element, %s: the "
                      "remaining elements get no edges, so their statements are no longer ordered after "
                      "what they read" % (norm(lp.iter)[:50], f.short,
                                          why or ("can be left by the bare %s at %s" %
                                                  (type(exits[0]).__name__.lower(), db.loc(exits[0]))
                                                  if exits else "")))

    # ---- K10 no edge is built from the last element of a finished loop -----------------
    rep.rule("K10", "a dependence edge is not built from what a finished per-element loop left behind", 20)
    for f in fg.methods.values():
        params = set(f.call_params) | {"self"}
        loops = [n for n in walk_no_nested(f.node) if isinstance(n, ast.For)]
        for e in [n for n in walk_no_nested(f.node) if isinstance(n, ast.Call) and
                  isinstance(n.func, ast.Attribute) and n.func.attr == "add_edge"]:
            names = set()
            for a in e.args:
                names |= paths.load_names(a)
            # one step of local flow is what the builders use (fiber_name = ...; add_edge(FiberNode(fiber_name)))
            nms, _ = paths.backward_slice(f.node, sorted(names), with_control=False)
            names |= nms
            stale = []
            for lp in loops:
                if any(p_ is lp for p_ in paths.parents(e, f.node)):
                    continue            # the edge is built inside this loop
                if not (lp.lineno < e.lineno):
                    continue
                if any(isinstance(x, ast.Break) for x in ast.walk(lp)):
                    continue            # a search loop: what it found is meant to be used afterwards
                inner = {x.id for x in ast.walk(lp) if isinstance(x, ast.Name) and isinstance(x.ctx, ast.Store)}
                outside = {x.id for x in walk_no_nested(f.node) if isinstance(x, ast.Name) and
                           isinstance(x.ctx, ast.Store) and not any(p_ is lp for p_ in paths.parents(x, f.node))}
                only = (inner - outside - params) & names
                if not only:
                    continue
                # the uses of these names that feed the edge lie after the loop?
                feeds_after = False
                for x in walk_no_nested(f.node):
                    if isinstance(x, ast.Name) and isinstance(x.ctx, ast.Load) and x.id in only and \
                            not any(p_ is lp for p_ in paths.parents(x, f.node)) and x.lineno > lp.lineno:
                        feeds_after = True
                if not feeds_after:
                    continue
                # exempt: the edge is built only when the loop's collection has a single element
                single = False
                for t, pol in paths.guards(e, stop=f.node):
                    for a, p_ in paths.conjuncts(t, pol):
                        txt = norm(a)
                        it = norm(lp.iter)
                        if (txt == "len(%s) > 1" % it and not p_) or (txt == "len(%s) == 1" % it and p_) or \
                                (txt == "len(%s) != 1" % it and not p_):
                            single = True
                if not single:
                    stale.append((lp, sorted(only)))
            rep.check("K10", not stale, db.loc(e), f.short, "edge:" + norm(e)[:60],
                      "edge %s uses no left-over of a finished loop" % norm(e)[:50],
                      "the edge %s is built after the loop over %s has finished, from %s, which that loop "
                      "assigns per element: only the last element gets its dependence edge, the statements "
                      "of the others are free to be ordered before what they read" %
                      (norm(e)[:70], norm(stale[0][0].iter)[:40] if stale else "", stale[0][1] if stale else ""))

    # ---- K11 a node built from a collection depends on every element of it ----------------
    rep.rule("K11", "a node constructed from a collection of tensors gets an in-edge for every element", 1)
    n_k11 = 0
    for f in fg.methods.values():
        for st in [n for n in walk_no_nested(f.node) if isinstance(n, ast.Assign) and len(n.targets) == 1 and
                   isinstance(n.targets[0], ast.Name) and isinstance(n.value, ast.Call) and
                   isinstance(n.value.func, ast.Name) and n.value.func.id.endswith("Node")]:
            node_local = st.targets[0].id
            def bare(a: ast.AST) -> str:
                if isinstance(a, ast.Call) and isinstance(a.func, ast.Name) and a.func.id in ("list", "tuple") \
                        and len(a.args) == 1:
                    return norm(a.args[0])
                if isinstance(a, ast.Call) and isinstance(a.func, ast.Attribute) and a.func.attr == "copy":
                    return norm(a.func.value)
                return norm(a)
            arg_txt = {bare(a) for a in st.value.args}
            for lp in [n for n in walk_no_nested(f.node) if isinstance(n, ast.For) and bare(n.iter) in arg_txt]:

                def into_node(n, node_local=node_local):
                    return isinstance(n, ast.Call) and isinstance(n.func, ast.Attribute) and \
                        n.func.attr == "add_edge" and len(n.args) >= 2 and norm(n.args[1]) == node_local
                if not any(into_node(x) for x in ast.walk(lp)):
                    continue        # not the loop that connects the elements to this node
                n_k11 += 1
                outs = paths.path_counts(lp.body, paths.make_pred(into_node))
                bad = sorted((c, k) for c, k in outs if k in (paths.FALL, paths.CONT) and c < 1)
                rep.check("K11", not bad, db.loc(lp), f.short, "operands:" + node_local,
                          "every element of %s adds an edge into %s" % (norm(lp.iter)[:40], node_local),
                          "%s is built from the collection %s, and the statement it stands for reads every "
                          "element, but the loop over that collection has a path (%s) that adds no edge into "
                          "it: the statement can be ordered before what that element binds" %
                          (node_local, norm(lp.iter)[:40], bad))
    if n_k11 < 1:
        raise AnalysisError("no node built from a collection with a loop over the same collection found (K11)")

    # ---- K16 a swizzle waits for every rank it permutes ---------------------------------------
    rep.rule("K16", "a SwizzleNode built for a list of ranks gets an in-edge from the RankNode of every one of them", 4)
    for f in fg.methods.values():
        for st in [n for n in walk_no_nested(f.node) if isinstance(n, ast.Assign) and len(n.targets) == 1 and
                   isinstance(n.targets[0], ast.Name) and isinstance(n.value, ast.Call) and
                   norm(n.value.func) == "SwizzleNode" and len(n.value.args) >= 2]:
            node_local = st.targets[0].id
            ranks_txt = norm(st.value.args[1])
            if isinstance(st.value.args[1], ast.Call) and norm(st.value.args[1].func) in ("list", "tuple") and \
                    st.value.args[1].args:
                ranks_txt = norm(st.value.args[1].args[0])
            elif isinstance(st.value.args[1], ast.Call) and isinstance(st.value.args[1].func, ast.Attribute) and \
                    st.value.args[1].func.attr == "copy":
                ranks_txt = norm(st.value.args[1].func.value)
            fed = False
            for lp in [n for n in walk_no_nested(f.node) if isinstance(n, ast.For) and isinstance(n.target, ast.Name)]:
                it_txt = norm(lp.iter)
                same = it_txt == ranks_txt or paths.flow_text(lp.iter, lp, f.node) == \
                    paths.flow_text(st.value.args[1], st, f.node)
                if not same:
                    continue
                for x in ast.walk(lp):
                    if isinstance(x, ast.Call) and isinstance(x.func, ast.Attribute) and x.func.attr == "add_edge" \
                            and len(x.args) >= 2 and norm(x.args[1]) == node_local and \
                            isinstance(x.args[0], ast.Call) and norm(x.args[0].func) == "RankNode" and \
                            any(isinstance(a, ast.Name) and a.id == lp.target.id for a in x.args[0].args):
                        fed = True
            others = sorted({norm(x.args[0])[:40] for x in walk_no_nested(f.node) if isinstance(x, ast.Call) and
                             isinstance(x.func, ast.Attribute) and x.func.attr == "add_edge" and len(x.args) >= 2
                             and norm(x.args[1]) == node_local})
            rep.check("K16", fed, db.loc(st), f.short, "swizzle-ranks:%s(%s)" % (node_local, ranks_txt[:30]),
                      "%s waits for RankNode(_, r) of every r in %s" % (node_local, ranks_txt[:40]),
                      "%s = %s permutes the ranks %s, but no loop over them adds RankNode -> %s edges (its "
                      "in-edges come from %s): the swizzle can be ordered before the partitioning that "
                      "creates those ranks, and the emitted swizzleRanks names ranks the tensor does not "
                      "have yet" % (node_local, norm(st.value)[:60], ranks_txt[:40], node_local, others or "nothing"),
                      decided=fed or bool(others) or True)

    # ---- K14 the metrics header of a loop waits for the fibers it traces ---------------------
    # (Collector.make_loop_header emits <fiber>.trace("eager_..._read") for the eagerly buffered
    # tensors iterated at that rank)
    rep.rule("K14", "MetricsHeaderNode(rank) is ordered after the fibers its statement traces", 1)
    hdr_in = [(f_, n_) for f_, n_, sk, dk in sites if "FiberNode" in sk and "MetricsHeaderNode" in dk]
    feeds = [(f_, n_) for f_, n_, sk, dk in sites if "FiberNode" in sk and "LoopNode" in dk]
    if not feeds:
        raise AnalysisError("no FiberNode -> LoopNode edge found in FlowGraph (K14)")
    mlh = db.func("teaal.trans.collector.Collector.make_loop_header")
    traces_fibers = "trace_tree" in paths.called_names([mlh.node])
    rep.check("K14", bool(hdr_in) or not traces_fibers, db.loc(feeds[0][1]), "FlowGraph",
              "FiberNode->MetricsHeaderNode",
              "the fibers iterated at a rank precede that rank's metrics header",
              "FlowGraph gives MetricsHeaderNode(rank) an edge from the enclosing loop only, although the header "
              "statement traces the fibers iterated at that rank (Collector.make_loop_header -> trace_tree): "
              "when such a fiber is bound between the two loops (getPayload of a flattened rank, dynamic "
              "partitioning) the header is sorted before the statement that binds it")

    # ---- K13 every input tensor gets its root fiber -------------------------------------------
    # ---- K15: every pending flattening is considered once its source ranks exist -----------
    rep.rule("K15", "the search for a flattening that has become possible ranges over every pending entry", 1)
    cdp = fg.methods.get("__connect_dyn_part")
    n_k15 = 0
    if cdp is not None:
        for g_ in walk_no_nested(cdp.node):
            if not (isinstance(g_, ast.GeneratorExp) and isinstance(g_.elt, ast.Compare) and
                    isinstance(g_.elt.ops[0], ast.In) and "get_ranks" in norm(g_.elt.comparators[0])):
                continue
            it_ = paths.resolve_flow(g_.generators[0].iter, g_, cdp.node, depth=2)
            if not isinstance(it_, ast.Subscript):
                # for entry in pending: ... all(r in ranks for r in entry)
                src = g_.generators[0].iter
                whole = isinstance(src, ast.Name) and any(
                    isinstance(p_, (ast.For, ast.comprehension)) and
                    src.id in {x.id for x in ast.walk(p_.target) if isinstance(x, ast.Name)}
                    for p_ in list(paths.parents(g_, cdp.node)))
                n_k15 += 1
                rep.check("K15", whole, db.loc(g_), cdp.short, "pending-scan", "every pending entry is tested",
                          "the readiness test of a pending flattening is applied to %s" % norm(src)[:50],
                          decided=whole)
                continue
            n_k15 += 1
            ix = it_.slice
            moving = isinstance(ix, ast.Name) and any(
                isinstance(x, ast.AugAssign) and isinstance(x.target, ast.Name) and x.target.id == ix.id
                for x in walk_no_nested(cdp.node)) or (isinstance(ix, ast.Name) and any(
                    isinstance(p_, ast.For) and ix.id in {x.id for x in ast.walk(p_.target) if isinstance(x, ast.Name)}
                    for p_ in paths.parents(g_, cdp.node)))
            fixed = isinstance(ix, ast.Constant) or (isinstance(ix, ast.UnaryOp) and isinstance(ix.operand, ast.Constant))
            rep.check("K15", moving, db.loc(g_), cdp.short, "pending-scan",
                      "the readiness test moves through the pending flattenings (index %s)" % norm(ix),
                      "FlowGraph.__connect_dyn_part tests only entry %s of the pending flattenings: a flattening "
                      "whose source ranks exist already but that was recorded after one still waiting is never "
                      "applied here, so the fibers of the flattened rank are built from ranks that were never "
                      "flattened and the partitioning they depend on is no longer an ancestor of the loop" % norm(ix),
                      decided=moving or fixed)
    if n_k15 < 1:
        rep.undecided("K15", db.loc(fg.node) if hasattr(fg, "node") else "teaal/ir/flow_graph.py", "FlowGraph.__connect_dyn_part",
                      "the readiness test over the pending flattenings was not found")

    rep.rule("K13", "the per-tensor loop of FlowGraph.__build gives every input tensor a GetRootNode", 1)
    bld = fg.methods.get("__build")
    if bld is None:
        raise AnalysisError("FlowGraph.__build not found")

    def is_root_call(n):
        return isinstance(n, ast.Call) and isinstance(n.func, ast.Attribute) and \
            n.func.attr == "__build_swizzle_root_fiber"
    tloops = [n for n in walk_no_nested(bld.node) if isinstance(n, ast.For) and
              "get_tensors" in paths.called_names([paths.resolve_flow(n.iter, n, bld.node, depth=2)]) and
              any(is_root_call(x) for x in ast.walk(n))]
    if len(tloops) != 1:
        rep.undecided("K13", db.loc(bld.node), bld.short, "the per-tensor loop calling __build_swizzle_root_fiber "
                      "was not found")
    else:
        lp = tloops[0]
        tv = {x.id for x in ast.walk(lp.target) if isinstance(x, ast.Name)}
        outs = paths.path_counts(lp.body, paths.make_pred(is_root_call))
        falls = sorted((c, k) for c, k in outs if k == paths.FALL and c < 1)
        rep.check("K13", not falls, db.loc(lp), bld.short, "root-fiber:falls-through",
                  "every path through the loop body that is not skipped builds the root fiber",
                  "a path through the per-tensor loop of FlowGraph.__build completes without "
                  "__build_swizzle_root_fiber (%s)" % falls)
        for cn in [x for x in ast.walk(lp) if isinstance(x, ast.Continue) and
                   not [p_ for p_ in paths.parents(x, lp) if isinstance(p_, (ast.For, ast.While))]]:
            def top_index(node) -> int:
                for k_, s_ in enumerate(lp.body):
                    if any(y is node for y in ast.walk(s_)):
                        return k_
                return -1
            first_root = min(top_index(x) for x in ast.walk(lp) if is_root_call(x))
            if top_index(cn) > first_root:
                continue        # the root fiber was built before this continue
            atoms = [(norm(a), p_) for t, pol in paths.guards(cn, stop=lp) for a, p_ in paths.conjuncts(t, pol)]
            only_output = bool(atoms) and all(a.endswith(".get_is_output()") and p_ for a, p_ in atoms)
            rep.check("K13", only_output, db.loc(cn), bld.short, "root-fiber:skip:" + " and ".join(
                ("" if p_ else "not ") + a for a, p_ in atoms)[:60],
                      "the only tensors skipped are the output (handled by __build_output)",
                      "FlowGraph.__build skips a tensor under [%s] before building its root fiber: an input "
                      "tensor of that kind (e.g. a rank-0 intermediate of a cascade) gets no getRoot(), and "
                      "the update reads a name no statement binds" %
                      ", ".join(("" if p_ else "not ") + a for a, p_ in atoms))

    # ---- K12 memo tables are keyed by what the memoised answer depends on ----------------
    rep.rule("K12", "a memoised answer about a rank/level is keyed by that rank/level itself", 100)
    if not _fx_k12():
        raise AnalysisError("K12 matcher does not fire on its positive example")
    for f in db.all_functions(["teaal.ir."]):
        cm = paths.coarse_memos(f.node)
        rep.check("K12", not cm, db.loc(cm[0][0]) if cm else db.loc(f.node), f.short,
                  "memo:" + (cm[0][1] if cm else f.short),
                  "%s: no memo table keyed coarser than its argument" % f.short,
                  "%s caches its answer under the key '%s', which is derived from %s through a call, while "
                  "the answer is computed from %s itself: two ranks / levels that share the derived key "
                  "(e.g. the levels of one multi-level partitioning) get the answer of whichever was asked "
                  "first, and the dependence edge of the other goes to the wrong fiber" %
                  (f.short, cm[0][1] if cm else "", cm[0][2] if cm else "", cm[0][2] if cm else ""))

    # ---- K4 hoist guard --------------------------------------------------------
    rep.rule("K4", "hoisting is guarded by non-descendance of the processed loop and inserts at its index", 1)
    _check_hoist(db, rep, fg)

    # ---- K5 kind-level edges ---------------------------------------------------
    rep.rule("K5", "required kind-level dependences are present (after contracting pruned kinds)", 30)
    direct: Set[Tuple[str, str]] = set()
    per_builder: Set[Tuple[str, str, str]] = set()
    for f, n, sk, dk in sites:
        for a in sk:
            for b in dk:
                direct.add((a, b))
                per_builder.add((f.name, a, b))
    succ: Dict[str, Set[str]] = {}
    for a, b in direct:
        succ.setdefault(a, set()).add(b)

    def reach_emitting(a: str) -> Set[str]:
        out: Set[str] = set()
        seen: Set[str] = set()
        todo = list(succ.get(a, ()))
        while todo:
            x = todo.pop()
            if x in seen:
                continue
            seen.add(x)
            if is_pruned(x):
                todo.extend(succ.get(x, ()))
            else:
                out.add(x)
        return out
    contracted = {a: reach_emitting(a) for a in succ if not is_pruned(a)}
    for a, b, why in REQUIRED:
        ok = b in contracted.get(a, set())
        rep.check("K5", ok, db.loc(fg.node), "FlowGraph", "edge:%s->%s" % (a, b),
                  "%s -> %s (%s)" % (a, b, why),
                  "no add_edge site in FlowGraph can make %s precede %s (directly or through pruned "
                  "Fiber/Rank/Tensor nodes); required because: %s" % (a, b, why))
    for fn_, a, b in PER_BUILDER:
        ok = (fn_, a, b) in per_builder
        rep.check("K5", ok, db.loc(fg.methods[fn_].node) if fn_ in fg.methods else db.loc(fg.node),
                  "FlowGraph." + fn_, "edge@%s:%s->%s" % (fn_, a, b),
                  "%s adds %s -> %s" % (fn_, a, b),
                  "builder %s no longer adds the edge %s -> %s; the same kind pair added by another "
                  "builder cannot order this builder's nodes" % (fn_, a, b))
    rep.extra["add_edge_sites"] = len(sites)
    rep.extra["direct_kind_pairs"] = len(direct)
    if len(sites) < 45:
        raise AnalysisError("only %d add_edge sites found in FlowGraph (floor 45)" % len(sites))

    # ---- K6 dangling emitting nodes ---------------------------------------------
    rep.rule("K6", "every emitting node local of a builder has an in-edge and an out-edge there", 8)
    for f in builders:
        locs: Dict[str, Set[str]] = {}
        for n in walk_no_nested(f.node):
            if isinstance(n, ast.Assign) and len(n.targets) == 1 and isinstance(n.targets[0], ast.Name) \
                    and isinstance(n.value, ast.Call):
                k = kinds.ctor_kind(n.value)
                if k and not is_pruned(k):
                    locs.setdefault(n.targets[0].id, set()).add(k)
        # plain copies of a node local (y = x, also through an inlined helper's result) are the same node
        copies: Dict[str, Set[str]] = {}
        for n in walk_no_nested(f.node):
            if isinstance(n, ast.Assign) and len(n.targets) == 1 and isinstance(n.targets[0], ast.Name) and \
                    isinstance(n.value, ast.Name):
                copies.setdefault(n.value.id, set()).add(n.targets[0].id)
        for name, ks in sorted(locs.items()):
            has_in = has_out = escapes = False
            same = {name}
            todo = [name]
            while todo:
                for y in copies.get(todo.pop(), ()):
                    if y not in same:
                        same.add(y)
                        todo.append(y)
            for n in walk_no_nested(f.node):
                if isinstance(n, ast.Call) and isinstance(n.func, ast.Attribute) and \
                        n.func.attr == "add_edge" and len(n.args) >= 2:
                    if isinstance(n.args[0], ast.Name) and n.args[0].id in same:
                        has_out = True
                    if isinstance(n.args[1], ast.Name) and n.args[1].id in same:
                        has_in = True
                    # nodes are identified by value: an equal node constructed in place is the same vertex
                    if isinstance(n.args[0], ast.Call) and kinds.ctor_kind(n.args[0]) in ks:
                        has_out = True
                    if isinstance(n.args[1], ast.Call) and kinds.ctor_kind(n.args[1]) in ks:
                        has_in = True
                elif isinstance(n, ast.Return) and n.value is not None and (same & paths.load_names(n.value)):
                    escapes = True
                elif isinstance(n, ast.Call) and not (isinstance(n.func, ast.Attribute) and
                                                      n.func.attr == "add_edge"):
                    if any(isinstance(a, ast.Name) and a.id in same for a in n.args):
                        escapes = True
            exempt = K6_EXEMPT.get((f.name, "/".join(sorted(ks))))
            ok = (has_in and has_out) or escapes or exempt is not None
            what = "%s.%s (%s): in-edge %s, out-edge %s%s" % (
                f.name, name, "/".join(sorted(ks)), has_in, has_out,
                " [exempt: %s]" % exempt if exempt and not (has_in and has_out) else "")
            rep.check("K6", ok, db.loc(f.node), "FlowGraph." + f.name, "dangling:%s.%s" % (f.name, name), what,
                      "node '%s' (%s) built in FlowGraph.%s has %s there; its statement floats to the "
                      "%s of the topological order" %
                      (name, "/".join(sorted(ks)), f.name,
                       "no incoming edge" if not has_in else "no outgoing edge",
                       "top" if not has_in else "bottom"))


def _parents_of(n: ast.AST, stop: ast.AST):
    p = getattr(n, "parent", None)
    while p is not None and p is not stop:
        yield p
        p = getattr(p, "parent", None)


def _check_chain(db: DB, rep: Report, fg: ClassInfo, tn: FuncInfo) -> None:
    bl = fg.methods.get("__build_loop_nest")
    if bl is None:
        raise AnalysisError("FlowGraph.__build_loop_nest not found")
    fn = bl.node
    # the chain local: a list initialised with OtherNode("StartLoop") and appended to
    chains = [n for n in walk_no_nested(fn) if isinstance(n, (ast.Assign, ast.AnnAssign)) and
              isinstance(n.value, ast.List) and len(n.value.elts) == 1 and
              norm(n.value.elts[0]) == "OtherNode('StartLoop')"]
    if len(chains) != 1:
        raise AnalysisError("loop chain of __build_loop_nest not found")
    cname = (chains[0].targets[0] if isinstance(chains[0], ast.Assign) else chains[0].target).id
    order_names = {n.targets[0].id for n in walk_no_nested(fn) if isinstance(n, ast.Assign) and
                   isinstance(n.targets[0], ast.Name) and "get_loop_order" in paths.called_names([n.value])}
    def chain_seq(start: ast.stmt, cname: str) -> List[str]:
        seq: List[str] = []
        _, _, blk = paths.block_of(start)
        idx = blk.index(start)
        for s_ in blk[idx + 1:]:
            if isinstance(s_, ast.For) and len(s_.body) == 1:
                c = s_.body[0]
                call = c.value if isinstance(c, ast.Expr) else None
                if isinstance(call, ast.Call) and norm(call.func) == cname + ".append" and \
                        isinstance(call.args[0], ast.Call) and isinstance(s_.target, ast.Name) and \
                        norm(call.args[0].args[0]) == s_.target.id:
                    it = s_.iter
                    rev = isinstance(it, ast.Call) and norm(it.func) == "reversed"
                    base = it.args[0] if rev else it
                    if isinstance(base, ast.Name) and base.id in order_names:
                        seq.append(("rev:" if rev else "fwd:") + norm(call.args[0].func))
                        continue
                if cname in paths.load_names(s_) and "append" in paths.called_names([s_]):
                    raise AnalysisError("the chain %s is extended at %s in a form this checker does not "
                                        "recognise; it cannot decide rule K3" % (cname, db.loc(s_)))
                break
            elif isinstance(s_, ast.Expr) and isinstance(s_.value, ast.Call) and \
                    norm(s_.value.func) == cname + ".append":
                seq.append(norm(s_.value.args[0]))
            else:
                if cname in paths.load_names(s_) and any(
                        isinstance(x, (ast.Assign, ast.AugAssign)) and cname in
                        {getattr(t, "id", None) for t in (x.targets if isinstance(x, ast.Assign) else [x.target])}
                        for x in ast.walk(s_)):
                    raise AnalysisError("the chain %s is rebuilt at %s in a form this checker does not "
                                        "recognise; it cannot decide rule K3" % (cname, db.loc(s_)))
                break
        return seq
    seq = chain_seq(chains[0], cname)
    # every other chain of per-rank bracket nodes that is spliced into the loop chain
    # (the metrics headers / footers) opens in loop order and closes in reverse order
    for n in walk_no_nested(fn):
        if n is chains[0] or not isinstance(n, (ast.Assign, ast.AnnAssign)) or \
                not isinstance(getattr(n, "value", None), ast.List):
            continue
        tgt = n.targets[0] if isinstance(n, ast.Assign) else n.target
        if not isinstance(tgt, ast.Name):
            continue
        sq = chain_seq(n, tgt.id)
        per_rank = [x for x in sq if x.startswith(("fwd:", "rev:"))]
        if len(per_rank) < 2:
            continue
        shape = [x[:4] for x in sq if x.startswith(("fwd:", "rev:"))]
        rep.check("K3", shape == ["fwd:", "rev:"] and len(sq) == 3 and not sq[1].startswith(("fwd:", "rev:")),
                  db.loc(n), bl.short, "chain-order:" + tgt.id,
                  "chain %s = per-rank nodes in loop order, a body node, per-rank nodes in reverse order (%s)"
                  % (tgt.id, sq),
                  "the chain %s that is spliced into the loop nest element by element is built as %s: its "
                  "per-rank nodes do not open in loop order and close in reverse order, so the node of one "
                  "loop is ordered at the position of another loop (its statement is emitted outside the "
                  "loops that bind what it reads)" % (tgt.id, sq))
    want = ["fwd:LoopNode", "OtherNode('Body')", "rev:EndLoopNode", "OtherNode('Footer')"]
    rep.check("K3", seq == want, db.loc(chains[0]), bl.short, "chain-order",
              "chain = StartLoop, loops in loop order, Body, ends in reverse order, Footer (%s)" % seq,
              "the loop chain is built as %s instead of %s: loops would not be properly nested with the "
              "update innermost" % (seq, want))
    # consecutive elements are linked
    link = [n for n in walk_no_nested(fn) if isinstance(n, ast.For) and isinstance(n.target, ast.Name) and
            norm(n.iter) == "range(len(%s) - 1)" % cname]
    ok = False
    if len(link) == 1:
        i = link[0].target.id
        ok = any(isinstance(x, ast.Call) and norm(x.func) == "self.graph.add_edge" and
                 norm(x.args[0]) == "%s[%s]" % (cname, i) and norm(x.args[1]) == "%s[%s + 1]" % (cname, i)
                 for x in ast.walk(link[0]))
    rep.check("K3", ok, db.loc(link[0]) if link else db.loc(fn), bl.short, "chain-links",
              "every chain element is linked to its successor",
              "the loop chain elements are not linked pairwise (chain[i] -> chain[i + 1] for all i)")
    # translator: the loop arm recurses on the rest and skips what the recursion consumed
    arm = None
    for n in walk_no_nested(tn.node):
        if isinstance(n, ast.If) and isinstance(n.test, ast.Call) and norm(n.test.func) == "isinstance" and \
                norm(n.test.args[1]) == "LoopNode":
            arm = n
    if arm is None:
        raise AnalysisError("LoopNode arm of __trans_nodes not found")
    rec = [x for s_ in arm.body for x in ast.walk(s_) if isinstance(x, ast.Call) and
           isinstance(x.func, ast.Attribute) and x.func.attr == "__trans_nodes"]
    ok = False
    if len(rec) == 1 and isinstance(rec[0].parent, ast.Assign) and isinstance(rec[0].parent.targets[0], ast.Tuple):
        jname = rec[0].parent.targets[0].elts[0].id
        arg = paths.resolve_flow(rec[0].args[0], rec[0], tn.node, depth=3)
        sl_ok = isinstance(arg, ast.Subscript) and isinstance(arg.slice, ast.Slice) and arg.slice.upper is None \
            and isinstance(arg.slice.lower, ast.BinOp) and isinstance(arg.slice.lower.op, ast.Add) and \
            _const(arg.slice.lower.right) == 1
        idx_name = norm(arg.slice.lower.left) if sl_ok else None
        def is_j(e: ast.AST, depth: int = 0) -> bool:
            """e is the consumed count (possibly through plain copies / a returned tuple's first item)"""
            if norm(e) == jname:
                return True
            if depth < 4 and isinstance(e, ast.Name):
                for st_, v_ in paths.defs_of(tn.node, e.id):
                    if v_ is not None and is_j(v_, depth + 1):
                        return True
                    tv_ = st_.value if isinstance(st_, ast.Assign) else None
                    if isinstance(tv_, ast.Name):
                        cands = [v2 for _, v2 in paths.defs_of(tn.node, tv_.id) if isinstance(v2, ast.Tuple)]
                        tv_ = cands[0] if len(cands) == 1 else None
                    if isinstance(st_, ast.Assign) and isinstance(st_.targets[0], ast.Tuple) and \
                            isinstance(tv_, ast.Tuple) and len(tv_.elts) == len(st_.targets[0].elts):
                        for tg_, vv_ in zip(st_.targets[0].elts, tv_.elts):
                            if isinstance(tg_, ast.Name) and tg_.id == e.id and is_j(vv_, depth + 1):
                                return True
            return False
        adv = any(isinstance(s_, ast.AugAssign) and isinstance(s_.op, ast.Add) and norm(s_.target) == idx_name
                  and is_j(s_.value) for s_ in arm.body)
        ok = sl_ok and adv
    rep.check("K3", ok, db.loc(arm), tn.short, "loop-recursion",
              "the loop arm translates nodes[i + 1:] recursively and advances by what was consumed",
              "the loop arm of __trans_nodes does not recurse on the remaining nodes and skip the consumed "
              "ones; loop bodies and their EndLoop brackets would no longer match", decided=len(rec) == 1)
    # EndLoop returns the number of nodes consumed including itself
    earm = None
    for n in walk_no_nested(tn.node):
        if isinstance(n, ast.If) and isinstance(n.test, ast.Call) and norm(n.test.func) == "isinstance" and \
                norm(n.test.args[1]) == "EndLoopNode":
            earm = n
    ok = earm is not None and len(earm.body) == 1 and isinstance(earm.body[0], ast.Return) and \
        isinstance(earm.body[0].value, ast.Tuple) and isinstance(earm.body[0].value.elts[0], ast.BinOp) and \
        _const(earm.body[0].value.elts[0].right) == 1
    rep.check("K3", ok, db.loc(earm) if earm else db.loc(tn.node), tn.short, "endloop-count",
              "EndLoop returns (consumed + 1, code)",
              "the EndLoop arm does not return the number of nodes consumed including the bracket itself")


def _const(e: ast.AST):
    return e.value if isinstance(e, ast.Constant) else None


def _check_hoist(db: DB, rep: Report, fg: ClassInfo) -> None:
    h = fg.methods.get("__hoist")
    if h is None:
        raise AnalysisError("FlowGraph.__hoist not found")
    fn = h.node
    # the relocation statements: del self.sorted[i] / self.sorted.insert(x, node)
    dels = [n for n in walk_no_nested(fn) if isinstance(n, ast.Delete) and
            any(isinstance(t, ast.Subscript) and norm(t.value) == "self.sorted" for t in n.targets)]
    inss = [n for n in walk_no_nested(fn) if isinstance(n, ast.Call) and isinstance(n.func, ast.Attribute)
            and n.func.attr == "insert" and norm(n.func.value) == "self.sorted"]
    pops = [n for n in walk_no_nested(fn) if isinstance(n, ast.Call) and isinstance(n.func, ast.Attribute)
            and n.func.attr in ("pop", "remove") and norm(n.func.value) == "self.sorted"]
    slice_ins = [n for n in walk_no_nested(fn) if isinstance(n, ast.Assign) and
                 isinstance(n.targets[0], ast.Subscript) and norm(n.targets[0].value) == "self.sorted" and
                 isinstance(n.targets[0].slice, ast.Slice)]
    if slice_ins and not inss:
        _check_hoist_runs(db, rep, h, slice_ins, dels)
        return
    if not inss or not (dels or pops):
        raise AnalysisError("relocation statements of __hoist not found")
    # the loop over ranks
    rank_loops = [n for n in walk_no_nested(fn) if isinstance(n, ast.For) and
                  "get_ranks" in paths.called_names([n.iter])]
    if len(rank_loops) != 1 or not isinstance(rank_loops[0].target, ast.Name):
        raise AnalysisError("rank loop of __hoist not found")
    rl = rank_loops[0]
    rank_var = rl.target.id
    ok_order = "reversed" in paths.called_names([rl.iter])
    rep.check("K4", ok_order, db.loc(rl), h.short, "hoist:innermost-first",
              "loops are processed innermost first (reversed loop order)",
              "__hoist no longer processes the innermost loop first")
    # descendants set: name bound to nx.descendants(self.graph, LoopNode(rank))
    desc_names: Set[str] = set()
    for n in walk_no_nested(rl):
        if isinstance(n, ast.Assign) and len(n.targets) == 1 and isinstance(n.targets[0], ast.Name):
            v = n.value
            if isinstance(v, ast.Call) and norm(v.func).endswith("descendants") and len(v.args) == 2 and \
                    norm(v.args[0]) == "self.graph" and \
                    paths.inlined_text(v.args[1], fn) == "LoopNode(%s)" % rank_var:
                desc_names.add(n.targets[0].id)
    # loop index: name bound to self.sorted.index(LoopNode(rank))
    idx_names: Set[str] = set()
    for n in walk_no_nested(rl):
        if isinstance(n, ast.Assign) and len(n.targets) == 1 and isinstance(n.targets[0], ast.Name):
            v = n.value
            if isinstance(v, ast.Call) and norm(v.func) == "self.sorted.index" and \
                    paths.inlined_text(v.args[0], fn) == "LoopNode(%s)" % rank_var:
                idx_names.add(n.targets[0].id)
    defs = paths.single_assignments(fn)
    for site in dels + pops + inss:
        gs = paths.guards(site, stop=fn)
        ok = False
        for t, pol in gs:
            for atom, p in paths.conjuncts(t, pol):
                if isinstance(atom, ast.Compare) and len(atom.ops) == 1 and \
                        isinstance(atom.ops[0], (ast.In, ast.NotIn)):
                    neg = isinstance(atom.ops[0], ast.NotIn) == p   # effectively "not in"
                    coll = atom.comparators[0]
                    elem = atom.left
                    is_desc = isinstance(coll, ast.Name) and coll.id in desc_names
                    is_elem = norm(elem).startswith("self.sorted[") or (
                        isinstance(elem, ast.Name) and elem.id in defs and
                        norm(defs[elem.id]).startswith("self.sorted["))
                    if neg and is_desc and is_elem:
                        ok = True
        rep.check("K4", ok, db.loc(site), h.short, "hoist-guard:" + norm(site),
                  "relocation '%s' guarded by 'not in descendants(LoopNode(%s))'" % (norm(site), rank_var),
                  "the hoisting statement '%s' is not control-dependent on a test that the moved node "
                  "is not a descendant of the loop being processed; a statement can be hoisted above "
                  "a loop it depends on" % norm(site))
    for ins in inss:
        a0 = ins.args[0] if ins.args else None
        ok = isinstance(a0, ast.Name) and a0.id in idx_names
        # the index advances after each insert so hoisted nodes keep their relative order
        adv = False
        _, _, blk = paths.block_of(paths_enclosing(ins))
        seen = False
        for s in blk:
            if s is paths_enclosing(ins):
                seen = True
                continue
            if seen and isinstance(s, ast.AugAssign) and isinstance(s.target, ast.Name) and \
                    isinstance(a0, ast.Name) and s.target.id == a0.id and isinstance(s.op, ast.Add) and \
                    isinstance(s.value, ast.Constant) and s.value.value == 1:
                adv = True
        rep.check("K4", ok and adv, db.loc(ins), h.short, "hoist-insert:" + norm(ins),
                  "hoisted node is inserted at the loop's own index, index advanced afterwards",
                  "the hoisted node is not inserted immediately before its loop (index %s) or the "
                  "index is not advanced after the insertion: hoisted statements can be reordered "
                  "across each other" % (norm(a0) if a0 is not None else "?"))
    if not desc_names:
        rep.check("K4", False, db.loc(rl), h.short, "hoist:descendants",
                  "descendants of the processed loop", "__hoist does not compute nx.descendants(self.graph, "
                  "LoopNode(%s)) for the loop being processed" % rank_var)


def _check_hoist_runs(db: DB, rep: Report, h: FuncInfo, slice_ins, dels) -> None:
    """__hoist written to move runs of consecutive nodes: self.sorted[L:L] = run."""
    fn = h.node
    rank_loops = [n for n in walk_no_nested(fn) if isinstance(n, ast.For) and
                  "get_ranks" in paths.called_names([n.iter])]
    if len(rank_loops) != 1 or not isinstance(rank_loops[0].target, ast.Name):
        raise AnalysisError("rank loop of __hoist not found")
    rl = rank_loops[0]
    rank_var = rl.target.id
    rep.check("K4", "reversed" in paths.called_names([rl.iter]), db.loc(rl), h.short, "hoist:innermost-first",
              "loops are processed innermost first (reversed loop order)",
              "__hoist no longer processes the innermost loop first")
    def _tgt_name(n):
        t = n.targets[0] if isinstance(n, ast.Assign) else n.target
        return t.id if isinstance(t, ast.Name) else None
    desc = {_tgt_name(n) for n in walk_no_nested(rl) if isinstance(n, (ast.Assign, ast.AnnAssign)) and
            _tgt_name(n) and isinstance(n.value, ast.Call) and
            norm(n.value.func).endswith("descendants") and len(n.value.args) == 2 and
            paths.inlined_text(n.value.args[1], fn) == "LoopNode(%s)" % rank_var}
    idx = {_tgt_name(n) for n in walk_no_nested(rl) if isinstance(n, (ast.Assign, ast.AnnAssign)) and
           _tgt_name(n) and isinstance(n.value, ast.Call) and
           norm(n.value.func) == "self.sorted.index" and
           paths.inlined_text(n.value.args[0], fn) == "LoopNode(%s)" % rank_var}
    for ins in slice_ins:
        sl = ins.targets[0].slice
        # stable partition: sorted[L : L + 1 + len(body)] = [not in desc] + [sorted[L]] + [in desc]
        parts = []
        v_ = ins.value
        while isinstance(v_, ast.BinOp) and isinstance(v_.op, ast.Add):
            parts.insert(0, v_.right)
            v_ = v_.left
        parts.insert(0, v_)
        if len(parts) == 3 and isinstance(sl.lower, ast.Name) and sl.lower.id in idx:
            def comp_of(e):
                r_ = paths.resolve_flow(e, ins, fn, depth=1)
                return r_ if isinstance(r_, ast.ListComp) and len(r_.generators) == 1 else None
            a_, b_ = comp_of(parts[0]), comp_of(parts[2])
            mid_ok = norm(parts[1]) == "[self.sorted[%s]]" % sl.lower.id

            def filt(c):
                """+1: 'x not in desc', -1: 'x in desc', 0: anything else"""
                if c is None or len(c.generators[0].ifs) != 1:
                    return 0
                t = c.generators[0].ifs[0]
                if isinstance(t, ast.Compare) and len(t.ops) == 1 and isinstance(t.comparators[0], ast.Name) \
                        and t.comparators[0].id in desc and norm(t.left) == norm(c.elt) == norm(c.generators[0].target):
                    return 1 if isinstance(t.ops[0], ast.NotIn) else -1 if isinstance(t.ops[0], ast.In) else 0
                return 0
            same_src = a_ is not None and b_ is not None and norm(a_.generators[0].iter) == norm(b_.generators[0].iter)
            src = paths.resolve_flow(a_.generators[0].iter, ins, fn, depth=1) if a_ is not None else None
            src_ok = isinstance(src, ast.Subscript) and norm(src.value) == "self.sorted" and \
                isinstance(src.slice, ast.Slice) and norm(src.slice.lower) == "%s + 1" % sl.lower.id
            recognised = a_ is not None and b_ is not None and filt(a_) != 0 and filt(b_) != 0
            rep.check("K4", filt(a_) == 1 and filt(b_) == -1 and mid_ok and same_src and src_ok and bool(desc),
                      db.loc(ins), h.short, "hoist-guard:partition",
                      "nodes that are not descendants of LoopNode(%s) are moved in front of it, in order" % rank_var,
                      "the partition of the loop body in __hoist does not put exactly the nodes that are 'not in "
                      "descendants(LoopNode(%s))' in front of the loop node (filters: %s / %s): a statement can "
                      "be hoisted above a loop it depends on" %
                      (rank_var, norm(a_.generators[0].ifs[0]) if a_ is not None and a_.generators[0].ifs else "?",
                       norm(b_.generators[0].ifs[0]) if b_ is not None and b_.generators[0].ifs else "?"),
                      decided=recognised)
            continue
        at_loop = isinstance(sl.lower, ast.Name) and isinstance(sl.upper, ast.Name) and \
            sl.lower.id == sl.upper.id and sl.lower.id in idx
        run = ins.value
        run_def = paths.reaching_def(run.id, ins, fn) if isinstance(run, ast.Name) else None
        bounds_ok = False
        upper = None
        if isinstance(run_def, ast.Subscript) and norm(run_def.value) == "self.sorted" and \
                isinstance(run_def.slice, ast.Slice) and isinstance(run_def.slice.upper, ast.Name):
            upper = run_def.slice.upper.id
            # the run's end is found by a loop that stops at the first descendant
            for w in [n for n in walk_no_nested(rl) if isinstance(n, ast.While)]:
                tests = [norm(a) for a, p in paths.conjuncts(w.test, True) if p]
                if any(("self.sorted[%s] not in" % upper) in t and any(d in t for d in desc) for t in tests) and \
                        any(isinstance(x, ast.AugAssign) and norm(x.target) == upper for x in w.body):
                    bounds_ok = True
        rep.check("K4", bounds_ok and bool(desc), db.loc(ins), h.short, "hoist-guard:run",
                  "the hoisted run ends at the first node that is a descendant of LoopNode(%s)" % rank_var,
                  "the run of nodes hoisted above the loop is not delimited by a 'not in descendants("
                  "LoopNode(%s))' scan: a statement can be hoisted above a loop it depends on" % rank_var)
        # the insertion point advances by the length of the run
        _, _, blk = paths.block_of(ins)
        adv = None
        seen = False
        for s_ in blk:
            if s_ is ins:
                seen = True
                continue
            if seen and isinstance(s_, ast.AugAssign) and isinstance(s_.op, ast.Add) and \
                    isinstance(sl.lower, ast.Name) and norm(s_.target) == sl.lower.id:
                adv = norm(s_.value)
        lower = norm(run_def.slice.lower) if isinstance(run_def, ast.Subscript) and run_def.slice.lower else "?"
        good = adv in ("len(%s)" % norm(run), "%s - %s" % (upper, lower))
        rep.check("K4", at_loop and good, db.loc(ins), h.short, "hoist-insert:run",
                  "the run is inserted at the loop's own index, which advances by the run's length (%s)" % adv,
                  "the hoisted run is inserted at %s and the insertion point then advances by %s instead of "
                  "the length of the run: a later hoisted run is spliced into the middle of an earlier one, "
                  "so hoisted statements are reordered across their own dependences" %
                  (norm(ins.targets[0]), adv))


def paths_enclosing(n: ast.AST) -> ast.stmt:
    while not isinstance(n, ast.stmt):
        n = n.parent
    return n


def mutants(db: DB):
    from sa.selftest import M
    fg = "teaal/ir/flow_graph.py"
    fnodes = "teaal/ir/flow_nodes.py"
    hf = "teaal/trans/hifiber.py"
    return [
        M("only the head of the pending flattenings is tested (C10-u2)", fg,
          "        i = 0\n        while i < len(flatten_info[root]):\n            if not all(flat_rank in tensor.get_ranks()\n                       for flat_rank in flatten_info[root][i]):\n                i += 1\n                continue\n\n            flatten = flatten_info[root].pop(i)",
          "        i = 0\n        while flatten_info[root]:\n            if not all(flat_rank in tensor.get_ranks()\n                       for flat_rank in flatten_info[root][0]):\n                break\n\n            flatten = flatten_info[root].pop(0)",
          "K15"),
        M("metrics swizzle waits for the tensor, not for its ranks (C10-u1)", fg,
          "                    for rank in init_ranks:\n                        self.graph.add_edge(\n                            RankNode(root, rank), metrics_swizzle_node)",
          "                    self.graph.add_edge(\n                        TensorNode(root), metrics_swizzle_node)",
          ("K16", "K5", "K8")),
        M("eager input: fast path for directly iterated tensors adds no edge", fg,
          "            tranks = [Symbol(trank.lower())\n                      for trank in tensor.get_init_ranks()]\n            trans = self.program",
          "            if part.get_root_name(rank) in tensor.get_init_ranks():\n                continue\n            tranks = [Symbol(trank.lower())\n                      for trank in tensor.get_init_ranks()]\n            trans = self.program",
          "K11"),
        M("tensors without ranks skipped by the per-tensor loop", fg,
          "            init_ranks = tensor.get_ranks()\n            for rank in init_ranks:",
          "            init_ranks = tensor.get_ranks()\n            if not init_ranks:\n                continue\n            for rank in init_ranks:",
          "K13"),
        M("leader memoised per root rank", fg,
          "                leader = part.get_leader(src, dsts[-1])\n",
          "                part_root = part.get_root_name(src)\n                if part_root not in self.iter_map:\n                    self.iter_map[part_root] = part.get_leader(src, dsts[-1])\n                leader = self.iter_map[part_root]\n",
          "K7"),
        M("metrics headers chained in reverse", fg,
          "            for rank in loop_order:\n                metrics_chain.append(MetricsHeaderNode(rank))",
          "            for rank in reversed(loop_order):\n                metrics_chain.append(MetricsHeaderNode(rank))",
          "K3"),
        M("fiber-node scan stops at the first exhausted tensor", fg,
          "            rank = tensor.peek()\n            if rank is None:\n                continue",
          "            rank = tensor.peek()\n            if rank is None:\n                break", "K9"),
        M("eager-input fiber edge after the per-tensor loop", fg,
          "            # Add that fiber to the eager input\n            fiber_name = tname.lower() + \"_\" + trank_root + \"1\"\n            self.graph.add_edge(FiberNode(fiber_name), eager_input_node)",
          "        # Add that fiber to the eager input\n        fiber_name = tname.lower() + \"_\" + trank_root + \"1\"\n        self.graph.add_edge(FiberNode(fiber_name), eager_input_node)",
          "K10"),
        M("SwizzleNode key drops type", fnodes, "return self.tensor, self.ranks, self.type",
          "return self.tensor, self.ranks", "K1"),
        M("PartNode key drops ranks", fnodes,
          "        Iterable of fields of a PartNode\n        \"\"\"\n        return self.tensor, self.ranks",
          "        Iterable of fields of a PartNode\n        \"\"\"\n        return self.tensor,", "K1"),
        M("FromFiberNode accessor swapped", fnodes,
          "        Accessor for the tensor\n        \"\"\"\n        return self.tensor\n\n    def _Node__key(self) -> Iterable[Any]:\n        \"\"\"\n        Iterable of fields of a FromFiberNode\n        \"\"\"\n        return self.tensor, self.rank",
          "        Accessor for the tensor\n        \"\"\"\n        return self.rank\n\n    def _Node__key(self) -> Iterable[Any]:\n        \"\"\"\n        Iterable of fields of a FromFiberNode\n        \"\"\"\n        return self.tensor, self.rank",
          "K1"),
        M("delete IntervalNode arm", hf,
          "            elif isinstance(node, IntervalNode):\n                code.add(self.eqn.make_interval(node.get_rank()))\n\n",
          "", "K2"),
        M("MetricsNode(Body) arm stops emitting", hf,
          "                if node.get_type() == \"Body\":\n                    code.add(self.collector.make_body())",
          "                if node.get_type() == \"Body\":\n                    self.collector.make_body()", "K2"),
        M("MetricsHeaderNode arm stops emitting", hf,
          "                code.add(self.collector.make_loop_header(node.get_rank()))",
          "                self.collector.make_loop_header(node.get_rank())", "K2"),
        M("EagerInputNode arm conditional", hf,
          "            if isinstance(node, EagerInputNode):\n                code.add(",
          "            if isinstance(node, EagerInputNode):\n              if node.get_tensors():\n                code.add(",
          "K2"),
        M("new OtherNode literal in builder only", fg,
          "        self.graph.add_edge(OtherNode(\"Output\"), OtherNode(\"Graphics\"))",
          "        self.graph.add_edge(OtherNode(\"Output\"), OtherNode(\"Graphics\"))\n"
          "        self.graph.add_edge(OtherNode(\"Prologue\"), OtherNode(\"Output\"))", "K2"),
        M("EndLoopNode arm does not return", hf,
          "            elif isinstance(node, EndLoopNode):\n                return i + 1, code",
          "            elif isinstance(node, EndLoopNode):\n                pass", "K2"),
        M("end-loops not reversed", fg, "        for rank in reversed(loop_order):\n            chain.append(EndLoopNode(rank))",
          "        for rank in loop_order:\n            chain.append(EndLoopNode(rank))", "K3"),
        M("update before the loops", fg, "        for rank in loop_order:\n            chain.append(LoopNode(rank))\n        chain.append(OtherNode(\"Body\"))",
          "        chain.append(OtherNode(\"Body\"))\n        for rank in loop_order:\n            chain.append(LoopNode(rank))", "K3"),
        M("recursion does not skip consumed nodes", hf, "                code.add(SFor(payload, expr, body))\n                i += j",
          "                code.add(SFor(payload, expr, body))", "K3"),
        M("merger swizzle waits for the declared ranks", fg,
          "                for rank in init_ranks:\n                    self.graph.add_edge(\n                        RankNode(\n                            root,\n                            rank),\n                        metrics_swizzle_node)",
          "                for rank in tensor.get_init_ranks():\n                    self.graph.add_edge(\n                        RankNode(\n                            root,\n                            rank),\n                        metrics_swizzle_node)",
          "K8"),
        M("leader looked up once per rank", fg,
          "                leader = part.get_leader(src, dsts[-1])\n",
          "                leader = part.get_leader(partitioning[0], part.partition_names((partitioning[0],), False)[-1])\n",
          "K7"),
        M("leader set accumulated over all levels", fg,
          "        # Connect them to the relevant destination ranks\n        for srcs in src_ranks:",
          "        leaders = set()\n        for srcs0 in src_ranks:\n            if len(srcs0) == 1:\n                leaders.add(part.get_leader(srcs0[0], part.partition_names(srcs0, False)[-1]))\n\n        # Connect them to the relevant destination ranks\n        for srcs in src_ranks:",
          (), benign=True, note="unused aggregate: silent"),
        M("descendants -> ancestors", fg, "nx.descendants(self.graph, LoopNode(rank))",
          "nx.ancestors(self.graph, LoopNode(rank))", "K4"),
        M("remove not-in-descendants test", fg, "                if self.sorted[i] not in descendants:",
          "                if True:", "K4"),
        M("descendants of the wrong loop", fg, "            descendants = nx.descendants(self.graph, LoopNode(rank))",
          "            descendants = nx.descendants(self.graph, self.sorted[0])", "K4"),
        M("hoist inserts at list head", fg, "self.sorted.insert(loop, node)", "self.sorted.insert(0, node)", "K4"),
        M("hoist index not advanced", fg, "                    self.sorted.insert(loop, node)\n                    loop += 1",
          "                    self.sorted.insert(loop, node)", "K4"),
        M("metrics swizzle loses ordering edge (static part)", fg,
          "                    self.graph.add_edge(metrics_swizzle_node, swizzle_node)\n\n        # Otherwise",
          "\n        # Otherwise", ("K5", "K6")),
        M("metrics swizzle loses ordering edge (root fiber)", fg,
          "                        metrics_swizzle_node)\n\n                self.graph.add_edge(metrics_swizzle_node, swizzle_node)\n",
          "                        metrics_swizzle_node)\n", ("K5", "K6")),
        M("metrics swizzle loses rank edges (static part)", fg,
          "                    for rank in init_ranks:\n                        self.graph.add_edge(\n                            RankNode(root, rank), metrics_swizzle_node)\n",
          "", ("K5", "K6")),
        M("Output no longer precedes Graphics", fg,
          "        self.graph.add_edge(OtherNode(\"Output\"), OtherNode(\"Graphics\"))\n", "", "K5"),
        M("End no longer precedes Footer", fg,
          "            self.graph.add_edge(MetricsNode(\"End\"), OtherNode(\"Footer\"))\n", "", "K5"),
        M("Footer no longer precedes Dump", fg,
          "            self.graph.add_edge(OtherNode(\"Footer\"), MetricsNode(\"Dump\"))\n", "", "K5"),
        M("eager input no longer precedes interval", fg,
          "        self.graph.add_edge(eager_input_node, IntervalNode(rank0))\n", "", ("K5", "K6")),
        M("interval no longer precedes its loop", fg,
          "        self.graph.add_edge(IntervalNode(rank0), LoopNode(rank0))\n", "", "K5"),
        M("from-fiber no longer precedes partition", fg,
          "        self.graph.add_edge(ff_node, part_node)\n", "", ("K5", "K6")),
        M("static part no longer precedes graphics", fg,
          "        self.graph.add_edge(part_node, OtherNode(\"Graphics\"))\n", "", "K5"),
        M("get_payload has no successor", fg,
          "            self.graph.add_edge(\n                get_payload_node, FiberNode(\n                    tensor.fiber_name()))\n",
          "            pass\n", ("K5", "K6")),
        M("benign: hoist moves whole runs, index advanced by the run length", fg,
          "                if self.sorted[i] not in descendants:\n                    node = self.sorted[i]\n                    del self.sorted[i]\n                    self.sorted.insert(loop, node)\n                    loop += 1\n\n                i += 1",
          "                j = i\n                while j < end and self.sorted[j] not in descendants:\n                    j += 1\n                if j > i:\n                    run = self.sorted[i:j]\n                    del self.sorted[i:j]\n                    self.sorted[loop:loop] = run\n                    loop += len(run)\n                i = j + 1",
          (), benign=True),
        M("hoist moves whole runs, index advanced by one", fg,
          "                if self.sorted[i] not in descendants:\n                    node = self.sorted[i]\n                    del self.sorted[i]\n                    self.sorted.insert(loop, node)\n                    loop += 1\n\n                i += 1",
          "                j = i\n                while j < end and self.sorted[j] not in descendants:\n                    j += 1\n                if j > i:\n                    run = self.sorted[i:j]\n                    del self.sorted[i:j]\n                    self.sorted[loop:loop] = run\n                    loop += 1\n                i = j + 1",
          "K4"),
        M("benign: hoist rewritten with pop", fg,
          "                    node = self.sorted[i]\n                    del self.sorted[i]\n",
          "                    node = self.sorted.pop(i)\n", (), benign=True),
    ]
