"""
C05 - cascaded Einsums are compiled independently of their predecessors.

Decided (DESIGN.md section 3, C05): no per-Einsum state of the objects that
live across Einsums survives into the next Einsum
  R5a  Tensor.reset restores every field any other Tensor method writes, from a
       fresh copy of a field no method writes
  R5b  every attribute Program.add_einsum configures is either cleared by
       Program.reset or assigned unconditionally by add_einsum
  R5c  HiFiber.__translate: every path from program.add_einsum(i) to a normal
       return passes through program.reset()
  R5d  analysis passes that mutate shared tensors end with the reset loop
  R5e  objects shared by all Einsums carry no other per-Einsum state; classes
       with per-Einsum state are instantiated per Einsum
Not decided: that the composed program computes the composition.
"""

from __future__ import annotations

import ast
from typing import Dict, List, Optional, Set, Tuple

from sa import paths
from sa.db import DB, AnalysisError, ClassInfo, FuncInfo, norm, walk_no_nested
from sa.report import Report

TENSOR = "teaal.ir.tensor.Tensor"
PROGRAM = "teaal.ir.program.Program"
HIFIBER = "teaal.trans.hifiber.HiFiber"

# classes whose instances may be shared by all Einsums, with the reason their
# post-construction writes are acceptable
SHARED_OK = {
    "teaal.ir.program.Program": "per-Einsum fields are governed by R5b",
    "teaal.ir.hardware.Hardware": "built once from the architecture; no post-construction writes",
    "teaal.ir.fusion.Fusion": "the history of Einsums is the specified behaviour (C13)",
    "teaal.trans.utils.TransUtils": "monotone temporary counter (renumbering is allowed)",
    "teaal.hifiber.stmt.SBlock": "the program text being accumulated",
}


def self_writes(db: DB, f: FuncInfo) -> List[Tuple[str, ast.AST, str]]:
    """(attribute, node, kind) for every write/mutation of self.<attr> in f.
    kind: assign | augassign | subscript | mutator:<name> | delete"""
    out = []
    for n in walk_no_nested(f.node):
        if isinstance(n, (ast.Assign, ast.AnnAssign, ast.AugAssign, ast.Delete)):
            if isinstance(n, ast.AnnAssign) and n.value is None:
                continue
            ts = n.targets if isinstance(n, (ast.Assign, ast.Delete)) else [n.target]
            flat = []
            for t in ts:
                flat.extend(t.elts if isinstance(t, (ast.Tuple, ast.List)) else [t])
            for t in flat:
                sub = False
                b = t
                while isinstance(b, ast.Subscript):
                    b = b.value
                    sub = True
                if isinstance(b, ast.Attribute) and isinstance(b.value, ast.Name) and b.value.id == "self":
                    kind = "subscript" if sub else (
                        "augassign" if isinstance(n, ast.AugAssign) else
                        "delete" if isinstance(n, ast.Delete) else "assign")
                    out.append((b.attr, n, kind))
        elif isinstance(n, ast.Call) and isinstance(n.func, ast.Attribute) and \
                n.func.attr in paths.MUTATORS:
            b = n.func.value
            while isinstance(b, ast.Subscript):
                b = b.value
            if isinstance(b, ast.Attribute) and isinstance(b.value, ast.Name) and b.value.id == "self":
                # a builtin container mutator, not a method of a repo class
                t = db.type_of(n.func.value, f)
                if t and t[0] == "cls":
                    continue
                out.append((b.attr, n, "mutator:" + n.func.attr))
    return out


def construction_helpers(db: DB, c: ClassInfo) -> Set[str]:
    """Methods of c that can only run during construction: __init__ and the
    private methods all of whose callers are such methods."""
    helpers = {"__init__"}
    callers = db.callers()
    changed = True
    while changed:
        changed = False
        for nm, f in c.methods.items():
            if nm in helpers or not (nm.startswith("__") and not nm.endswith("__")):
                continue
            cs = callers.get(f.qualname, [])
            if cs and all(g.cls is c and (g.name in helpers or g is f) for g, _ in cs):
                helpers.add(nm)
                changed = True
    return helpers


def post_construction_writes(db: DB, c: ClassInfo) -> Dict[str, List[Tuple[FuncInfo, ast.AST, str]]]:
    helpers = construction_helpers(db, c)
    out: Dict[str, List[Tuple[FuncInfo, ast.AST, str]]] = {}
    for nm, f in c.methods.items():
        if nm in helpers:
            continue
        for attr, node, kind in self_writes(db, f):
            out.setdefault(attr, []).append((f, node, kind))
    return out


def _is_fresh_copy(e: ast.AST) -> bool:
    if isinstance(e, ast.Call):
        if isinstance(e.func, ast.Attribute) and e.func.attr in ("copy",) and not e.args:
            return True
        if isinstance(e.func, ast.Name) and e.func.id in ("list", "deepcopy", "sorted", "tuple", "copy"):
            return True
    if isinstance(e, ast.Subscript) and isinstance(e.slice, ast.Slice):
        return True
    if isinstance(e, (ast.List, ast.ListComp, ast.Constant)):
        return True
    if isinstance(e, ast.BinOp) and isinstance(e.op, ast.Add):
        return True
    return False


def run(db: DB, rep: Report) -> None:
    rep.explanation = (
        "Write-set and path analysis of the objects that live across Einsums. (R5a) W = attributes "
        "of ir.tensor.Tensor written by any method other than __init__/reset; reset() must assign "
        "every member of W on every path, from constants or a fresh copy of a field outside W, and "
        "__init__ must keep ranks/init_ranks as separate copies. (R5b) every attribute assigned in "
        "Program.add_einsum is assigned by reset() on every path or assigned unconditionally in "
        "add_einsum; reset() resets every tensor. (R5c) path enumeration of HiFiber.__translate: "
        "program.reset() on every normally returning path after add_einsum. (R5d) a pass that runs "
        "before emission and mutates tensors obtained from the shared Equation ends with the "
        "reset/set_is_output loop. (R5e) classes instantiated in HiFiber.__init__ are exactly the "
        "reviewed shared ones; their post-construction writes are of the reviewed forms; every other "
        "class that carries post-construction state (directly or through a field) is instantiated in "
        "__translate.")
    rep.trusted += ["annotation-driven call resolution (sa/db.py)"]
    rep.assumptions += ["objects reachable only through networkx/sympy values are not tracked"]

    T = db.cls(TENSOR)
    P = db.cls(PROGRAM)

    # ---- R5a -------------------------------------------------------------------
    rep.rule("R5a", "Tensor.reset restores every field other methods write, from fresh values", 5)
    W: Dict[str, List[str]] = {}
    for nm, f in T.methods.items():
        if nm in ("__init__", "reset"):
            continue
        for attr, node, kind in self_writes(db, f):
            W.setdefault(attr, []).append(nm)
    reset = T.methods.get("reset")
    if reset is None:
        raise AnalysisError("Tensor.reset not found")
    for attr in sorted(W):
        def is_assign(n, attr=attr):
            return isinstance(n, ast.Assign) and any(
                isinstance(t, ast.Attribute) and norm(t) == "self." + attr for t in n.targets)
        outs = paths.path_counts(reset.node.body, paths.make_pred(is_assign))
        always = all(cnt >= 1 for cnt, k in outs if k != paths.RAISE)
        assigns = [n for n in walk_no_nested(reset.node) if is_assign(n)]
        src_ok = True
        why = ""
        for a in assigns:
            v = a.value
            srcs = paths.self_attrs(v)
            if srcs & set(W):
                src_ok, why = False, "restored from self.%s which other methods also write" % sorted(srcs & set(W))[0]
            elif srcs and not _is_fresh_copy(v):
                src_ok, why = False, "restored by aliasing self.%s (no copy): later in-place updates " \
                    "would rewrite the declared value" % sorted(srcs)[0]
        rep.check("R5a", always and src_ok, db.loc(assigns[0] if assigns else reset.node), reset.short,
                  "reset:self." + attr,
                  "self.%s (written by %s) is restored by reset()" % (attr, ",".join(sorted(set(W[attr])))),
                  "Tensor.reset() %s; state written by %s for one Einsum leaks into the next" %
                  ("does not assign self.%s on every path" % attr if not always else why,
                   "/".join(sorted(set(W[attr])))))
    # __init__ keeps separate copies
    init = T.methods["__init__"]
    aliased = []
    for n in walk_no_nested(init.node):
        if isinstance(n, ast.Assign) and any(isinstance(t, ast.Attribute) and norm(t.value) == "self"
                                             for t in n.targets):
            v = n.value
            t_attr = [t.attr for t in n.targets if isinstance(t, ast.Attribute)][0]
            tv = db.type_of(v, init)
            if tv and tv[0] in ("list", "dict", "set") and not _is_fresh_copy(v):
                aliased.append((t_attr, n))
            elif isinstance(v, ast.Attribute) and norm(v.value) == "self" and \
                    (v.attr in W or t_attr in W):
                # one field bound to the very object held by a field that methods update in place
                aliased.append((t_attr, n))
    rep.check("R5a", not aliased, db.loc(aliased[0][1]) if aliased else db.loc(init.node), init.short,
              "init:copies", "Tensor.__init__ stores copies of its list arguments/fields",
              "Tensor.__init__ stores %s without copying; the declared rank list and the working rank "
              "list (or the caller's list) become one object" %
              (", ".join("self." + a for a, _ in aliased)))

    # ---- R5b -------------------------------------------------------------------
    rep.rule("R5b", "every attribute Program.add_einsum configures is reset or assigned unconditionally", 7)
    add = P.methods.get("add_einsum")
    preset = P.methods.get("reset")
    if add is None or preset is None:
        raise AnalysisError("Program.add_einsum/reset not found")
    # attributes assigned by add_einsum, transitively through self.<private helper>() calls
    funcs = [add]
    seen = {add.qualname}
    i = 0
    while i < len(funcs):
        for call, gs in db.callees(funcs[i]):
            if isinstance(call.func, ast.Attribute) and norm(call.func.value) == "self":
                for g in gs:
                    if g.cls is P and g.qualname not in seen and g.name not in ("reset",):
                        seen.add(g.qualname)
                        funcs.append(g)
        i += 1
    configured: Dict[str, ast.AST] = {}
    for f in funcs:
        for attr, node, kind in self_writes(db, f):
            if kind == "assign":
                configured.setdefault(attr, node)
    for attr in sorted(configured):
        def is_assign(n, attr=attr):
            return isinstance(n, (ast.Assign, ast.AnnAssign)) and any(
                isinstance(t, ast.Attribute) and norm(t) == "self." + attr
                for t in (n.targets if isinstance(n, ast.Assign) else [n.target]))
        r_outs = paths.path_counts(preset.node.body, paths.make_pred(is_assign))
        in_reset = all(cnt >= 1 for cnt, k in r_outs if k != paths.RAISE)
        a_outs = paths.path_counts(add.node.body, paths.make_pred(is_assign))
        uncond = all(cnt >= 1 for cnt, k in a_outs if k != paths.RAISE)
        rep.check("R5b", in_reset or uncond, db.loc(configured[attr]), add.short, "configured:self." + attr,
                  "self.%s: %s" % (attr, "cleared by reset()" if in_reset else "assigned unconditionally by add_einsum"),
                  "Program.add_einsum assigns self.%s only on some paths and Program.reset() does not "
                  "clear it: the value configured for one Einsum survives into the next" % attr)
    # reset() resets every tensor
    loops = [n for n in walk_no_nested(preset.node) if isinstance(n, ast.For)]
    ok = False
    for lp in loops:
        it = norm(lp.iter)
        calls = [x for x in ast.walk(lp) if isinstance(x, ast.Call) and isinstance(x.func, ast.Attribute)
                 and x.func.attr == "reset" and isinstance(x.func.value, ast.Name)
                 and isinstance(lp.target, ast.Name) and x.func.value.id == lp.target.id]
        if calls and it in ("self.tensors.values()",) and not paths.guards(calls[0], stop=lp):
            ok = True
    rep.check("R5b", ok, db.loc(preset.node), preset.short, "reset:all-tensors",
              "Program.reset() calls reset() on every tensor of self.tensors",
              "Program.reset() no longer resets every shared tensor unconditionally")
    # the tensors handed to Equation are the ones reset() iterates
    eq_calls = [n for n in walk_no_nested(add.node) if isinstance(n, ast.Call) and
                isinstance(n.func, ast.Name) and n.func.id == "Equation"]
    ok = len(eq_calls) == 1 and len(eq_calls[0].args) == 2 and norm(eq_calls[0].args[1]) == "self.tensors"
    rep.check("R5b", ok, db.loc(eq_calls[0]) if eq_calls else db.loc(add.node), add.short,
              "equation:tensors", "Equation is built over self.tensors (the set reset() restores)",
              "Program.add_einsum builds the Equation over a tensor dictionary that Program.reset() "
              "does not restore")

    # ---- R5c -------------------------------------------------------------------
    rep.rule("R5c", "HiFiber.__translate: reset() on every normal path after add_einsum", 1)
    tr = db.func(HIFIBER + ".__translate")

    def is_add(n):
        return isinstance(n, ast.Call) and isinstance(n.func, ast.Attribute) and \
            n.func.attr == "add_einsum" and norm(n.func.value) == "self.program"

    def is_reset(n):
        return isinstance(n, ast.Call) and isinstance(n.func, ast.Attribute) and \
            n.func.attr == "reset" and norm(n.func.value) == "self.program"
    outs = paths.path_counts(tr.node.body, paths.make_pred(is_reset))
    a_outs = paths.path_counts(tr.node.body, paths.make_pred(is_add))
    ok = all(cnt >= 1 for cnt, k in outs if k in (paths.RET, paths.FALL)) and \
        all(cnt == 1 for cnt, k in a_outs if k in (paths.RET, paths.FALL))
    # and reset comes after the translation (last call before return)
    late = paths.must_precede(tr.node.body, is_add, is_reset)
    trans_calls = [n for n in walk_no_nested(tr.node) if isinstance(n, ast.Call) and
                   isinstance(n.func, ast.Attribute) and n.func.attr == "__trans_nodes"]

    def is_trans(n):
        return n in trans_calls
    early = paths.must_precede(tr.node.body, is_trans, is_reset)
    rep.check("R5c", ok and not late and not early and bool(trans_calls), db.loc(tr.node), tr.short,
              "translate:add..reset", "add_einsum once, reset() on every returning path, after emission",
              "HiFiber.__translate has a normally returning path on which program.reset() does not run "
              "after the Einsum was translated (reset counts %s)" % sorted(outs))
    # __init__ calls __translate once per expression, in order
    hi = db.func(HIFIBER + ".__init__")
    loops = [n for n in walk_no_nested(hi.node) if isinstance(n, ast.For) and
             any(isinstance(x, ast.Call) and isinstance(x.func, ast.Attribute) and
                 x.func.attr == "__translate" for x in ast.walk(n))]
    ok, shape = False, False
    if len(loops) == 1:
        lp = loops[0]

        def is_tr(n):
            return isinstance(n, ast.Call) and isinstance(n.func, ast.Attribute) and n.func.attr == "__translate"
        once = all(cnt == 1 for cnt, k in paths.path_counts(lp.body, paths.make_pred(is_tr))
                   if k != paths.RAISE)
        calls = [x for x in ast.walk(lp) if is_tr(x)]
        it = lp.iter

        def all_exprs(e) -> bool:
            return isinstance(e, ast.Call) and isinstance(e.func, ast.Attribute) and \
                e.func.attr == "get_expressions" and not e.args
        idx = None
        if isinstance(it, ast.Call) and isinstance(it.func, ast.Name) and not it.keywords:
            # range(len(<all expressions>)) / enumerate(<all expressions>)
            if it.func.id == "range":
                shape = True
                if len(it.args) == 1 and isinstance(it.args[0], ast.Call) and norm(it.args[0].func) == "len" \
                        and len(it.args[0].args) == 1 and all_exprs(it.args[0].args[0]) and \
                        isinstance(lp.target, ast.Name):
                    idx = lp.target.id
            elif it.func.id == "enumerate":
                shape = True
                if len(it.args) == 1 and all_exprs(it.args[0]) and isinstance(lp.target, ast.Tuple) and \
                        isinstance(lp.target.elts[0], ast.Name):
                    idx = lp.target.elts[0].id
            elif it.func.id in ("reversed", "sorted"):
                shape = True
        elif isinstance(it, ast.Subscript):
            shape = True
        ok = shape and once and idx is not None and len(calls) == 1 and len(calls[0].args) == 1 and \
            isinstance(calls[0].args[0], ast.Name) and calls[0].args[0].id == idx and not lp.orelse
        if not once:
            shape = True
    rep.check("R5c", ok, db.loc(hi.node), hi.short, "init:one-translate-per-einsum",
              "HiFiber.__init__ translates every expression once, in order",
              "HiFiber.__init__ does not call __translate exactly once per Einsum, in program order",
              decided=shape)

    # ---- R5d -------------------------------------------------------------------
    rep.rule("R5d", "analysis passes that mutate shared tensors end with the reset/set_is_output loop", 2)
    _check_passes(db, rep, T, tr)

    # ---- R5f: each intermediate is left unpartitioned under its declared name -------
    # (the footer rules W4-W7 of C07 decide the same clause; they are applied here to the
    # same sources so that a cascade-only breakage is reported under C05 as well)
    rep.rule("R5f", "every Einsum's footer returns its output to the declared, unpartitioned layout", 6)
    from sa.rules import c07
    from sa.rules.c09 import analyse
    sub = Report("C07", rep.tier, rep.seed)
    c07._restore_rules(db, sub, analyse(db)[1])
    for rid, r in sub.rules.items():
        for inst in r["instances"]:
            rep.instance("R5f", inst["where"], "%s: %s" % (rid, inst["what"]), inst["ok"])
    for v in sub.violations:
        rep.violation("R5f", v.where, v.func, "%s:%s" % (v.rule, v.construct),
                      "%s; a later Einsum of the cascade reads the intermediate under its declared name" %
                      v.message)
    for u in sub.undecided_list:
        rep.undecided("R5f", u["where"], u["function"], u["message"])

    # ---- R5e -------------------------------------------------------------------
    rep.rule("R5e", "shared objects carry only reviewed per-Einsum state; stateful classes are built per Einsum", 6)
    stateful: Dict[str, str] = {}
    pcw: Dict[str, Dict[str, List]] = {}
    for q, c in db.classes.items():
        w = post_construction_writes(db, c)
        if w:
            pcw[q] = w
            stateful[q] = "writes self.%s after construction" % sorted(w)[0]
    # closure through fields
    changed = True
    while changed:
        changed = False
        for q, c in db.classes.items():
            if q in stateful:
                continue
            for k in c.mro():
                for attr, t in k.field_types.items():
                    if t and t[0] == "cls" and t[1] in stateful and t[1] not in SHARED_OK:
                        stateful[q] = "holds a %s in self.%s" % (t[1].split(".")[-1], attr)
                        changed = True
                        break
                if q in stateful:
                    break

    def instantiated(f: FuncInfo) -> Dict[str, ast.AST]:
        out = {}
        for n in walk_no_nested(f.node):
            if isinstance(n, ast.Call) and isinstance(n.func, ast.Name):
                ent = f.module.ns.get(n.func.id)
                if ent and ent[0] == "class":
                    out.setdefault(ent[1].qualname, n)
        return out
    in_init = instantiated(hi)
    in_tr = instantiated(tr)
    for q, node in sorted(in_init.items()):
        ok = q in SHARED_OK or q not in stateful
        rep.check("R5e", ok, db.loc(node), hi.short, "shared-instance:" + q.split(".")[-1],
                  "%s is created once for all Einsums (%s)" % (
                      q.split(".")[-1], SHARED_OK.get(q, "no post-construction state")),
                  "%s is instantiated in HiFiber.__init__, so one instance serves every Einsum, but it %s: "
                  "state of Einsum i is visible while Einsum i+1 is compiled" %
                  (q.split(".")[-1], stateful.get(q, "")))
    for q, node in sorted(in_tr.items()):
        if q in stateful and q not in SHARED_OK:
            rep.instance("R5e", db.loc(node), "%s (stateful: %s) is created per Einsum in __translate" %
                         (q.split(".")[-1], stateful[q]))
    # reviewed forms of the shared classes' post-construction writes
    tu = pcw.get("teaal.trans.utils.TransUtils", {})
    for attr, ws in sorted(tu.items()):
        for f, node, kind in ws:
            ok = kind == "augassign" and isinstance(node.op, ast.Add) and \
                isinstance(node.value, ast.Constant) and isinstance(node.value.value, int) and \
                node.value.value > 0
            rep.check("R5e", ok, db.loc(node), f.short, "TransUtils:" + norm(node),
                      "TransUtils.%s written by '%s' (monotone counter)" % (attr, norm(node)),
                      "the shared temporary counter is written by '%s', which is not '+= <positive "
                      "literal>': temporaries of a later Einsum could collide with or depend on "
                      "earlier ones in a way renumbering does not explain" % norm(node))
    hwc = pcw.get("teaal.ir.hardware.Hardware", {})
    for attr, ws in sorted(hwc.items()):
        for f, node, kind in ws:
            rep.check("R5e", False, db.loc(node), f.short, "Hardware:" + norm(node),
                      "Hardware.%s written after construction" % attr,
                      "the shared Hardware object is written after construction (%s)" % norm(node))
    # components reachable from Hardware: writes confined to the current Einsum's slot
    comp = db.cls("teaal.ir.component.Component")
    n_comp = 0
    for k in [comp] + comp.all_subclasses():
        for attr, ws in sorted(post_construction_writes(db, k).items()):
            for f, node, kind in ws:
                n_comp += 1
                einsum_param = "einsum" in f.call_params
                tgt = None
                if isinstance(node, ast.Call):
                    tgt = node.func.value
                elif isinstance(node, (ast.Assign, ast.AugAssign)):
                    tgt = (node.targets[0] if isinstance(node, ast.Assign) else node.target)
                first = None
                b = tgt
                while isinstance(b, ast.Subscript):
                    first = b.slice
                    b = b.value
                ok = einsum_param and isinstance(first, ast.Name) and first.id == "einsum"
                rep.check("R5e", ok, db.loc(node), f.short, "component:" + norm(tgt) if tgt is not None else "component",
                          "%s writes %s (confined to the current Einsum's slot)" % (f.short, norm(tgt) if tgt is not None else "?"),
                          "%s mutates state of a component shared by all Einsums and the write is not "
                          "indexed first by the method's 'einsum' parameter" % f.short)
    # state of the shared objects written from outside their own class
    shared = {q for q in SHARED_OK if not q.endswith(".SBlock")}
    shared |= {k.qualname for k in [comp] + comp.all_subclasses()}
    n_ext = 0
    for g in db.functions.values():
        for n in walk_no_nested(g.node):
            recv = None
            kind = None
            if isinstance(n, ast.Call) and isinstance(n.func, ast.Attribute) and n.func.attr in paths.MUTATORS:
                t = db.type_of(n.func.value, g)
                if not (t and t[0] == "cls"):
                    recv, kind = n.func.value, n.func.attr + "()"
            elif isinstance(n, (ast.Assign, ast.AugAssign, ast.Delete)):
                for t_ in (n.targets if isinstance(n, (ast.Assign, ast.Delete)) else [n.target]):
                    if isinstance(t_, ast.Subscript):
                        recv, kind = t_.value, "subscript store"
                    elif isinstance(t_, ast.Attribute) and not (isinstance(t_.value, ast.Name) and
                                                                 t_.value.id == "self"):
                        recv, kind = t_, "attribute store"
            if recv is None:
                continue
            b = recv
            while isinstance(b, ast.Subscript):
                b = b.value
            cands = [b]
            if isinstance(b, ast.Name):
                cands = [v for st, v in paths.defs_of(g.node, b.id) if v is not None]
            for c_ in cands:
                while isinstance(c_, ast.Subscript):
                    c_ = c_.value
                if not isinstance(c_, ast.Attribute):
                    continue
                bt = db.type_of(c_.value, g)
                if not (bt and bt[0] == "cls" and bt[1] in shared):
                    continue
                owner = db.classes[bt[1]]
                if g.cls is not None and (g.cls is owner or owner in g.cls.mro() or g.cls in owner.mro()):
                    continue
                n_ext += 1
                rep.check("R5e", False, db.loc(n), g.short, "external-write:%s.%s" % (owner.name, c_.attr),
                          "%s mutates %s.%s from outside" % (g.short, owner.name, c_.attr),
                          "%s performs %s on %s.%s, a field of an object that is shared by all Einsums, from "
                          "outside that class: state recorded while compiling one Einsum changes how a later "
                          "one is compiled" % (g.short, kind, owner.name, c_.attr))
    rep.extra["external_writes_to_shared_objects"] = n_ext
    # Program: anything written post-construction outside add_einsum/reset (+helpers)?
    for attr, ws in sorted(pcw.get(PROGRAM, {}).items()):
        for f, node, kind in ws:
            ok = f.qualname in seen or f.name == "reset"
            if not ok:
                rep.check("R5e", False, db.loc(node), f.short, "Program:" + norm(node),
                          "Program.%s written by %s" % (attr, f.name),
                          "Program.%s is written by %s, outside add_einsum/reset: per-Einsum state that "
                          "reset() does not govern" % (attr, f.short))


# ------------------------------------------------------------------------------
# R5d
# ------------------------------------------------------------------------------
def _tensor_mutating_params(db: DB, T: ClassInfo) -> Dict[str, Set[int]]:
    """qualname -> parameter positions (0 = self/first) through which the
    function may mutate a Tensor object."""
    mut: Dict[str, Set[int]] = {}
    for nm, f in T.methods.items():
        if nm in ("__init__",):
            continue
        if self_writes(db, f):
            mut[f.qualname] = {0}
    changed = True
    while changed:
        changed = False
        for f in db.functions.values():
            params = f.params
            for call, gs in db.callees(f):
                for g in gs:
                    if g.qualname not in mut:
                        continue
                    for pos in mut[g.qualname]:
                        arg = _arg_at(call, g, pos)
                        if isinstance(arg, ast.Name) and arg.id in params:
                            # only if the parameter can hold a Tensor
                            pt = db.param_types(f).get(arg.id, ("any",))
                            if pt[0] == "cls" and pt[1] != T.qualname:
                                continue
                            if pt[0] in ("str", "int", "bool", "list", "dict", "tuple", "set"):
                                continue
                            i = params.index(arg.id)
                            if i not in mut.setdefault(f.qualname, set()):
                                mut[f.qualname].add(i)
                                changed = True
    return mut


def _arg_at(call: ast.Call, g: FuncInfo, pos: int) -> Optional[ast.AST]:
    """Argument expression bound to g's parameter position pos (0 = self)."""
    has_self = g.cls is not None and not g.is_static
    if has_self:
        if pos == 0:
            return call.func.value if isinstance(call.func, ast.Attribute) else None
        idx = pos - 1
    else:
        idx = pos
    if idx < len(call.args):
        return call.args[idx]
    pname = g.params[pos] if pos < len(g.params) else None
    for kw in call.keywords:
        if kw.arg == pname:
            return kw.value
    return None


SHARED_SOURCES = ("get_tensors", "get_tensor", "get_output", "get_iter", "peek_concord",
                  "pop_concord", "peek_discord", "pop_discord")


def _origin(db: DB, e: ast.AST, f: FuncInfo, depth: int = 0) -> str:
    """fresh | shared | param | unknown"""
    if depth > 5:
        return "unknown"
    if isinstance(e, ast.Call):
        if isinstance(e.func, ast.Name):
            ent = f.module.ns.get(e.func.id)
            if ent and ent[0] == "class" and ent[1].qualname == TENSOR:
                return "fresh"
            if e.func.id == "deepcopy":
                return "fresh"
        if isinstance(e.func, ast.Attribute) and e.func.attr in SHARED_SOURCES:
            return "shared"
        return "unknown"
    if isinstance(e, ast.Name):
        if e.id in f.params:
            return "param"
        kinds = set()
        for st, val in paths.defs_of(f.node, e.id):
            if val is None:
                continue
            if isinstance(st, (ast.For, ast.comprehension)):
                kinds.add(_origin(db, val, f, depth + 1))
            elif isinstance(st, ast.Call):
                continue
            else:
                kinds.add(_origin(db, val, f, depth + 1))
        if kinds == {"fresh"}:
            return "fresh"
        if "shared" in kinds:
            return "shared"
        if "param" in kinds:
            return "param"
        return "unknown"
    if isinstance(e, ast.Subscript):
        return _origin(db, e.value, f, depth + 1)
    if isinstance(e, ast.Attribute):
        return "shared" if norm(e.value) == "self" else "unknown"
    if isinstance(e, (ast.Tuple, ast.List)):
        ks = {_origin(db, x, f, depth + 1) for x in e.elts}
        return "shared" if "shared" in ks else ("fresh" if ks == {"fresh"} else "unknown")
    return "unknown"


def _has_trailing_reset(db: DB, f: FuncInfo) -> Optional[ast.For]:
    """The function's last statement is `for t in <...>.get_tensors(): ... t.reset();
    t.set_is_output(<saved>)`, reached on every path (no earlier return)."""
    body = f.node.body
    if not body or not isinstance(body[-1], ast.For):
        return None
    lp = body[-1]
    it_ = paths.resolve_flow(lp.iter, lp, f.node, depth=2)
    if "get_tensors" not in paths.called_names([it_]) or not isinstance(lp.target, ast.Name):
        return None
    v = lp.target.id
    calls = {x.func.attr: x for x in ast.walk(lp) if isinstance(x, ast.Call) and
             isinstance(x.func, ast.Attribute) and isinstance(x.func.value, ast.Name) and x.func.value.id == v}
    if "reset" not in calls or "set_is_output" not in calls:
        return None
    if paths.guards(calls["reset"], stop=lp) or paths.guards(calls["set_is_output"], stop=lp):
        return None
    # the restored flag was read before the reset
    arg = calls["set_is_output"].args[0] if calls["set_is_output"].args else None
    if not isinstance(arg, ast.Name):
        return None
    saved = [s for s in lp.body if isinstance(s, ast.Assign) and isinstance(s.targets[0], ast.Name)
             and s.targets[0].id == arg.id and "get_is_output" in paths.called_names([s.value])]
    if not saved:
        return None
    order = [s for s in lp.body]
    i_saved = order.index(saved[0])
    i_reset = next(i for i, s in enumerate(order) if calls["reset"] in list(ast.walk(s)))
    i_set = next(i for i, s in enumerate(order) if calls["set_is_output"] in list(ast.walk(s)))
    if not (i_saved < i_reset < i_set):
        return None
    # no return before the loop
    for n in walk_no_nested(f.node):
        if isinstance(n, ast.Return) and n not in list(ast.walk(lp)):
            return None
    return lp


def _check_passes(db: DB, rep: Report, T: ClassInfo, tr: FuncInfo) -> None:
    mut = _tensor_mutating_params(db, T)
    # pass roots: every constructor / method called in __translate before __trans_nodes
    roots: List[Tuple[str, FuncInfo]] = []
    for n in walk_no_nested(tr.node):
        if isinstance(n, ast.Call):
            if isinstance(n.func, ast.Attribute) and n.func.attr in ("__trans_nodes", "reset", "add_einsum") \
                    and norm(n.func.value) in ("self", "self.program"):
                continue
            for g in db.resolve_call(n, tr):
                roots.append((norm(n.func), g))
    # direct shared-mutation sites per function
    sites: Dict[str, List[Tuple[ast.Call, str]]] = {}
    for f in db.functions.values():
        for call, gs in db.callees(f):
            for g in gs:
                if g.qualname not in mut:
                    continue
                for pos in mut[g.qualname]:
                    arg = _arg_at(call, g, pos)
                    if arg is None:
                        continue
                    o = _origin(db, arg, f)
                    if o == "shared":
                        sites.setdefault(f.qualname, []).append((call, norm(arg)))
    n_pass = 0
    for label, root in roots:
        reach = db.reachable([root])
        dirty = sorted(q for q in reach if q in sites)
        if not dirty:
            rep.instance("R5d", db.loc(root.node), "pass %s: no mutation of shared tensors reachable" % label)
            continue
        n_pass += 1
        # some function F reachable from the root covers all dirty functions and ends with the reset loop
        cover = None
        for q, F in reach.items():
            lp = _has_trailing_reset(db, F)
            if lp is None:
                continue
            sub = db.reachable([F])
            if all(d in sub for d in dirty):
                # direct sites in F itself must precede the loop
                own = [c for c, _ in sites.get(q, []) if c in list(ast.walk(lp))]
                # (mutations inside the loop other than reset/set_is_output)
                own = [c for c in own if c.func.attr not in ("reset", "set_is_output")]
                if not own:
                    cover = F
                    break
        first = sites[dirty[0]][0]
        rep.check("R5d", cover is not None, db.loc(first[0]), reach[dirty[0]].short,
                  "pass:%s" % label,
                  "pass %s mutates shared tensors in %s; restored by trailing reset loop of %s" %
                  (label, ", ".join(reach[d].short for d in dirty), cover.short if cover else "-"),
                  "the pass '%s' (run before emission) mutates tensors of the shared Equation (e.g. %s at "
                  "%s) and no function that covers these mutations ends with the loop that resets every "
                  "tensor and re-establishes its output flag: emission starts from dirty tensor state" %
                  (label, norm(first[0]), db.loc(first[0])))
    if n_pass < 2:
        raise AnalysisError("fewer than 2 tensor-mutating analysis passes found (%d)" % n_pass)


def mutants(db: DB):
    from sa.selftest import M, Mutant, Edit
    ten, prog, hf = "teaal/ir/tensor.py", "teaal/ir/program.py", "teaal/trans/hifiber.py"
    return [
        M("temporary ranks recognised by the last letter of the rank", "teaal/trans/partitioner.py",
          "                    if suffix and suffix[-1] == \"I\":", "                    if info[0][-1] == \"I\":", "R5f"),
        M("reset forgets is_flat", ten, "        self.is_output = False\n        self.is_flat = False\n\n    def root_name",
          "        self.is_output = False\n\n    def root_name", "R5a"),
        M("reset forgets rank_ptr", ten, "        self.iter_ptr = 0\n        self.rank_ptr = 0\n        self.ranks = self.init_ranks.copy()",
          "        self.iter_ptr = 0\n        self.ranks = self.init_ranks.copy()", "R5a"),
        M("reset aliases init_ranks", ten, "        self.ranks = self.init_ranks.copy()\n        self.is_output = False",
          "        self.ranks = self.init_ranks\n        self.is_output = False", "R5a"),
        M("reset conditional", ten, "        self.iter_ptr = 0\n        self.rank_ptr = 0\n        self.ranks = self.init_ranks.copy()",
          "        if self.iter_ptr:\n            self.iter_ptr = 0\n        self.rank_ptr = 0\n        self.ranks = self.init_ranks.copy()",
          "R5a"),
        M("init shares ranks and init_ranks", ten, "        self.init_ranks = self.ranks.copy()", "        self.init_ranks = self.ranks",
          "R5a"),
        M("init keeps caller's list", ten, "        self.ranks = ranks.copy()", "        self.ranks = ranks", "R5a"),
        M("Program.reset forgets spacetime", prog, "        self.partitioning = None\n        self.spacetime = None\n",
          "        self.partitioning = None\n", "R5b"),
        M("Program.reset forgets tensors", prog, "        for tensor in self.tensors.values():\n            tensor.reset()\n\n        self.equation = None",
          "        self.equation = None", "R5b"),
        M("add_einsum configures loop_order conditionally", prog, "        self.loop_order = LoopOrder(self.equation)\n",
          "        if self.loop_order is None:\n            self.loop_order = LoopOrder(self.equation)\n", (), benign=True,
          note="loop_order is still cleared by reset(), so this is silent by R5b's own logic"),
        M("einsum_ind assigned conditionally", prog, "        self.einsum_ind = i\n", "        if i > 0 or self.einsum_ind is None:\n            self.einsum_ind = i\n",
          "R5b"),
        M("Equation over declared tensors", prog, "            self.tensors)\n        self.coord_math = CoordMath()",
          "            self.decl_tensors)\n        self.coord_math = CoordMath()", "R5b"),
        M("translate skips reset", hf, "        self.program.reset()\n        return stmt", "        return stmt", "R5c"),
        M("translate resets only with metrics", hf, "        self.program.reset()\n        return stmt",
          "        if self.metrics:\n            self.program.reset()\n        return stmt", "R5c"),
        M("reset before emission", hf, "        stmt = self.__trans_nodes(nodes)[1]\n\n        self.program.reset()\n",
          "        self.program.reset()\n        stmt = self.__trans_nodes(nodes)[1]\n\n", "R5c"),
        M("FlowGraph.__build drops trailing reset", "teaal/ir/flow_graph.py",
          "        # Reset all tensors\n        for tensor in self.program.get_equation().get_tensors():\n            is_output = tensor.get_is_output()\n            tensor.reset()\n            tensor.set_is_output(is_output)\n",
          "", "R5d"),
        M("FlowGraph.__build loses output flag", "teaal/ir/flow_graph.py",
          "            tensor.reset()\n            tensor.set_is_output(is_output)\n\n    def __build_dyn_part",
          "            tensor.reset()\n\n    def __build_dyn_part", "R5d"),
        M("Graphics hoisted into __init__", hf, "        self.trans_utils = TransUtils(self.program)\n",
          "        self.trans_utils = TransUtils(self.program)\n        self.graphics = Graphics(self.program, None)\n", "R5e"),
        M("IterationGraph hoisted into __init__", hf, "        self.trans_utils = TransUtils(self.program)\n",
          "        self.trans_utils = TransUtils(self.program)\n        self.graph = IterationGraph(self.program)\n", "R5e"),
        M("TransUtils counter reset", "teaal/trans/utils.py", "        if self.count == -1:\n            raise ValueError(\"No previous temporary\")\n",
          "        if self.count == -1:\n            raise ValueError(\"No previous temporary\")\n        if self.count > 100:\n            self.count = 0\n",
          "R5e"),
        Mutant("swizzle registry kept on the shared TransUtils", [
            Edit("teaal/trans/utils.py", "        self.count = -1\n        self.program = program\n",
                 "        self.count = -1\n        self.program = program\n        self.swizzled = set()\n"),
            Edit("teaal/trans/header.py",
                 "        if old_name == new_name:\n            return SBlock([])\n        else:\n            return TransUtils.build_swizzle(tensor, old_name, new_name)",
                 "        if old_name == new_name:\n            return SBlock([])\n        swizzled = self.partitioner.trans_utils.swizzled\n"
                 "        if new_name in swizzled:\n            return SBlock([])\n        swizzled.add(new_name)\n        return TransUtils.build_swizzle(tensor, old_name, new_name)")],
            ("R5e",)),
        M("expand_eager not indexed by einsum", "teaal/ir/component.py", "self.bindings[einsum].append(", "self.bindings[tensor].append(",
          "R5e"),
    ]
