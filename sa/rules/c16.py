"""
C16 - spacetime display is observation-only, complete and unambiguous.

Decided (DESIGN.md section 3, C16):
  D1 graphics emitters bind only their own literal names, which no computation
     emitter binds or reads; they call only the canvas API
  D2 the three graphics emitters are guarded identically; slip-only statements
     carry the slip guard
  D3 the enumerate() wrapper and the *_pos payload variable are guarded by the
     same predicate on the same argument; every loop expression passes through it
  D4 one activity per update: the update arm adds make_body right after
     make_update; make_body reaches add_activity exactly once, outside loops
  D5 one coordinate per rank of each displayed tensor, from the tensor list
     createCanvas was given
Not decided: stamp uniqueness and equality of computed tensors (runtime).
"""

from __future__ import annotations

import ast
from typing import Dict, List, Set, Tuple

from sa import paths
from sa.db import DB, AnalysisError, norm, walk_no_nested
from sa.modes import Modes
from sa.report import Report
from sa.rules.c06 import key_of, show
from sa.rules.c09 import analyse

GRAPHICS_MODULES = {"teaal.trans.graphics", "teaal.trans.canvas"}
COMPUTE_MODULES = {"teaal.trans.equation", "teaal.trans.header", "teaal.trans.partitioner",
                   "teaal.trans.footer", "teaal.trans.utils", "teaal.trans.coord_access"}
CANVAS_API = {"createCanvas", "addActivity", "displayCanvas", "keys"}


def run(db: DB, rep: Report) -> None:
    rep.explanation = (
        "Name sites recorded by the builder abstract interpreter are partitioned by module: graphics/"
        "canvas binders must be fully literal names, disjoint from every name template of the "
        "computation emitters, and their callee/method names must be the canvas API. Mode atoms "
        "(spacetime on, metrics off, slip) of the emitting statements of Graphics.make_header / "
        "make_body / make_footer are computed from their control dependence and compared. The guard "
        "of the EFunc('enumerate') construction and of the '*_pos' payload variable must be calls of "
        "the same predicate with the same argument; path enumeration shows every return of "
        "make_iter_expr passes through that wrapper. The update arm of HiFiber.__trans_nodes and "
        "Canvas.add_activity / create_canvas are checked structurally.")
    rep.trusted += ["abstract interpreter name templates (C09)", "mode atoms of sa/modes.py"]
    rep.assumptions += ["uniqueness of (space, time) stamps and tensor equality are runtime facts, not decided"]
    pm, hm, it = analyse(db)
    modes = Modes(db)

    # ---- D1 --------------------------------------------------------------------
    rep.rule("D1", "graphics emitters are observation-only (own literal names, canvas API only)", 4)
    gbind: Dict[str, List] = {}
    for rec in hm.names.values():
        f = rec["func"]
        if f is None or f.module.name not in GRAPHICS_MODULES:
            continue
        if rec["role"] == "binder":
            for t in rec["tmpls"]:
                literal = all(isinstance(p, str) for p in t)
                rep.check("D1", literal, db.loc(rec["node"]), f.short, "graphics-binds:" + show(t),
                          "graphics code binds %s" % show(t),
                          "graphics/canvas code binds a computed name %s; it could shadow a variable of "
                          "the computation" % show(t))
                if literal:
                    gbind.setdefault("".join(t), []).append(rec)
        elif rec["role"] in ("callee", "method"):
            for t in rec["tmpls"]:
                nm = show(t)
                rep.check("D1", nm in CANVAS_API, db.loc(rec["node"]), f.short, "graphics-calls:" + nm,
                          "graphics code calls %s" % nm,
                          "graphics/canvas code emits a call of %s, which is not part of the canvas API "
                          "(createCanvas/addActivity/displayCanvas/keys): it may change computed state" % nm)
    if not gbind:
        raise AnalysisError("no binder found in graphics/canvas emitters")
    for name, recs in sorted(gbind.items()):
        clash = []
        for rec in hm.names.values():
            f = rec["func"]
            if f is None or f.module.name not in COMPUTE_MODULES:
                continue
            if rec["role"] not in ("binder", "reader"):
                continue
            for t in rec["tmpls"]:
                if all(isinstance(p, str) for p in t) and "".join(t) == name:
                    clash.append(rec)
        rep.check("D1", not clash, db.loc(recs[0]["node"]), recs[0]["func"].short, "graphics-name:" + name,
                  "'%s' is private to the graphics emitters" % name,
                  "the graphics variable '%s' is also %s by %s: display code and computation share a name" %
                  (name, clash[0]["role"] if clash else "", clash[0]["func"].short if clash else ""))

    # ---- D2 --------------------------------------------------------------------
    rep.rule("D2", "graphics emitters identically guarded; slip-only statements under slip", 5)
    G = db.cls("teaal.trans.graphics.Graphics")
    want = {"spacetime=on", "metrics=off"}
    emit_guards = {}
    for nm in ("make_header", "make_body", "make_footer"):
        f = G.methods.get(nm)
        if f is None:
            raise AnalysisError("Graphics.%s not found" % nm)
        # emitting statements: calls into self.canvas.* that produce statements
        calls = [n for n in walk_no_nested(f.node) if isinstance(n, ast.Call) and
                 isinstance(n.func, ast.Attribute) and norm(n.func.value) == "self.canvas" and
                 n.func.attr in ("create_canvas", "add_activity", "display_canvas")]
        if not calls:
            raise AnalysisError("Graphics.%s no longer calls the canvas" % nm)
        for c in calls:
            m = modes.site_modes(c, f) & {"spacetime=on", "spacetime=off", "metrics=on", "metrics=off"}
            emit_guards[nm] = m
            rep.check("D2", m == want, db.loc(c), f.short, "guard:" + nm,
                      "Graphics.%s emits under %s" % (nm, sorted(m)),
                      "Graphics.%s emits its display code under %s; the three graphics emitters must all "
                      "emit exactly when a spacetime is given and metrics are off (%s): otherwise the "
                      "canvas is used without being created, or created and never displayed" %
                      (nm, sorted(m), sorted(want)))
    # slip-only statements: anything naming "timestamps"
    n_slip = 0
    for rec in hm.names.values():
        f = rec["func"]
        if f is None or f.module.name not in GRAPHICS_MODULES or rec["role"] not in ("binder", "reader"):
            continue
        if any("".join(p for p in t if isinstance(p, str)) == "timestamps" for t in rec["tmpls"]):
            n_slip += 1
            m = modes.full_modes(rec["node"], f)
            rep.check("D2", "slip=on" in m, db.loc(rec["node"]), f.short, "slip:" + f.short + ":" + rec["role"],
                      "'timestamps' %s in %s under slip" % (rec["role"], f.short),
                      "%s %ss 'timestamps' without the get_slip() guard; without slip the dictionary does "
                      "not exist" % (f.short, rec["role"][:-2] if rec["role"].endswith("er") else rec["role"]))
    if n_slip < 3:
        raise AnalysisError("fewer than 3 'timestamps' sites found (%d)" % n_slip)

    # ---- D3 --------------------------------------------------------------------
    rep.rule("D3", "enumerate() wrapper and *_pos payload guarded by the same predicate", 3)
    E = db.cls("teaal.trans.equation.Equation")
    enum_sites = [r for r in hm.names.values() if r["role"] == "callee" and r["func"] is not None and
                  r["func"].cls is E and any(show(t) == "enumerate" for t in r["tmpls"])]
    pos_sites = [r for r in hm.names.values() if r["role"] == "binder" and r["cls"] == "PVar" and
                 any(key_of(t) == ("_pos",) for t in r["tmpls"])]
    if len(enum_sites) != 1 or len(pos_sites) != 1:
        raise AnalysisError("expected one enumerate site and one *_pos payload site, found %d / %d" %
                            (len(enum_sites), len(pos_sites)))

    def pred_guard(rec) -> Set[str]:
        out = set()
        f = rec["func"]
        for t, pol in paths.guards(rec["node"], stop=f.node):
            for a, p in paths.conjuncts(t, pol):
                if isinstance(a, ast.Call) and isinstance(a.func, ast.Attribute):
                    # argument expressions by parameter role: the rank parameter of the function
                    args = []
                    for x in a.args:
                        if isinstance(x, ast.Name) and x.id in f.call_params:
                            args.append("param#%d" % f.call_params.index(x.id))
                        else:
                            args.append(norm(x))
                    out.add("%s%s(%s)" % ("" if p else "not ", a.func.attr, ",".join(args)))
        return out
    ge, gp = pred_guard(enum_sites[0]), pred_guard(pos_sites[0])
    rep.check("D3", ge == gp and bool(ge), db.loc(pos_sites[0]["node"]), pos_sites[0]["func"].short,
              "enumerate<->pos", "enumerate guard %s == position-variable guard %s" % (sorted(ge), sorted(gp)),
              "the enumerate() wrapper is emitted under %s but the *_pos loop variable under %s: the "
              "for-target and the iterator get different arity, or *_pos is read unbound" %
              (sorted(ge), sorted(gp)))
    # the rank argument of both callers is the loop's rank: make_iter_expr/make_payload receive the same `rank`
    mi = E.methods.get("make_iter_expr")
    ae = enum_sites[0]["func"]
    if mi is None:
        raise AnalysisError("Equation.make_iter_expr not found")
    rets = [n for n in walk_no_nested(mi.node) if isinstance(n, ast.Return) and n.value is not None]
    ok = bool(rets)
    for r in rets:
        v = r.value
        good = isinstance(v, ast.Call) and isinstance(v.func, ast.Attribute) and v.func.attr == ae.name and \
            v.args and isinstance(v.args[0], ast.Name) and v.args[0].id == mi.call_params[0]
        ok = ok and good
    rep.check("D3", ok, db.loc(mi.node), mi.short, "iter-expr-through-wrapper",
              "every return of make_iter_expr passes through %s(rank, ...)" % ae.name,
              "a return path of Equation.make_iter_expr does not pass its expression through %s with the "
              "loop's rank: the payload would bind *_pos while the iterator is not enumerated" % ae.name)
    # translator gives both the same rank
    tn = db.func("teaal.trans.hifiber.HiFiber.__trans_nodes")
    ie = [n for n in walk_no_nested(tn.node) if isinstance(n, ast.Call) and isinstance(n.func, ast.Attribute)
          and n.func.attr == "make_iter_expr"]
    mp = [n for n in walk_no_nested(tn.node) if isinstance(n, ast.Call) and isinstance(n.func, ast.Attribute)
          and n.func.attr == "make_payload"]
    ok = len(ie) == 1 and len(mp) == 1 and norm(ie[0].args[0]) == norm(mp[0].args[0])
    rep.check("D3", ok, db.loc(tn.node), tn.short, "same-rank",
              "make_iter_expr and make_payload receive the same rank expression",
              "the loop arm of __trans_nodes passes different rank expressions to make_iter_expr and "
              "make_payload")

    check_pos_paths(db, rep, "D3", hm)

    # ---- D6: the interval-driven condition is an unconditional disjunct of the predicate
    rep.rule("D6", "the enumerate predicate holds whenever the interval code needs the position variable", 1)
    check_need_enumerate(db, rep, "D6")

    # ---- D7: displayed coordinates are expressed in loop variables
    rep.rule("D7", "access points are built from loop-variable names", 2)
    C_ = db.cls("teaal.trans.canvas.Canvas")
    ba = C_.methods.get("__build_access")
    if ba is None:
        raise AnalysisError("Canvas.__build_access not found")
    n_ret = 0
    for r in [n for n in walk_no_nested(ba.node) if isinstance(n, ast.Return) and n.value is not None]:
        v = r.value
        if isinstance(v, ast.Call) and norm(v.func).endswith("build_expr") and v.args:
            n_ret += 1
            arg = v.args[0]
            names, exprs = paths.backward_slice(ba.node, paths.load_names(arg), with_control=False)
            # the definitions that reach this return: those that precede it
            subs = []
            for e in exprs + [arg]:
                for x in ast.walk(e):
                    if isinstance(x, ast.Call) and isinstance(x.func, ast.Attribute) and x.func.attr == "subs" \
                            and getattr(x, "lineno", 0) <= r.lineno:
                        subs.append(x)
            renamed = False
            for x in subs:
                repl = x.args[1] if len(x.args) > 1 else None
                if repl is None:
                    continue
                rn, rex = paths.backward_slice(ba.node, paths.load_names(repl), with_control=False)
                calls = paths.called_names(rex + [repl])
                if "get_dyn_rank" in calls or "partition_rank" in calls:
                    # the substitution must lie on the path to this return (same or enclosing block)
                    st = x
                    while not isinstance(st, ast.stmt):
                        st = st.parent
                    blk_owner = st.parent
                    anc = r
                    on_path = False
                    while anc is not None and anc is not ba.node:
                        if anc.parent is blk_owner or (isinstance(blk_owner, ast.For) and blk_owner.parent is anc.parent):
                            on_path = True
                        anc = anc.parent
                    if on_path:
                        renamed = True
            rep.check("D7", renamed, db.loc(r), ba.short, "access-return:" + norm(v)[:60],
                      "coordinate expression %s has its symbols renamed to loop variables" % norm(arg),
                      "Canvas.__build_access returns CoordAccess.build_expr(%s) without substituting the "
                      "rank symbols by the names of the loop variables (get_dyn_rank / the partitioned loop "
                      "rank): for a partitioned operand rank the activity reads a name no loop binds" % norm(arg))
    if n_ret < 2:
        raise AnalysisError("fewer than 2 coordinate-expression returns in Canvas.__build_access")

    # ---- D8: time-rank positions are read only without slip
    rep.rule("D8", "the plain time tuple (time-rank positions) is used only when slip is off", 1)
    aa_ = C_.methods["add_activity"]
    tt = [n for n in walk_no_nested(aa_.node) if isinstance(n, ast.Call) and isinstance(n.func, ast.Attribute)
          and n.func.attr == "get_time_tuple"]
    if not tt:
        raise AnalysisError("Canvas.add_activity no longer uses get_time_tuple")
    ep = db.func("teaal.ir.spacetime.SpaceTime.emit_pos")
    # emit_pos suppresses positions of time ranks under slip: "not slip or rank in space"
    ep_ok = any(isinstance(n, ast.Return) and isinstance(n.value, ast.BoolOp) and isinstance(n.value.op, ast.Or)
                and any("get_slip" in norm(v) and isinstance(v, ast.UnaryOp) for v in n.value.values)
                for n in walk_no_nested(ep.node))
    for c in tt:
        m = modes.site_modes(c, aa_)
        rep.check("D8", ("slip=off" in m) or not ep_ok, db.loc(c), aa_.short, "time-tuple-mode",
                  "get_time_tuple() used under %s" % sorted(m),
                  "Canvas.add_activity uses the plain time tuple under %s; SpaceTime.emit_pos does not emit "
                  "the position variables of time ranks when slip is on, so the stamp reads names that are "
                  "never bound (or stale ones from an earlier Einsum)" % sorted(m))

    # ---- D13: coordinates are subtracted only where they are numbers ---------------------
    rep.rule("D13", "a relative coordinate (rank - offset) is emitted only for ranks that do not stem "
             "from a flattening", 1)
    rc13 = C_.methods.get("__rel_coord")
    if rc13 is None:
        raise AnalysisError("Canvas.__rel_coord not found")
    subs13 = [n for n in walk_no_nested(rc13.node) if isinstance(n, ast.Call) and norm(n.func) == "EBinOp" and
              len(n.args) == 3 and norm(n.args[1]) == "OSub()"]
    if not subs13:
        rep.undecided("D13", db.loc(rc13.node), rc13.short, "the subtraction of the offset was not found")
    for sb in subs13:
        atoms = [(paths.inlined_text(a, rc13.node), p_) for t, pol in paths.guards(sb, stop=rc13.node)
                 for a, p_ in paths.conjuncts(t, pol)]
        ok = any(".is_flattened(" in t_ and not p_ for t_, p_ in atoms)
        rep.check("D13", ok, db.loc(sb), rc13.short, "rel-coord:not-flattened",
                  "rank - offset is built only when the rank is not (a partition of) a flattened rank",
                  "Canvas.__rel_coord builds %s without having excluded ranks that stem from a flattening "
                  "(guards: %s): the coordinates of every partition of a flattened rank are tuples, and the "
                  "emitted stamp subtracts two tuples - the program with the display crashes where the one "
                  "without it runs" % (norm(sb)[:60], [("" if p_ else "not ") + t_[:40] for t_, p_ in atoms]))

    # ---- D12: the dynamic name of a stamped rank exists whenever it is handed out ------
    rep.rule("D12", "Partitioning.get_dyn_rank returns a derived rank name only when that rank exists", 1)
    gd = db.func("teaal.ir.partitioning.Partitioning.get_dyn_rank")
    rp = gd.call_params[0]
    n_d12 = 0
    outs12 = []
    for r in [n for n in walk_no_nested(gd.node) if isinstance(n, ast.Return) and n.value is not None]:
        v0 = paths.resolve_flow(r.value, r, gd.node, depth=2)
        if isinstance(v0, ast.IfExp):
            # return A if T else B
            outs12.append((r, v0.body, [(v0.test, True)]))
            outs12.append((r, v0.orelse, [(v0.test, False)]))
        else:
            outs12.append((r, v0, []))
    for r, v, extra in outs12:
        if norm(v) == rp:
            continue                     # the rank itself: bound by its own loop
        n_d12 += 1
        vt = norm(v)
        tests = [(paths.inlined_text(a, gd.node), p_) for t, pol in list(paths.guards(r, stop=gd.node)) + extra
                 for a, p_ in paths.conjuncts(t, pol)]
        # membership of that very name: `RankNode(x) in graph.nodes` or networkx's has_node(RankNode(x))
        exists = any(p_ and vt in t_ and ((" in " in t_ and "not in" not in t_) or ".has_node(" in t_)
                     for t_, p_ in tests)
        graphy = bool(tests) and all(("RankNode" in t_ or "self.graph" in t_ or "is_flattened" in t_)
                                     for t_, _ in tests)
        rep.check("D12", exists, db.loc(r), gd.short, "dyn-rank:" + vt[:40],
                  "%s is returned only under a membership test of that very name" % vt[:40],
                  "Partitioning.get_dyn_rank hands out %s under %s, which does not establish that a rank of "
                  "that name exists (a rank whose only successor is a flattening has none): the access "
                  "point of the display reads a variable no loop binds" %
                  (vt[:40], [("" if p_ else "not ") + t_[:50] for t_, p_ in tests]), decided=graphy)
    if n_d12 < 1:
        raise AnalysisError("Partitioning.get_dyn_rank no longer derives a rank name")

    # ---- D11: coordinates that name a loop variable come from get_iter_ranks ---------
    rep.rule("D11", "a stamp coordinate that names a loop's variable is derived through get_iter_ranks", 1)
    rc = C_.methods.get("__rel_coord")
    if rc is None:
        raise AnalysisError("Canvas.__rel_coord not found")
    rank_param = rc.call_params[0]
    low = {n.targets[0].id for n in walk_no_nested(rc.node) if isinstance(n, ast.Assign) and
           isinstance(n.targets[0], ast.Name) and norm(n.value) == rank_param + ".lower()"}
    n_d11 = 0
    for r in [n for n in walk_no_nested(rc.node) if isinstance(n, ast.Return) and n.value is not None]:
        v = r.value
        # a bare EVar(<rank>.lower()) names the loop variable of that rank
        direct = [x for x in ast.walk(v) if isinstance(x, ast.Call) and norm(x.func) == "EVar" and x.args and
                  ((isinstance(x.args[0], ast.Name) and x.args[0].id in low) or
                   norm(x.args[0]) == rank_param + ".lower()")]
        if not direct:
            continue
        n_d11 += 1
        guarded = False
        for t, pol in paths.guards(r, stop=rc.node):
            txt = paths.inlined_text(t, rc.node)
            if "get_iter_ranks" in txt:
                guarded = True
        rep.check("D11", guarded, db.loc(r), rc.short, "loop-var-coord:" + norm(v)[:50],
                  "%s is returned only after consulting get_iter_ranks" % norm(v)[:40],
                  "Canvas.__rel_coord returns %s, naming the coordinate after the rank itself, without "
                  "consulting LoopOrder.get_iter_ranks: the loop over a flattened innermost rank binds one "
                  "variable per flattened rank, so the stamp reads a name no loop binds" % norm(v)[:50])
    if n_d11 < 1:
        raise AnalysisError("no loop-variable coordinate found in Canvas.__rel_coord")

    # ---- D9: displayed tensors are state-preserving copies --------------------------
    rep.rule("D9", "the canvas displays the tensors themselves or deep copies of them", 2)
    cc_ = C_.methods["create_canvas"]
    # (site, element expression, comprehension that binds its names or None)
    apps_ = []
    for n in walk_no_nested(cc_.node):
        if isinstance(n, ast.Call) and isinstance(n.func, ast.Attribute) and norm(n.func.value) == "self.tensors" \
                and n.args:
            if n.func.attr == "append":
                apps_.append((n, n.args[0], None))
    # (an extend(<comprehension>) form is deliberately not followed: the rules below - D5, D7, D3 -
    # were confirmed on the append form only, and answered wrongly on refactorings that use it)
    if len(apps_) < 2:
        raise AnalysisError("Canvas.create_canvas no longer appends to self.tensors")
    for a, v, comp_ in apps_:
        v0 = v
        ok = False
        if isinstance(v, ast.Call) and norm(v.func).split(".")[-1] == "deepcopy" and len(v.args) == 1:
            v = v.args[0]
            ok = True
        elif isinstance(v, ast.Call) and "get_output" in paths.called_names([v]) and not v.args:
            ok = True
        elif isinstance(v, ast.Name):
            ok = True
        if ok and isinstance(v, ast.Name):
            if comp_ is not None and any(v.id in {x.id for x in ast.walk(g_.target) if isinstance(x, ast.Name)}
                                         for g_ in comp_.generators):
                ok = any("get_tensors" in paths.called_names([paths.resolve_flow(g_.iter, a, cc_.node, depth=2)])
                         for g_ in comp_.generators)
            else:
                ok = any((isinstance(st, ast.For) and "get_tensors" in
                          paths.called_names([paths.resolve_flow(val, st, cc_.node, depth=2)])) or
                         (not isinstance(st, ast.For) and "get_output" in
                          paths.called_names([paths.resolve_flow(val, st, cc_.node, depth=2)]))
                         for st, val in paths.defs_of(cc_.node, v.id) if val is not None)
        rep.check("D9", ok, db.loc(a), cc_.short, "displayed:" + norm(v0)[:50],
                  "canvas displays %s" % norm(v0)[:50],
                  "Canvas.create_canvas displays %s, which is neither a tensor of the Einsum nor a deep copy "
                  "of one: state such as the flattened marker or the current rank pointer is lost, so the "
                  "canvas tensor and its activity points disagree" % norm(v0)[:60])

    # ---- D10: the slip counter is keyed by the displayed space stamp -----------------
    rep.rule("D10", "timestamps[...] is keyed by the space stamp that is displayed", 2)
    n_key = 0
    for f_ in (G.methods["make_body"], C_.methods["add_activity"]):
        for n in walk_no_nested(f_.node):
            if isinstance(n, ast.Call) and norm(n.func) in ("EAccess", "AAccess") and len(n.args) == 2 and \
                    norm(n.args[0]) == "EVar('timestamps')":
                n_key += 1
                key = paths.flow_text(n.args[1], n, f_.node)
                ok = key.endswith("get_space_tuple()")
                rep.check("D10", ok, db.loc(n), f_.short, "slip-key@" + f_.short,
                          "timestamps keyed by %s" % key,
                          "%s keys the slip counter by %s instead of the displayed space stamp "
                          "(get_space_tuple()): the counter restarts or is shared differently from the stamp, "
                          "so two activities can carry the same (space, time)" % (f_.short, key))
    if n_key < 2:
        raise AnalysisError("fewer than 2 timestamps[...] accesses found (%d)" % n_key)
    # and the stamp handed to addActivity starts with that same space tuple
    sp = [n for n in walk_no_nested(aa_.node) if isinstance(n, ast.Call) and norm(n.func) == "AParam" and
          n.args and isinstance(n.args[0], ast.Constant) and n.args[0].value == "spacetime"]
    ok = False
    if len(sp) == 1 and isinstance(sp[0].args[1], ast.Call) and norm(sp[0].args[1].func) == "ETuple":
        lst = sp[0].args[1].args[0]
        if isinstance(lst, ast.List) and len(lst.elts) == 2:
            ok = paths.flow_text(lst.elts[0], sp[0], aa_.node).endswith("get_space_tuple()")
    rep.check("D10", ok, db.loc(sp[0]) if sp else db.loc(aa_.node), aa_.short, "stamp-space",
              "the space component of the stamp is get_space_tuple()",
              "the stamp handed to addActivity does not start with the space tuple of get_space_tuple()")

    # ---- D4 --------------------------------------------------------------------
    rep.rule("D4", "one activity per update", 2)
    ok = True
    d4_found = False
    _compound = (ast.If, ast.For, ast.While, ast.With, ast.Try, ast.FunctionDef)
    for g_ in tn.cls.methods.values():
        for n in [g_.node] + list(walk_no_nested(g_.node)):
            # the innermost block that adds make_update() as a simple statement: an arm of the
            # dispatch or a helper's body (also when the helper has been inlined into the arm)
            for fld in ("body", "orelse", "finalbody"):
                blk = getattr(n, fld, None)
                if not isinstance(blk, list):
                    continue
                if not any(not isinstance(s, _compound) and "make_update()" in norm(s) for s in blk):
                    continue
                d4_found = True
                names = [norm(s) for s in blk]
                iu = [i for i, s in enumerate(names) if "make_update()" in s]
                ib = [i for i, s in enumerate(names) if "graphics.make_body()" in s]
                ok = ok and len(iu) == 1 and len(ib) == 1 and ib[0] == iu[0] + 1
    ok = ok and d4_found
    rep.check("D4", ok, db.loc(tn.node), tn.short, "update-then-activity",
              "the update arm adds make_update() and then graphics.make_body(), once each",
              "the arm of __trans_nodes that emits the update does not emit exactly one "
              "graphics.make_body() right after it: activities and updates no longer correspond one to one",
              decided=d4_found)
    mb = G.methods["make_body"]

    def is_act(n):
        return isinstance(n, ast.Call) and isinstance(n.func, ast.Attribute) and n.func.attr == "add_activity"
    acts = [n for n in walk_no_nested(mb.node) if is_act(n)]
    outs = paths.path_counts(mb.node.body, paths.make_pred(is_act))
    in_loop = any(isinstance(p, (ast.For, ast.While)) for a in acts for p in _parents(a, mb.node))
    ok = len(acts) == 1 and not in_loop and all(c <= 1 for c, k in outs) and \
        modes.site_modes(acts[0], mb) >= want
    # on the emitting path exactly one
    rep.check("D4", ok, db.loc(acts[0]) if acts else db.loc(mb.node), mb.short, "one-add_activity",
              "make_body reaches add_activity exactly once on its emitting path, outside loops",
              "Graphics.make_body does not call Canvas.add_activity exactly once per update")

    # ---- D5 --------------------------------------------------------------------
    rep.rule("D5", "one coordinate per rank of each displayed tensor, same tensor list as createCanvas", 2)
    C = db.cls("teaal.trans.canvas.Canvas")
    aa = C.methods["add_activity"]
    cc = C.methods["create_canvas"]
    # the per-rank comprehension  [build_access(r) for r in <t>.get_access()]  inside an iteration of
    # <t> over self.tensors (a for loop with one unguarded append, or an enclosing comprehension)
    inner5 = [c for c in ast.walk(aa.node) if isinstance(c, (ast.ListComp, ast.GeneratorExp)) and
              norm(c.generators[0].iter).endswith(".get_access()")]
    ok, clear_bad, why5 = False, False, "the per-rank comprehension over get_access() was not found"
    if len(inner5) == 1:
        c = inner5[0]
        g = c.generators[0]
        tv = norm(g.iter)[:-len(".get_access()")]
        filt = bool(g.ifs) or len(c.generators) != 1
        elt_ok = isinstance(c.elt, ast.Call) and c.elt.args and isinstance(c.elt.args[0], ast.Name) and \
            isinstance(g.target, ast.Name) and c.elt.args[0].id == g.target.id
        outer_iter, outer_filt = None, False
        for p_ in paths.parents(c, aa.node):
            if isinstance(p_, ast.For) and isinstance(p_.target, ast.Name) and p_.target.id == tv:
                outer_iter = (p_.iter, p_)
                apps = [n for n in ast.walk(p_) if isinstance(n, ast.Call) and
                        isinstance(n.func, ast.Attribute) and n.func.attr == "append"]
                etu = [n for n in ast.walk(p_) if isinstance(n, ast.Call) and norm(n.func) == "ETuple"]
                outer_filt = len(apps) != 1 or len(etu) != 1 or bool(paths.guards(apps[0], stop=p_))
                break
            if isinstance(p_, (ast.ListComp, ast.GeneratorExp)) and p_ is not c:
                gg = [x for x in p_.generators if isinstance(x.target, ast.Name) and x.target.id == tv]
                if gg:
                    outer_iter = (gg[0].iter, p_)
                    outer_filt = bool(gg[0].ifs) or len(p_.generators) != 1
                    break
        if outer_iter is not None:
            it_txt = paths.flow_text(outer_iter[0], outer_iter[1], aa.node)
            same = it_txt == "self.tensors"
            ok = bool(elt_ok) and not filt and not outer_filt and same
            clear_bad = filt or outer_filt
            why5 = "filter on the ranks" if filt else "filter / several appends on the tensors" if outer_filt else \
                "iterates %s" % it_txt[:40]
        else:
            why5 = "the iteration over the displayed tensors was not found"
    rep.check("D5", ok, db.loc(aa.node), aa.short, "access-per-rank",
              "add_activity: one ETuple per tensor of self.tensors, one element per rank of get_access(), no filter",
              "Canvas.add_activity no longer gives every displayed tensor a point with exactly one "
              "coordinate per rank of tensor.get_access() (%s)" % why5, decided=ok or clear_bad)
    comp = [n for n in walk_no_nested(cc.node) if isinstance(n, ast.ListComp) and
            norm(n.generators[0].iter) == "self.tensors" and not n.generators[0].ifs]
    used = any(isinstance(n, ast.Call) and norm(n.func) == "EFunc" and n.args and
               isinstance(n.args[0], ast.Constant) and n.args[0].value == "createCanvas" and
               len(n.args) == 2 and isinstance(n.args[1], ast.Name) and
               any(isinstance(st, ast.Assign) and val in comp for st, val in paths.defs_of(cc.node, n.args[1].id))
               for n in walk_no_nested(cc.node))
    rep.check("D5", bool(comp) and used, db.loc(cc.node), cc.short, "canvas-args",
              "createCanvas receives one argument per element of self.tensors (no filter)",
              "Canvas.create_canvas no longer passes exactly the tensors of self.tensors to createCanvas; "
              "the activity tuples would not line up with the canvas' tensors")


def check_pos_paths(db: DB, rep: Report, rid: str, hm) -> None:
    """Every normally returning path of the function that builds the loop
    payload (resp. the iteration expression) evaluates the predicate that
    decides about the *_pos variable (resp. the enumerate() wrapper): a path
    that returns without asking emits a loop whose target and iterator
    disagree, or leaves *_pos unbound."""
    E = db.cls("teaal.trans.equation.Equation")
    sites = [("*_pos payload", r) for r in hm.names.values()
             if r["role"] == "binder" and r["cls"] == "PVar" and any(key_of(t) == ("_pos",) for t in r["tmpls"])]
    sites += [("enumerate() wrapper", r) for r in hm.names.values()
              if r["role"] == "callee" and r["func"] is not None and r["func"].cls is E and
              any(show(t) == "enumerate" for t in r["tmpls"])]
    for what, rec in sites:
        f = rec["func"]
        calls = []
        for t, pol in paths.guards(rec["node"], stop=f.node):
            for a, p in paths.conjuncts(t, pol):
                if isinstance(a, ast.Name):
                    v = paths.reaching_def(a.id, a, f.node)
                    if v is not None:
                        a = v
                if isinstance(a, ast.Call) and isinstance(a.func, ast.Attribute) and p:
                    calls.append(a)
        if not calls:
            rep.check(rid, False, db.loc(rec["node"]), f.short, "paths:" + what, "",
                      "the %s in %s is not guarded by a predicate call" % (what, f.short), decided=False)
            continue
        pc = calls[-1]
        outs = paths.path_counts(f.node.body, paths.make_pred(lambda n: n is pc))
        bad = sorted((c, k) for c, k in outs if k in (paths.RET, paths.FALL) and c < 1)
        rep.check(rid, not bad, db.loc(rec["node"]), f.short, "paths:" + what,
                  "every returning path of %s evaluates %s before deciding on the %s" %
                  (f.short, norm(pc)[:40], what),
                  "%s has a returning path that never evaluates %s: the %s is left out on that path "
                  "whatever the predicate says, while its counterpart still follows the predicate "
                  "(the loop target and the iterator get different arity, or *_pos is read unbound)" %
                  (f.short, norm(pc)[:40], what))


def check_need_enumerate(db: DB, rep: Report, rid: str) -> None:
    """Every return of Equation.__need_enumerate is true whenever the
    coordinate-math (interval) condition is true: that local is a top-level
    disjunct of the returned expression and the return is unconditional."""
    ne = db.func("teaal.trans.equation.Equation.__need_enumerate")
    fn = ne.node
    flags = set()
    for n in walk_no_nested(fn):
        if isinstance(n, ast.Assign) and len(n.targets) == 1 and isinstance(n.targets[0], ast.Name) and \
                isinstance(n.value, ast.Constant) and n.value.value is True:
            gtxt = " ".join(norm(t) for t, _ in paths.guards(n, stop=fn))
            if "get_trans" in gtxt or "coord_math" in gtxt or "atoms" in gtxt:
                flags.add(n.targets[0].id)
    if len(flags) != 1:
        raise AnalysisError("interval condition of __need_enumerate not found (%s)" % sorted(flags))
    flag = next(iter(flags))
    rets = [n for n in walk_no_nested(fn) if isinstance(n, ast.Return) and n.value is not None]

    def implied(e: ast.AST) -> bool:
        if isinstance(e, ast.Name):
            if e.id == flag:
                return True
            v = paths.reaching_def(e.id, e, fn) if hasattr(e, "parent") else None
            return v is not None and implied(v)
        if isinstance(e, ast.BoolOp) and isinstance(e.op, ast.Or):
            return any(implied(v) for v in e.values)
        if isinstance(e, ast.BoolOp) and isinstance(e.op, ast.And):
            return all(implied(v) for v in e.values)
        return False
    for r in rets:
        g = paths.guards(r, stop=fn)
        ok = implied(r.value) and not g
        rep.check(rid, ok, db.loc(r), ne.short, "need-enumerate:" + norm(r.value)[:60],
                  "returns %s: true whenever '%s' (interval needs the position) is true" % (norm(r.value)[:50], flag),
                  "Equation.__need_enumerate can return false although '%s' is true (return %s%s): the interval "
                  "code of make_interval reads <rank>_pos but the loop neither enumerates nor binds it" %
                  (flag, norm(r.value)[:60], " under " + ", ".join(norm(t)[:40] for t, _ in g) if g else ""))


def _parents(n: ast.AST, stop: ast.AST):
    p = getattr(n, "parent", None)
    while p is not None and p is not stop:
        yield p
        p = getattr(p, "parent", None)


def mutants(db: DB):
    from sa.selftest import M
    gr, cv, eq, hf = ("teaal/trans/graphics.py", "teaal/trans/canvas.py", "teaal/trans/equation.py",
                      "teaal/trans/hifiber.py")
    return [
        M("revert F10 fix (upper partitions of a flattened rank)", "teaal/trans/canvas.py",
          "            if len(iter_ranks) > 1 or flattened:", "            if len(iter_ranks) > 1:", "D13"),
        M("dynamic rank name handed out whenever the rank has successors", "teaal/ir/partitioning.py",
          "        if RankNode(rank + \"0\") in self.graph.nodes:\n            return rank + \"0\"",
          "        if list(self.graph.successors(RankNode(rank))):\n            return rank + \"0\"", "D12"),
        M("header drops metrics conjunct", gr,
          "        if spacetime is not None and self.metrics is None:\n            header.add(self.canvas.create_canvas())",
          "        if spacetime is not None:\n            header.add(self.canvas.create_canvas())", "D2"),
        M("footer emits whenever spacetime", gr,
          "        if spacetime is not None and self.metrics is None:\n            return self.canvas.display_canvas()",
          "        if spacetime is not None:\n            return self.canvas.display_canvas()", "D2"),
        M("timestamps created without slip", gr,
          "            if spacetime.get_slip():\n                assign = SAssign(AVar(\"timestamps\"), EDict({}))\n                header.add(assign)",
          "            assign = SAssign(AVar(\"timestamps\"), EDict({}))\n            header.add(assign)", "D2"),
        M("graphics binds a computation name", cv, "        return SAssign(AVar(\"canvas\"), create)",
          "        return SAssign(AVar(self.tensors[-1].fiber_name()), create)", "D1"),
        M("computation reads the canvas", eq, "        end_else = SAssign(AVar(rank + \"_end\"), EVar(root.upper()))",
          "        end_else = SAssign(AVar(rank + \"_end\"), EVar(\"canvas\"))", "D1"),
        M("graphics calls a mutating API", cv, "        add = EMethod(EVar(\"canvas\"), \"addActivity\", args)",
          "        add = EMethod(EVar(\"canvas\"), \"setRankIds\", args)", "D1"),
        M("payload guarded by a different predicate", eq,
          "        if self.__need_enumerate(rank):\n            payload = PTuple([PVar(rank.lower() + \"_pos\"), payload])",
          "        if self.program.get_spacetime() is not None:\n            payload = PTuple([PVar(rank.lower() + \"_pos\"), payload])",
          "D3"),
        M("output-only loops skip enumerate", eq,
          "            iter_output = self.__make_output_only_iter_expr(rank)\n            return self.__add_enumerate(rank, iter_output)",
          "            iter_output = self.__make_output_only_iter_expr(rank)\n            return iter_output", "D3"),
        M("display decides about enumerate alone", eq,
          "        return enum_int or (enum_st and enum_metrics)",
          "        if spacetime is not None:\n            return enum_st and enum_metrics\n        return enum_int", "D6"),
        M("interval condition and-ed with metrics again", eq, "        return enum_int or (enum_st and enum_metrics)",
          "        return (enum_int or enum_st) and enum_metrics", "D6"),
        M("raw coordinate expression displayed", cv,
          "        # Now, we need to replace the roots with their dynamic names\n        for symbol in sexpr.atoms(Symbol):",
          "        if not part_ir.partition_rank((rank.upper(),)):\n            return CoordAccess.build_expr(sexpr)\n\n        # Now, we need to replace the roots with their dynamic names\n        for symbol in sexpr.atoms(Symbol):",
          "D7"),
        M("time tuple under slip with empty space", cv, "        if spacetime.get_slip():\n            bop = EBinOp(",
          "        if spacetime.get_slip() and spacetime.get_space():\n            bop = EBinOp(", "D8"),
        M("revert F6 fix (coordinate named after the rank)", cv,
          "                if len(iter_ranks) == 1:\n                    return EVar(rank_str)\n\n                return ETuple([EVar(iter_rank.lower())\n                               for iter_rank in iter_ranks])",
          "                return EVar(rank_str)", "D11"),
        M("canvas tensors rebuilt instead of copied", cv, "                self.tensors.append(deepcopy(tensor))",
          "                self.tensors.append(Tensor(tensor.root_name(), tensor.get_ranks()))", "D9"),
        M("slip counter keyed by the time tuple", gr, "                space_tup = self.canvas.get_space_tuple()",
          "                space_tup = self.canvas.get_time_tuple()", "D10"),
        M("activity moved to the footer arm", hf,
          "                    code.add(self.eqn.make_update())\n                    code.add(self.graphics.make_body())",
          "                    code.add(self.eqn.make_update())", "D4"),
        M("two activities per update", gr, "            body.add(self.canvas.add_activity())",
          "            body.add(self.canvas.add_activity())\n            body.add(self.canvas.add_activity())", "D4"),
        M("access comprehension filtered", cv,
          "            access = [self.__build_access(rank)\n                      for rank in tensor.get_access()]",
          "            access = [self.__build_access(rank)\n                      for rank in tensor.get_access() if rank]", "D5"),
        M("canvas built from a subset", cv, "        args = [AJust(EVar(tensor.tensor_name())) for tensor in self.tensors]",
          "        args = [AJust(EVar(tensor.tensor_name())) for tensor in self.tensors[:-1]]", "D5"),
    ]
