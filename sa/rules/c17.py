"""
C17 - specification text is parsed into exactly the structure written.

Decided (DESIGN.md section 3, C17: L1-L6):
  L1 each grammar string is LALR(1) conflict-free (one tree per token string)
  L2 every tree label a consumer tests is producible by the grammar it consumes
  L3 every directive alias is consumed, or the consuming dispatch ends in raise
  L4 default stamp style: bare NAME -> pos, ".pos" -> pos, ".coord" -> coord
  L5 sign normalisation of index coefficients has odd negation parity
  L6 NAME[0..N] stores int(N)+1 instances, NAME stores 1
Not decided: lexical corner cases of the dynamic Earley lexer, near-miss strings.

The grammar strings are read from the class bodies with ``ast`` (teaal is not
imported); lark (a runtime dependency of the repo, present in /venv) compiles
them.
"""

from __future__ import annotations

import ast
import re
from typing import Dict, List, Optional, Set, Tuple

from sa import paths
from sa.db import DB, AnalysisError, norm, walk_no_nested
from sa.fixtures import fixture
from sa.report import Report

# grammar id -> (module, class, attribute holding the grammar text)
GRAMMARS = {
    "equation": ("teaal.parse.equation", "EquationParser"),
    "partitioning": ("teaal.parse.partitioning", "PartitioningParser"),
    "spacetime": ("teaal.parse.spacetime", "SpaceTimeParser"),
    "level": ("teaal.parse.level", "LevelParser"),
}

# consumer module -> grammars whose trees reach it (table of module families)
FAMILY = {
    "teaal.parse.equation": ["equation"],
    "teaal.ir.equation": ["equation"],
    "teaal.ir.coord_math": ["equation"],
    "teaal.ir.program": ["equation"],
    "teaal.parse.mapping": ["partitioning", "ranks", "spacetime"],
    "teaal.ir.partitioning": ["partitioning", "ranks"],
    "teaal.trans.partitioner": ["partitioning", "ranks"],
    "teaal.ir.spacetime": ["spacetime"],
    "teaal.trans.canvas": ["spacetime"],
    "teaal.parse.arch": ["level"],
}

# directive rules whose every alias must be consumed (L3)
DIRECTIVES = {
    "partitioning": ["start", "size"],
    "spacetime": ["start"],
    "level": ["start"],
    "equation": ["num", "iterm", "term", "factor"],
}


def grammar_texts(db: DB) -> Dict[str, Tuple[str, ast.AST]]:
    """grammar id -> (text, node); every string passed to Lark(...) in a class body."""
    out: Dict[str, Tuple[str, ast.AST]] = {}
    for gid, (modname, clsname) in GRAMMARS.items():
        c = db.cls(modname + "." + clsname)
        strs: Dict[str, ast.AST] = {}
        for k, v in c.class_attrs.items():
            if isinstance(v, ast.Constant) and isinstance(v.value, str):
                strs[k] = v
        for k, v in c.class_attrs.items():
            if isinstance(v, ast.Call) and norm(v.func).split(".")[-1] == "Lark" and v.args:
                a = v.args[0]
                if isinstance(a, ast.Name) and a.id in strs:
                    name = gid
                    if gid == "partitioning":
                        name = "ranks" if "rank" in a.id else "partitioning"
                    out[name] = (strs[a.id].value, strs[a.id])
                    # options other than the default parser are noted
                elif isinstance(a, ast.Constant) and isinstance(a.value, str):
                    out[gid] = (a.value, a)
    return out


def compile_lalr(text: str):
    """Compile the grammar and run lark's LALR(1) analysis in strict mode:
    the default mode silently resolves shift/reduce conflicts by shifting, so
    only the strict analysis shows that the table has no conflict at all.
    (Lark(strict=True) itself also wants the optional `interegular` package for
    terminal-collision checks, which is not installed; the analyzer is called
    directly instead.)"""
    from lark import Lark
    from lark.common import ParserConf
    from lark.parsers.lalr_analysis import LALR_Analyzer
    lk = Lark(text, parser="lalr")
    an = LALR_Analyzer(ParserConf(lk.rules, {}, lk.options.start), strict=True)
    an.compute_lalr()
    return lk


def producible(lk) -> Tuple[Set[str], Dict[str, List[Tuple[Optional[str], List[str]]]]]:
    """Labels lark can put in Tree.data for this grammar, and per rule origin the
    (alias, expansion symbol names) list."""
    labels: Set[str] = set()
    per: Dict[str, List[Tuple[Optional[str], List[str]]]] = {}
    for r in lk.rules:
        origin = r.origin.name
        origin = getattr(origin, "value", origin)
        origin = str(origin)
        exp = [str(getattr(s.name, "value", s.name)) for s in r.expansion]
        per.setdefault(origin, []).append((r.alias, exp))
        if r.alias:
            labels.add(str(r.alias))
        elif not origin.startswith("_"):
            expand1 = bool(r.options and r.options.expand1)
            # a ?rule without alias is inlined only when it has exactly one child
            kept = [s for s in r.expansion if not (s.is_term and getattr(s, "filter_out", False))]
            if not (expand1 and len(kept) == 1):
                labels.add(origin)
    return labels, per


def label_sites(db: DB, modname: str):
    """(node, literal, kind) for every tree-label literal a module consumes."""
    m = db.modules.get(modname)
    if m is None:
        return []
    out = []

    def subject(a: ast.AST, at: ast.AST) -> ast.AST:
        """The value a local name stands for (label held in a local first)."""
        if isinstance(a, ast.Name):
            fi = db.func_of(at)
            if fi is not None:
                vals = [v for _, v in paths.defs_of(fi.node, a.id) if v is not None]
                if len(vals) == 1:
                    return vals[0]
        return a

    for n in ast.walk(m.tree):
        if isinstance(n, ast.Call) and isinstance(n.func, ast.Attribute):
            if n.func.attr == "find_data" and n.args and isinstance(n.args[0], ast.Constant):
                out.append((n, n.args[0].value, "find_data"))
            if n.func.attr in ("find_str", "find_int") and len(n.args) == 2 and \
                    isinstance(n.args[1], ast.Constant):
                out.append((n, n.args[1].value, n.func.attr))
        if isinstance(n, ast.Compare) and len(n.ops) == 1 and isinstance(n.ops[0], (ast.In, ast.NotIn)) and \
                isinstance(n.comparators[0], (ast.Set, ast.Tuple, ast.List)):
            left = subject(n.left, n)
            kind = None
            if isinstance(left, ast.Attribute) and left.attr == "data":
                kind = "data-compare"
            elif isinstance(left, ast.Call) and isinstance(left.func, ast.Attribute) and \
                    left.func.attr == "get_style":
                kind = "style-compare"
            for x in n.comparators[0].elts:
                if kind and isinstance(x, ast.Constant) and isinstance(x.value, str):
                    out.append((n, x.value, kind))
        if isinstance(n, ast.Compare) and len(n.ops) == 1 and isinstance(n.ops[0], (ast.In, ast.NotIn)) and \
                isinstance(n.left, ast.Constant) and isinstance(n.left.value, str):
            # '<label>' in [t.data for t in ...]
            coll = subject(n.comparators[0], n)
            if isinstance(coll, (ast.ListComp, ast.SetComp, ast.GeneratorExp)) and \
                    isinstance(coll.elt, ast.Attribute) and coll.elt.attr == "data":
                out.append((n, n.left.value, "data-compare"))
        if isinstance(n, ast.Compare) and len(n.ops) == 1 and len(n.comparators) == 1:
            l, r = n.left, n.comparators[0]
            for a, b in ((l, r), (r, l)):
                if isinstance(b, ast.Constant) and isinstance(b.value, str):
                    a = subject(a, n)
                    if isinstance(a, ast.Attribute) and a.attr == "data":
                        out.append((n, b.value, "data-compare"))
                    if isinstance(a, ast.Call) and isinstance(a.func, ast.Attribute) and \
                            a.func.attr == "get_style":
                        out.append((n, b.value, "style-compare"))
    return out


def _neg_parity(e: ast.AST, base_names: Set[str]) -> Optional[int]:
    """Parity of negations of int(<base>) in e, or None if e is not of that form."""
    if isinstance(e, ast.Call) and isinstance(e.func, ast.Name) and e.func.id == "int" and \
            len(e.args) == 1:
        a = e.args[0]
        if isinstance(a, ast.Name) and a.id in base_names:
            return 0
        return None
    if isinstance(e, ast.UnaryOp) and isinstance(e.op, ast.USub):
        p = _neg_parity(e.operand, base_names)
        return None if p is None else 1 - p
    if isinstance(e, ast.BinOp) and isinstance(e.op, ast.Mult):
        for a, b in ((e.left, e.right), (e.right, e.left)):
            c = _const_int(a)
            if c in (1, -1):
                p = _neg_parity(b, base_names)
                if p is not None:
                    return p if c == 1 else 1 - p
        return None
    if isinstance(e, ast.BinOp) and isinstance(e.op, ast.Sub) and _const_int(e.left) == 0:
        p = _neg_parity(e.right, base_names)
        return None if p is None else 1 - p
    return None


def _const_int(e: ast.AST) -> Optional[int]:
    if isinstance(e, ast.Constant) and isinstance(e.value, int) and not isinstance(e.value, bool):
        return e.value
    if isinstance(e, ast.UnaryOp) and isinstance(e.op, ast.USub):
        c = _const_int(e.operand)
        return None if c is None else -c
    return None


def _multi_part_terminals(text: str) -> List[str]:
    """Terminals (UPPER-case names) a grammar text defines as a sequence of two or more items."""
    out = []
    for m in re.finditer(r"^\s*([A-Z_][A-Z_0-9]*)(?:\.\d+)?\s*:\s*(.+)$", text, re.M):
        name, body = m.group(1), m.group(2)
        for alt in re.split(r"\|", body):
            items = re.findall(r'"(?:[^"\\]|\\.)*"i?|/(?:[^/\\]|\\.)+/[a-z]*|\[[^\]]*\]|\([^)]*\)[?*+]?|[A-Za-z_][A-Za-z_0-9]*[?*+]?',
                               alt)
            if len(items) >= 2:
                out.append("%s: %s" % (name, body.strip()))
                break
    # lark's common.SIGNED_NUMBER / SIGNED_INT / SIGNED_FLOAT are ["+"|"-"] followed by the number:
    # a sign glued to its digits inside one terminal
    for m in re.finditer(r"^\s*%import\s+common\.(SIGNED_[A-Z]+)(?:\s*->\s*([A-Z_][A-Z_0-9]*))?\s*$", text, re.M):
        out.append("%s (= common.%s: [\"+\"|\"-\"] followed by the number)" % (m.group(2) or m.group(1), m.group(1)))
    return out


@fixture("C17/L13 multi-part terminal matcher")
def _fx_l13() -> bool:
    return bool(_multi_part_terminals('  COEFF: ["-"] NUMBER\n')) and \
        bool(_multi_part_terminals('  %import common.SIGNED_NUMBER -> COEFF\n')) and \
        not _multi_part_terminals('  NUMBER: /[0-9]+/\n  ?num: NUMBER -> pos\n     | "-" NUMBER -> neg\n')


def run(db: DB, rep: Report) -> None:
    rep.explanation = (
        "The five lark grammar strings are read from the parser classes' bodies by ast and compiled "
        "with Lark(parser='lalr'): construction without a conflict shows each grammar is LALR(1), "
        "hence assigns exactly one tree to every token string it accepts. The labels lark's compiled "
        "rules can produce (aliases; rule names of non-inlined rules) are compared with every "
        "literal that consumers in teaal/parse, teaal/ir, teaal/trans pass to find_data/find_str/"
        "find_int or compare with Tree.data / SpaceTime.get_style; every directive alias must be "
        "consumed or its dispatch must end in raise. The three value-level post-parse rewrites are "
        "checked for form (default style, odd negation parity, int(N)+1).")
    rep.trusted += ["lark: LALR_Analyzer(strict=True).compute_lalr() raises on any shift/reduce or reduce/reduce conflict",
                    "lark: aliased expansions are never inlined; ?rule inlines single-child trees"]
    rep.assumptions += ["token-level ambiguity of the dynamic Earley lexer is not decided",
                        "grammar<->consumer association is the module-family table in sa/rules/c17.py"]

    texts = grammar_texts(db)
    rep.rule("L1", "each grammar is LALR(1) (conflict-free table construction)", 5)
    compiled = {}
    for gid in ("equation", "partitioning", "ranks", "spacetime", "level"):
        if gid not in texts:
            raise AnalysisError("grammar '%s' not found as a string passed to Lark(...)" % gid)
        text, node = texts[gid]
        try:
            lk = compile_lalr(text)
            compiled[gid] = lk
            rep.check("L1", True, db.loc(node), gid, "grammar:" + gid,
                      "grammar %s: %d rules, LALR(1) tables built" % (gid, len(lk.rules)))
        except Exception as e:  # lark GrammarError / conflict
            rep.check("L1", False, db.loc(node), gid, "grammar:" + gid,
                      "grammar %s is not LALR(1)" % gid,
                      "grammar '%s' cannot be compiled to a conflict-free LALR(1) table (%s: %s); "
                      "some token string may have more than one parse" %
                      (gid, type(e).__name__, str(e).splitlines()[0][:160]))
    labels = {}
    rules = {}
    for gid, lk in compiled.items():
        labels[gid], rules[gid] = producible(lk)

    # ---- L2 -----------------------------------------------------------------
    rep.rule("L2", "every label literal a consumer tests is producible by the grammar it consumes", 25)
    all_labels: Set[str] = set().union(*labels.values()) if labels else set()
    consumed: Dict[str, Set[str]] = {g: set() for g in labels}
    compared: Dict[str, Set[str]] = {g: set() for g in labels}
    for modname in sorted(db.modules):
        sites = label_sites(db, modname)
        if not sites:
            continue
        fam = FAMILY.get(modname)
        for node, lit, kind in sites:
            if fam is not None:
                allowed = set().union(*[labels.get(g, set()) for g in fam])
            else:
                allowed = all_labels
            fi = db.func_of(node)
            ok = lit in allowed
            rep.check("L2", ok, db.loc(node), fi.short if fi else modname, "%s:%s" % (kind, lit),
                      "%s '%s' in %s (grammars: %s)" % (kind, lit, modname, ",".join(fam or ["any"])),
                      "label '%s' is tested by %s but no grammar reaching this module can produce it "
                      "(producible: %s)" % (lit, modname, sorted(allowed)))
            for g in (fam or list(labels)):
                if lit in labels.get(g, set()):
                    consumed[g].add(lit)
                    if kind in ("data-compare", "style-compare") or kind == "find_data":
                        compared[g].add(lit)

    # ---- L3 -----------------------------------------------------------------
    rep.rule("L3", "every directive alias is consumed, or its dispatch ends in raise", 12)
    for gid, origins in DIRECTIVES.items():
        if gid not in rules:
            continue
        for origin in origins:
            if origin not in rules[gid]:
                rep.undecided("L3", db.loc(texts[gid][1]), gid + "." + origin,
                              "rule '%s' vanished from grammar %s" % (origin, gid))
                continue
            aliases = sorted({a for a, _ in rules[gid][origin] if a})
            # also the labels of unaliased sub-rules reachable as alternatives (factor: tensor)
            for a, exp in rules[gid][origin]:
                if not a and len(exp) == 1 and exp[0] in labels[gid]:
                    aliases.append(exp[0])
            missing = [a for a in aliases if a not in consumed[gid]]
            # one uncovered alias may be absorbed by a plain else of a two-way dispatch
            absorbed = None
            if len(missing) == 1:
                absorbed = _else_absorbs(db, gid, set(aliases) - set(missing))
            for a in aliases:
                ok = a in consumed[gid] or (absorbed is not None and a in missing)
                how = "consumed" if a in consumed[gid] else (
                    "absorbed by else at %s" % absorbed if ok else "not consumed")
                rep.check("L3", ok, db.loc(texts[gid][1]), gid + "." + origin, "alias:%s.%s" % (gid, a),
                          "%s/%s alias '%s': %s" % (gid, origin, a, how),
                          "the grammar can produce directive label '%s' (%s grammar, rule %s) but no "
                          "consumer tests for it and no dispatch rejects it: it would be silently "
                          "treated as another directive or ignored" % (a, gid, origin))

    # ---- L4 -----------------------------------------------------------------
    rep.rule("L4", "default stamp style: NAME -> pos, NAME '.pos' -> pos, NAME '.coord' -> coord", 3)
    if "spacetime" in compiled:
        lk = compiled["spacetime"]
        tpat = {t.name: t.pattern.value for t in lk.terminals}
        want = {(): "pos", (".pos",): "pos", (".coord",): "coord"}
        seen = {}
        for alias, exp in rules["spacetime"].get("start", []):
            suffix = tuple(tpat.get(s, s) for s in exp[1:]) if exp and exp[0] == "NAME" else None
            seen[suffix] = alias
        for suffix, alias in want.items():
            got = seen.get(suffix)
            rep.check("L4", got == alias, db.loc(texts["spacetime"][1]), "spacetime.start",
                      "stamp:NAME%s->%s" % ("".join(suffix), alias),
                      "stamp 'NAME%s' -> %s" % ("".join(suffix), got),
                      "spacetime stamp 'NAME%s' is labelled %r, the stated style is %r" %
                      ("".join(suffix), got, alias))

    # ---- L5 -----------------------------------------------------------------
    rep.rule("L5", "negative coefficient rewritten with odd negation parity; positive kept", 2)
    f = db.func("teaal.parse.equation.EquationParser.parse")
    _check_sign(db, rep, f)

    # ---- L7 / L8: the wrappers hand the text to the grammar and return its tree ---
    rep.rule("L7", "the text handed to each Lark parser is the caller's text, unmodified", 5)
    rep.rule("L8", "every result of a parse wrapper is the tree the grammar produced", 5)
    rep.rule("L9", "the raw text is read by the grammar only", 5)
    rep.rule("L10", "lark trees/tokens are constructed by the grammars only", 1)
    _check_wrappers(db, rep)
    # every specification string of the mapping goes through its grammar
    mp = db.func("teaal.parse.mapping.Mapping.__init__")
    for api, want in (("parse_ranks", 1), ("parse_partitioning", 1), ("parse", 1)):
        # (in the constructor or in the private helpers it delegates to)
        cs = []
        for g_ in ([mp] + [m_ for m_ in mp.cls.methods.values() if m_ is not mp and m_.name.startswith("__")
                           and not m_.name.endswith("__")]):
            for n in walk_no_nested(g_.node):
                if isinstance(n, ast.Call) and isinstance(n.func, ast.Attribute) and n.func.attr == api and \
                        norm(n.func.value) in ("PartitioningParser", "SpaceTimeParser"):
                    cs.append((n, g_))
        ok = len(cs) >= want and all(not [t for t, pol in paths.guards(c, stop=g_.node)
                                         if any(isinstance(x, ast.Name) and x.id in
                                                {a.id for a in ast.walk(c.args[0]) if isinstance(a, ast.Name)}
                                                for x in ast.walk(t))] for c, g_ in cs)
        cs = [c for c, _ in cs]
        rep.check("L10", ok, db.loc(cs[0]) if cs else db.loc(mp.node), mp.short, "mapping-uses:" + api,
                  "Mapping parses every entry with %s, unconditionally on the entry's text" % api,
                  "Mapping.__init__ does not hand every entry to %s (or does so only for some spellings of "
                  "the entry)" % api)

    # ---- L12: the YAML loader carries state between documents (a %YAML directive switches the
    # resolver for every later load): one loader per parse call
    rep.rule("L12", "every YAML document is loaded by a loader created for that call", 2)
    ym = db.modules.get("teaal.parse.yaml")
    if ym is None:
        raise AnalysisError("teaal/parse/yaml.py not found")
    n_l12 = 0
    for fi in db.all_functions(["teaal.parse.yaml."]):
        for n in walk_no_nested(fi.node):
            if isinstance(n, ast.Call) and isinstance(n.func, ast.Attribute) and n.func.attr in ("load", "load_all"):
                n_l12 += 1
                recv = n.func.value
                fresh = False
                if isinstance(recv, ast.Call) and norm(recv.func) == "YAML":
                    fresh = True
                elif isinstance(recv, ast.Name):
                    v = paths.reaching_def(recv.id, n, fi.node)
                    fresh = isinstance(v, ast.Call) and norm(v.func) == "YAML"
                rep.check("L12", fresh, db.loc(n), fi.short, "loader:" + norm(recv)[:40],
                          "%s loads with a loader created in this call" % fi.short,
                          "%s loads the document with %s, a loader that outlives the call: ruamel keeps the "
                          "%%YAML version directive of an earlier document on the loader, so the same "
                          "specification text is resolved differently (N, Y, On become booleans) depending on "
                          "what was parsed before" % (fi.short, norm(recv)[:40]))
    if n_l12 < 2:
        raise AnalysisError("fewer than 2 YAML load sites found in teaal/parse/yaml.py")

    # ---- L14: a level name that is rewritten in place is parsed once ----------------------
    rep.rule("L14", "a specification field overwritten with its parsed form is never parsed a second time", 1)
    ai = db.func("teaal.parse.arch.Architecture.__init__")
    n_l14 = 0
    for c in walk_no_nested(ai.node):
        if not (isinstance(c, ast.Call) and isinstance(c.func, ast.Attribute) and c.func.attr == "parse" and
                norm(c.func.value) == "LevelParser" and c.args and isinstance(c.args[0], ast.Subscript)):
            continue
        n_l14 += 1
        slot = norm(c.args[0])
        holder = c.args[0].value
        lps = [p_ for p_ in paths.parents(c, ai.node) if isinstance(p_, (ast.For, ast.While))]
        rewrites = [n for n in walk_no_nested(ai.node) if isinstance(n, ast.Assign) and
                    any(norm(t) == slot for t in n.targets) and lps and
                    any(p_ is lps[0] for p_ in paths.parents(n, ai.node))]
        ok = True
        why = ""
        if rewrites and isinstance(holder, ast.Name):
            # in-place rewrite: the dictionary must be recognised when it comes round again
            # (YAML aliases make one dictionary reachable along several paths)
            def seen_test(t: ast.AST) -> bool:
                return isinstance(t, ast.Compare) and len(t.ops) == 1 and isinstance(t.ops[0], (ast.In, ast.NotIn)) \
                    and isinstance(t.left, ast.Call) and norm(t.left.func) == "id" and \
                    norm(t.left.args[0]) == holder.id
            guarded = any(seen_test(a) and (isinstance(a.ops[0], ast.NotIn) == p_)
                          for t, pol in paths.guards(c, stop=ai.node) for a, p_ in paths.conjuncts(t, pol))
            ok = guarded
            why = "%s is overwritten at %s with the parsed name" % (slot, db.loc(rewrites[0]))
        rep.check("L14", ok, db.loc(c), ai.short, "parse-once:" + slot,
                  "%s is parsed at most once per dictionary" % slot,
                  "Architecture.__init__ parses %s and %s, but nothing keeps a dictionary that is reachable "
                  "twice (a YAML alias shared by two configurations or two parents) from being processed "
                  "again: the second visit parses the rewritten name, so 'PE[0..7]' ends with 1 instance "
                  "instead of 8" % (slot, why))
    if n_l14 < 1:
        raise AnalysisError("LevelParser.parse(<tree>[...]) not found in Architecture.__init__")
    # ... and the dictionary that is rewritten is the parser's own copy, not the caller's: a second
    # Architecture built from the same loaded dictionary must see the names as they were written
    stores = [n for n in walk_no_nested(ai.node) if isinstance(n, ast.Assign) and
              any(isinstance(t, ast.Subscript) for t in n.targets)]
    keeps = [n for n in walk_no_nested(ai.node) if isinstance(n, ast.Assign) and len(n.targets) == 1 and
             norm(n.targets[0]) == "self.yaml" and not (isinstance(n.value, ast.Constant) and n.value.value is None)]
    if stores and keeps:
        v = keeps[-1].value
        fresh = isinstance(v, ast.Call) and norm(v.func) in ("deepcopy", "copy.deepcopy") and v.args and \
            isinstance(v.args[0], ast.Name) and v.args[0].id in ai.call_params
        bare = isinstance(v, ast.Name) and v.id in ai.call_params
        rep.check("L14", fresh, db.loc(keeps[-1]), ai.short, "private-copy:self.yaml",
                  "the dictionary whose names are rewritten is a deep copy of the caller's",
                  "Architecture.__init__ rewrites level names (%d in-place stores) in the very dictionary the "
                  "caller handed in (%s): a second Architecture built from the same loaded dictionary parses "
                  "the rewritten names - every 'PE[0..7]' has become 'PE' with one instance" %
                  (len(stores), norm(keeps[-1])), decided=fresh or bare)

    # ---- L13: whitespace between tokens is insignificant everywhere ----------------------
    rep.rule("L13", "every grammar ignores inline whitespace and defines no multi-part terminal", 5)
    for gid, (text, node) in sorted(texts.items()):
        ign = bool(re.search(r"^\s*%ignore\s+WS_INLINE\s*$", text, re.M)) and \
            bool(re.search(r"^\s*%import\s+common\.WS_INLINE\s*$", text, re.M))
        multi = _multi_part_terminals(text)
        rep.check("L13", ign and not multi, db.loc(node), gid, "whitespace:" + gid,
                  "grammar %s: %%ignore WS_INLINE, no multi-part terminal" % gid,
                  "grammar '%s' %s: whitespace is not ignored *inside* a terminal, so two spellings of one "
                  "directive that differ only in blanks (e.g. '-1' and '- 1') are no longer parsed alike" %
                  (gid, ("defines the terminal %s as a sequence of several parts" % multi[0]) if multi
                   else "no longer ignores inline whitespace"))

    # ---- L11: terminals accept what the property's strings need ---------------------
    rep.rule("L11", "NUMBER accepts every unsigned integer literal, NAME exactly identifiers", 7)
    import re as _re
    for gid, lk in compiled.items():
        for t in lk.terminals:
            if t.name == "NUMBER":
                rx = _re.compile(t.pattern.to_regexp())
                bad = [x for x in ("0", "7", "10", "015", "256") if not rx.fullmatch(x)]
                rep.check("L11", not bad, db.loc(texts[gid][1]), gid, "terminal:%s.NUMBER" % gid,
                          "%s grammar: NUMBER accepts 0, 7, 10, 015, 256" % gid,
                          "the NUMBER terminal of the %s grammar (%s) rejects %s: sizes, coefficients or "
                          "instance bounds that were legal text are no longer parsed" %
                          (gid, t.pattern.to_regexp()[:40], bad))
            if t.name == "NAME":
                rx = _re.compile(t.pattern.to_regexp())
                bad = [x for x in ("K", "K1", "_x", "MK00", "a") if not rx.fullmatch(x)] + \
                      [x for x in ("2K", "K M", "K-1", "", " K") if rx.fullmatch(x)]
                rep.check("L11", not bad, db.loc(texts[gid][1]), gid, "terminal:%s.NAME" % gid,
                          "%s grammar: NAME accepts identifiers and nothing else" % gid,
                          "the NAME terminal of the %s grammar (%s) mis-classifies %s" %
                          (gid, t.pattern.to_regexp()[:40], bad))

    # ---- L6 -----------------------------------------------------------------
    rep.rule("L6", "NAME[0..N] stores int(N)+1 instances; NAME stores 1", 2)
    _check_range(db, rep)


def _check_wrappers(db: DB, rep: Report) -> None:
    n_wrap = 0
    for gid, (modname, clsname) in GRAMMARS.items():
        c = db.cls(modname + "." + clsname)
        lark_attrs = {k for k, v in c.class_attrs.items()
                      if isinstance(v, ast.Call) and norm(v.func).split(".")[-1] == "Lark"}
        for nm, f in sorted(c.methods.items()):
            calls = [n for n in walk_no_nested(f.node) if isinstance(n, ast.Call) and
                     isinstance(n.func, ast.Attribute) and n.func.attr == "parse" and
                     isinstance(n.func.value, ast.Attribute) and n.func.value.attr in lark_attrs]
            if not calls and not nm.startswith("parse"):
                continue
            n_wrap += 1
            params = f.call_params
            for call in calls:
                ok = len(call.args) == 1 and isinstance(call.args[0], ast.Name) and call.args[0].id in params \
                    and not any(isinstance(x, ast.Name) and isinstance(x.ctx, ast.Store) and
                                x.id == call.args[0].id for x in walk_no_nested(f.node))
                rep.check("L7", ok, db.loc(call), f.short, "parser-input:" + f.short,
                          "%s parses its parameter as given (%s)" % (f.short, norm(call.args[0]) if call.args else "?"),
                          "%s hands %s to the grammar instead of the text it was given: pre-processing can "
                          "turn text outside the grammar into text inside it (or change what is parsed)" %
                          (f.short, norm(call.args[0])[:60] if call.args else "nothing"))
            # every return is (a local bound only to) the parser's result
            rets = [n for n in walk_no_nested(f.node) if isinstance(n, ast.Return)]
            tree_names = set()
            for n in walk_no_nested(f.node):
                if isinstance(n, ast.Assign) and len(n.targets) == 1 and isinstance(n.targets[0], ast.Name) \
                        and n.value in calls:
                    tree_names.add(n.targets[0].id)
            for nm_ in list(tree_names):
                others = [v for st, v in paths.defs_of(f.node, nm_) if v is not None and v not in calls]
                # in-place normalisation of the tree (tree.children = ...) is not a rebinding
                if any(isinstance(st, (ast.Assign, ast.AnnAssign)) and isinstance(
                        (st.targets[0] if isinstance(st, ast.Assign) else st.target), ast.Name)
                       for st, v in paths.defs_of(f.node, nm_) if v is not None and v not in calls):
                    tree_names.discard(nm_)
            ok = bool(rets) and bool(calls)
            for r in rets:
                v = r.value
                if v in calls:
                    continue
                if isinstance(v, ast.Name) and v.id in tree_names:
                    continue
                ok = False
            rep.check("L8", ok, db.loc(f.node), f.short, "parser-output:" + f.short,
                      "%s returns the grammar's tree on every path" % f.short,
                      "%s has a return that is not the result of its Lark parser (%s): some input text "
                      "bypasses the grammar" % (f.short, [norm(r.value)[:50] for r in rets if r.value not in calls
                                                          and not (isinstance(r.value, ast.Name) and r.value.id in tree_names)]))
    if n_wrap < 5:
        raise AnalysisError("only %d parse wrappers found (floor 5)" % n_wrap)
    # L9: the text is consumed by the grammar only - no other read of the text parameter
    for gid, (modname, clsname) in GRAMMARS.items():
        c = db.cls(modname + "." + clsname)
        lark_attrs = {k for k, v in c.class_attrs.items()
                      if isinstance(v, ast.Call) and norm(v.func).split(".")[-1] == "Lark"}
        for nm, f in sorted(c.methods.items()):
            calls = [n for n in walk_no_nested(f.node) if isinstance(n, ast.Call) and
                     isinstance(n.func, ast.Attribute) and n.func.attr == "parse" and
                     isinstance(n.func.value, ast.Attribute) and n.func.value.attr in lark_attrs]
            if not calls or not f.call_params:
                continue
            text = f.call_params[0]
            other = [n for n in walk_no_nested(f.node) if isinstance(n, ast.Name) and n.id == text and
                     isinstance(n.ctx, ast.Load) and not any(n is a for c_ in calls for a in c_.args)]
            rep.check("L9", not other, db.loc(other[0]) if other else db.loc(f.node), f.short,
                      "text-only-to-grammar:" + f.short,
                      "%s uses its text parameter only as the grammar's input" % f.short,
                      "%s inspects its raw text parameter '%s' besides handing it to the grammar (at %s): the "
                      "result then depends on the spelling of the text (whitespace, brackets) and not only on "
                      "the tree the grammar produced" % (f.short, text, db.loc(other[0]) if other else "?"))
    # L10: parse trees are produced by the grammars only
    allowed_token = "teaal.parse.equation.EquationParser.parse"
    for g in db.functions.values():
        for n in walk_no_nested(g.node):
            if isinstance(n, ast.Call) and isinstance(n.func, ast.Name) and n.func.id in ("Tree", "Token"):
                ent = g.module.ns.get(n.func.id)
                if not (ent and ent[0] == "ext" and "lark" in str(ent[1])):
                    continue
                ok = n.func.id == "Token" and g.qualname == allowed_token
                rep.check("L10", ok, db.loc(n), g.short, "constructed:%s@%s" % (n.func.id, g.short),
                          "%s constructed in %s (the documented coefficient rewrite)" % (n.func.id, g.short),
                          "%s builds a lark %s by hand (%s): that part of the specification is not parsed by "
                          "its grammar, so text outside the grammar is accepted and whitespace is kept" %
                          (g.short, n.func.id, norm(n)[:60]))


def _else_absorbs(db: DB, gid: str, covered: Set[str]) -> Optional[str]:
    """Location of an if/else on .data whose compared literals are exactly
    ``covered`` and whose else branch is not a raise (so it handles the rest)."""
    for modname, fam in FAMILY.items():
        if gid not in fam or modname not in db.modules:
            continue
        for n in ast.walk(db.modules[modname].tree):
            if not isinstance(n, ast.If):
                continue
            # "if X.data != <lit>: <handle the rest>" / "if X.data not in {...}:"
            t0 = n.test
            if isinstance(t0, ast.Compare) and len(t0.ops) == 1 and \
                    isinstance(t0.ops[0], (ast.NotEq, ast.NotIn)):
                l0, r0 = t0.left, t0.comparators[0]
                neg: Set[str] = set()
                if isinstance(t0.ops[0], ast.NotEq):
                    for a, b in ((l0, r0), (r0, l0)):
                        if isinstance(a, ast.Attribute) and a.attr == "data" and isinstance(b, ast.Constant):
                            neg.add(b.value)
                elif isinstance(l0, ast.Attribute) and l0.attr == "data" and \
                        isinstance(r0, (ast.Set, ast.Tuple, ast.List)):
                    neg = {x.value for x in r0.elts if isinstance(x, ast.Constant)}
                if neg and neg == covered and not any(isinstance(x, ast.Raise) for x in n.body):
                    return db.loc(n)
            if not n.orelse:
                continue
            lits = set()
            cur: ast.AST = n
            els: List[ast.stmt] = []
            while isinstance(cur, ast.If):
                t = cur.test
                lit = None
                if isinstance(t, ast.Compare) and len(t.ops) == 1 and isinstance(t.ops[0], ast.Eq):
                    for a, b in ((t.left, t.comparators[0]), (t.comparators[0], t.left)):
                        if isinstance(a, ast.Attribute) and a.attr == "data" and \
                                isinstance(b, ast.Constant):
                            lit = b.value
                if lit is None:
                    break
                lits.add(lit)
                els = cur.orelse
                cur = cur.orelse[0] if len(cur.orelse) == 1 and isinstance(cur.orelse[0], ast.If) else None
            if lits == covered and els and not paths.always_exits(els):
                return db.loc(n)
            if lits == covered and els and isinstance(els[0], ast.If) is False and \
                    not any(isinstance(s, ast.Raise) for s in els):
                return db.loc(n)
    return None


class _Subst(ast.NodeTransformer):
    def __init__(self, env: Dict[str, ast.AST]):
        self.env = env

    def visit_Name(self, node: ast.Name):
        if isinstance(node.ctx, ast.Load) and node.id in self.env:
            return paths.clone(self.env[node.id])
        return node


def _subst(e: ast.AST, env: Dict[str, ast.AST]) -> ast.AST:
    return _Subst(env).visit(paths.clone(e))


def _sign_paths(stmts: List[ast.stmt], env: Dict[str, ast.AST], conds: List[Tuple[str, bool]],
                stores: List[Tuple[ast.stmt, str, ast.AST]], out: List, budget: List[int]) -> bool:
    """Enumerate the paths of one loop iteration; every finished path is
    appended to ``out`` as (conds, stores, odd statement or None).  Returns
    False when the path ended (raise/continue/...)."""
    for k, st in enumerate(stmts):
        budget[0] -= 1
        if budget[0] < 0:
            out.append((conds, stores, st))
            return False
        if isinstance(st, (ast.Assert, ast.Pass)) or \
                (isinstance(st, ast.Expr) and isinstance(st.value, ast.Constant)):
            continue
        if isinstance(st, ast.AnnAssign) and st.value is None:
            continue
        if isinstance(st, (ast.Assign, ast.AnnAssign)):
            tgt = st.targets[0] if isinstance(st, ast.Assign) else st.target
            if isinstance(st, ast.Assign) and len(st.targets) != 1:
                out.append((conds, stores, st))
                return False
            val = _subst(st.value, env)
            if isinstance(tgt, ast.Name):
                env = dict(env)
                env[tgt.id] = val
                continue
            if isinstance(tgt, ast.Subscript):
                stores = stores + [(st, norm(_subst(tgt, env)), val)]
                continue
            out.append((conds, stores, st))
            return False
        if isinstance(st, ast.If):
            test = _subst(st.test, env)
            for branch, pol in ((st.body, True), (st.orelse, False)):
                cs = conds + [(norm(a), p) for a, p in paths.conjuncts(test, pol)]
                # a branch continues with the statements after the if
                _sign_paths(list(branch) + list(stmts[k + 1:]), env, cs, stores, out, budget)
            return False
        if isinstance(st, ast.Raise):
            return False
        if isinstance(st, (ast.Continue, ast.Break)):
            out.append((conds, stores, None))
            return False
        # anything else (nested loops, calls with effects, returns) is not modelled
        out.append((conds, stores, st))
        return False
    out.append((conds, stores, None))
    return True


def _neg_parity_expr(e: ast.AST, base: str) -> Optional[int]:
    """Parity of negations of int(<base expression>) in e (None: another form)."""
    if isinstance(e, ast.Call) and isinstance(e.func, ast.Name) and e.func.id == "int" and len(e.args) == 1:
        return 0 if norm(e.args[0]) == base else None
    if isinstance(e, ast.UnaryOp) and isinstance(e.op, ast.USub):
        p = _neg_parity_expr(e.operand, base)
        return None if p is None else 1 - p
    if isinstance(e, ast.BinOp) and isinstance(e.op, ast.Mult):
        for a, b in ((e.left, e.right), (e.right, e.left)):
            c = _const_int(a)
            if c in (1, -1):
                p = _neg_parity_expr(b, base)
                if p is not None:
                    return p if c == 1 else 1 - p
        return None
    if isinstance(e, ast.BinOp) and isinstance(e.op, ast.Sub) and _const_int(e.left) == 0:
        p = _neg_parity_expr(e.right, base)
        return None if p is None else 1 - p
    return None


def _check_sign(db: DB, rep: Report, f) -> None:
    """L5 on every path of one iteration of the coefficient loop: with X the
    'num' subtree (first child of the itimes tree), X.data == 'pos' keeps
    X.children[0]; otherwise the child becomes Token('NUMBER',
    str(<odd number of negations of int(X.children[0])>))."""
    import re
    fn = f.node
    loops = [n for n in walk_no_nested(fn) if isinstance(n, ast.For) and isinstance(n.target, ast.Name)
             and any(isinstance(c, ast.Constant) and c.value == "itimes" for c in ast.walk(n.iter))]
    if len(loops) != 1:
        rep.undecided("L5", db.loc(fn), f.short, "EquationParser.parse: the loop over find_data('itimes') was not found")
        return
    lp = loops[0]
    child = "%s.children[0]" % lp.target.id         # X
    out: List = []
    _sign_paths(list(lp.body), {}, [], [], out, [400])
    for conds, stores, odd in out:
        sign: Optional[str] = None
        for a, pol in conds:
            m = re.fullmatch(re.escape(child) + r"\.data (==|!=) '(pos|neg)'", a)
            if m:
                is_lit = (m.group(1) == "==") == pol
                sign = m.group(2) if is_lit else ("neg" if m.group(2) == "pos" else "pos")
        where = db.loc(stores[-1][0]) if stores else db.loc(lp)
        desc = " and ".join(("" if p else "not ") + a for a, p in conds) or "always"
        mine = [x for x in stores if x[1] == child]
        if odd is not None or sign is None or len(mine) != 1:
            rep.check("L5", False, where, f.short, "path:" + desc[:60], "",
                      "the coefficient rewrite on the path [%s] has a form this rule does not model (%s)" %
                      (desc[:80], "statement " + norm(odd)[:60] if odd is not None else
                       "sign test not recognised" if sign is None else
                       "%d writes of %s" % (len(mine), child)), decided=False)
            continue
        st, _, val = mine[0]
        tok = child + ".children[0]"
        if sign == "pos":
            rep.check("L5", norm(val) == tok, db.loc(st), f.short, "pos:" + norm(val)[:60],
                      "positive coefficient kept: %s = %s" % (child, norm(val)[:50]),
                      "a positive coefficient is not written back as the NUMBER token itself (%s)" % norm(val)[:60])
        else:
            parity = None
            recognised = False
            if isinstance(val, ast.Call) and norm(val.func) == "Token" and len(val.args) == 2 and \
                    isinstance(val.args[0], ast.Constant) and val.args[0].value == "NUMBER":
                inner = val.args[1]
                if isinstance(inner, ast.Call) and isinstance(inner.func, ast.Name) and \
                        inner.func.id == "str" and len(inner.args) == 1:
                    parity = _neg_parity_expr(inner.args[0], tok)
                    recognised = parity is not None
            if norm(val) == tok:
                recognised, parity = True, 0
            rep.check("L5", parity == 1, db.loc(st), f.short, "neg:" + norm(val)[:60],
                      "negative coefficient: %s (negation parity %s)" % (norm(val)[:60], parity),
                      "the token written back for a '-N' coefficient is not an odd number of "
                      "negations of int(N): the sign (or the value) of the coefficient changes (%s)" %
                      norm(val)[:80], decided=recognised)
    # L5b: whatever the form, a value written back into the tree depends only on
    # locals set within the same term's iteration
    for lp in [n for n in walk_no_nested(fn) if isinstance(n, ast.For)]:
        stores = [x for s_ in lp.body for x in ast.walk(s_) if isinstance(x, ast.Assign) and
                  isinstance(x.targets[0], ast.Subscript) and "children" in norm(x.targets[0])]
        assigned = {x.id for s_ in lp.body for x in ast.walk(s_)
                    if isinstance(x, ast.Name) and isinstance(x.ctx, ast.Store)}
        targets = {x.id for x in ast.walk(lp.target) if isinstance(x, ast.Name)}
        for st in stores:
            for nm in sorted((paths.load_names(st.value) & assigned) - targets):
                def is_def(n, nm=nm):
                    if isinstance(n, (ast.Assign, ast.AnnAssign, ast.AugAssign)):
                        ts = n.targets if isinstance(n, ast.Assign) else [n.target]
                        return any(isinstance(t, ast.Name) and t.id == nm for t in ts)
                    return False
                bad = paths.must_precede(lp.body, is_def, lambda n: n is st)
                rep.check("L5", not bad, db.loc(st), f.short, "fresh:%s@%s" % (nm, norm(st.targets[0])),
                          "'%s' used in the rewrite %s is set within the same term" % (nm, norm(st)[:50]),
                          "the token written back by '%s' depends on '%s', which is not assigned on every path "
                          "of the current term's iteration: the sign (or value) of one coefficient leaks into "
                          "the next" % (norm(st)[:70], nm))


def _check_range(db: DB, rep: Report) -> None:
    """Every value that can be stored as a level's instance count is either the
    constant 1 (not under the 'multiple' test) or int(<second child of the name
    tree>) + 1 under the 'multiple' test."""
    f = db.func("teaal.parse.arch.Architecture.__init__")
    fn = f.node
    defs = paths.single_assignments(fn)
    tree_names = {k for k, v in defs.items() if "LevelParser" in norm(v) or "parse" in paths.called_names([v])}
    stores = [n for n in walk_no_nested(fn) if isinstance(n, ast.Assign) and
              isinstance(n.targets[0], ast.Subscript) and isinstance(n.targets[0].slice, ast.Constant)
              and n.targets[0].slice.value == "num"]
    if not stores:
        raise AnalysisError("no store of a level's instance count (['num']) in Architecture.__init__")

    def lits(node: ast.AST) -> Set[str]:
        """'single'/'multiple' literals the node is positively guarded by"""
        out = set()
        for t, pol in paths.guards(node, stop=fn):
            for a, p in paths.conjuncts(t, pol):
                if isinstance(a, ast.Compare) and isinstance(a.left, ast.Attribute) and a.left.attr == "data" \
                        and len(a.ops) == 1 and isinstance(a.comparators[0], ast.Constant):
                    eq = isinstance(a.ops[0], ast.Eq)
                    if eq == p:
                        out.add(a.comparators[0].value)
        return out

    def multiple_form(v: ast.AST, at: ast.AST) -> bool:
        if isinstance(v, ast.BinOp) and isinstance(v.op, ast.Add):
            for a, b in ((v.left, v.right), (v.right, v.left)):
                if _const_int(b) == 1 and isinstance(a, ast.Call) and isinstance(a.func, ast.Name) and \
                        a.func.id == "int" and a.args:
                    src = paths.resolve_flow(a.args[0], at, fn, depth=1)
                    if isinstance(src, ast.Subscript) and _const_int(src.slice) == 1 and \
                            isinstance(src.value, ast.Attribute) and src.value.attr == "children" and \
                            isinstance(src.value.value, ast.Name) and src.value.value.id in tree_names:
                        return True
        return False
    cands = []     # (literal guards, value expr, statement)
    for st in stores:
        if isinstance(st.value, ast.Name):
            for d, val in paths.defs_of(fn, st.value.id):
                if val is not None and isinstance(d, (ast.Assign, ast.AnnAssign)):
                    cands.append((lits(d) | lits(st), val, d))
        else:
            cands.append((lits(st), st.value, st))
    seen = set()
    for g, val, st in cands:
        if "multiple" in g:
            ok = multiple_form(val, st)
            seen.add("multiple")
            rep.check("L6", ok, db.loc(st), f.short, "num:multiple=" + norm(val),
                      "level 'NAME[0..N]' stores num = %s" % norm(val),
                      "a level name of kind 'multiple' must store int(N) + 1 instances, found: %s" % norm(val))
        else:
            ok = _const_int(val) == 1
            seen.add("single")
            rep.check("L6", ok, db.loc(st), f.short, "num:single=" + norm(val),
                      "level 'NAME' stores num = %s" % norm(val),
                      "a plainly named level must store 1 instance, found: %s (not under the 'multiple' "
                      "test)" % norm(val))
    if seen != {"single", "multiple"}:
        raise AnalysisError("level-name dispatch (single/multiple) not found in Architecture.__init__")


def mutants(db: DB):
    from sa.selftest import M
    eq, pt, st, lv = ("teaal/parse/equation.py", "teaal/parse/partitioning.py",
                      "teaal/parse/spacetime.py", "teaal/parse/level.py")
    return [
        M("revert F9 fix (the caller's dictionary is rewritten)", "teaal/parse/arch.py",
          "        self.yaml = deepcopy(yaml)", "        self.yaml = yaml", "L14"),
        M("revert F7 fix (aliased level parsed twice)", "teaal/parse/arch.py",
          "                if id(tree) in parsed:\n                    continue\n                parsed.add(id(tree))\n", "", "L14"),
        M("one shared YAML loader", "teaal/parse/yaml.py",
          "        yaml = YAML(typ='safe', pure=True)\n        return yaml.load(string)",
          "        return _LOADER.load(string)", "L12"),
        M("sign lexed into the number terminal", "teaal/parse/equation.py",
          "        ?num: NUMBER -> pos\n            | \"-\" NUMBER -> neg\n",
          "        ?num: SNUM -> pos\n        SNUM: [\"-\"] NUMBER\n", "L13"),
        M("ambiguous iterm alternative", eq, '              | num "*" NAME -> itimes\n',
          '              | num "*" NAME -> itimes\n              | NAME -> ijust2\n', ("L1", "L3")),
        M("ambiguous expr (right+left recursion)", eq, '?expr: (term "+")* term -> plus',
          '?expr: (term "+")* term -> plus\n             | expr "+" expr -> plus', "L1"),
        M("rename alias grammar side only (itimes)", eq, "-> itimes", "-> itimes2", ("L2", "L3")),
        M("rename alias grammar side only (take)", eq, '")" -> take', '")" -> take_', ("L2", "L3")),
        M("rename alias grammar side only (leader)", pt, "?leader: NAME -> leader", "?leader: NAME -> lead", "L2"),
        M("rename alias (int_sz)", pt, "NUMBER -> int_sz", "NUMBER -> int_size", ("L2", "L3")),
        M("sixth directive in grammar only", pt, '              | "follow(" leader ")" -> follow\n',
          '              | "follow(" leader ")" -> follow\n              | "nway_occupancy(" size ")" -> nway_occupancy\n',
          "L3"),
        M("consumer tests unknown label", "teaal/ir/partitioning.py", 'part.data == "flatten"',
          'part.data == "flattened"', ("L2", "L3")),
        M("default style becomes coord", st, "?start: NAME -> pos", "?start: NAME -> coord", "L4"),
        M(".pos labelled coord", st, 'NAME ".pos" -> pos', 'NAME ".pos" -> coord', "L4"),
        M("third style in grammar only", st, '              | NAME ".coord" -> coord\n',
          '              | NAME ".coord" -> coord\n              | NAME ".abs" -> abs\n', "L3"),
        M("neg: sign lost", eq, "str(-1 * int(pos))", "str(int(pos))", "L5"),
        M("neg: double negation", eq, "str(-1 * int(pos))", "str(-1 * -int(pos))", "L5"),
        M("pos: wrong child", eq, "itimes.children[0] = num.children[0]", "itimes.children[0] = num.children[-1]",
          "L5"),
        M("whitespace squashed before parsing", pt,
          "        return PartitioningParser.ranks_parser.parse(info)", "        return PartitioningParser.ranks_parser.parse(\"\".join(info.split()))",
          "L7"),
        M("level fast path bypasses the grammar", lv, "        return LevelParser.parser.parse(info)",
          "        if \"[\" not in info:\n            return Tree(\"single\", [info])\n        return LevelParser.parser.parse(info)", "L8"),
        M("sticky sign variable", eq,
          "            if num.data == \"pos\":\n                itimes.children[0] = num.children[0]\n\n            # Otherwise, it is a negative\n            else:\n                pos = num.children[0]\n                assert isinstance(pos, Token)\n                itimes.children[0] = Token(\"NUMBER\", str(-1 * int(pos)))",
          "            if num.data == \"neg\":\n                sign = -1\n            pos = num.children[0]\n            itimes.children[0] = Token(\"NUMBER\", str(sign * int(pos)))",
          "L5"),
        M("empty-rank cleanup only for the tight spelling", eq,
          "        for ranks in tree.find_data(\"ranks\"):\n            if ranks.children == [None]:",
          "        for ranks in tree.find_data(\"ranks\"):\n            if \"[]\" in equation and ranks.children == [None]:", "L9"),
        M("stamps without a dot bypass the grammar", "teaal/parse/mapping.py",
          "                            spacetime[tensor][stamp].append(\n                                SpaceTimeParser.parse(rank))",
          "                            spacetime[tensor][stamp].append(\n                                SpaceTimeParser.parse(rank) if \".\" in rank else Tree(\"pos\", [rank]))",
          "L10"),
        M("NUMBER cannot be zero", lv, "        %import common.NUMBER -> NUMBER\n", "        NUMBER: /[1-9][0-9]*/\n", "L11"),
        M("N+1 -> N", "teaal/parse/arch.py", 'tree["num"] = int(num) + 1', 'tree["num"] = int(num)', "L6"),
        M("single -> 0", "teaal/parse/arch.py", 'tree["num"] = 1', 'tree["num"] = 0', "L6"),
        M("multiple reads name child", "teaal/parse/arch.py", "num = name_tree.children[1]",
          "num = name_tree.children[0]", "L6"),
        M("benign: -int(pos)", eq, "str(-1 * int(pos))", "str(-int(pos))", (), benign=True),
        M("benign: 1 + int(num)", "teaal/parse/arch.py", 'tree["num"] = int(num) + 1',
          'tree["num"] = 1 + int(num)', (), benign=True),
        M("benign: grammar whitespace", lv, '?start: NAME "[0.." NUMBER "]" -> multiple',
          '?start:   NAME "[0.." NUMBER "]"   -> multiple', (), benign=True),
    ]
