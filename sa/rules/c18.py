"""
C18 - stated mapping-legality rules are enforced for every instance.

Decided (DESIGN.md section 3, C18): each stated guard still exists as a
``raise ValueError`` that is control-dependent on a test (E1), is reachable
from the public constructors and runs before the checked object is used (E2),
cannot be swallowed by a handler (E3), and ranges over the whole collection it
checks (E6).  An ``assert``/``print``/``warnings`` in place of the raise simply
does not count for E1 (that is E4).
Not decided: that a guard's *condition* is as wide as the rule.
(E5 of the design - "no raise reachable from __str__/gen" - was dropped: it is
not a necessary condition of the property; see DESIGN.md.)
"""

from __future__ import annotations

import ast
from typing import Dict, List, Optional, Set, Tuple

from sa import paths
from sa.db import DB, AnalysisError, FuncInfo, norm, walk_no_nested
from sa.fixtures import fixture
from sa.report import Report

# anchor function -> (minimum number of guard atoms, the stated rules it carries)
ANCHORS: Dict[str, Tuple[int, str]] = {
    "teaal.ir.tensor.Tensor.__init__": (1, "duplicate rank in a declaration"),
    "teaal.ir.equation.Equation.__get_tensor": (1, "undeclared tensor in an Einsum"),
    "teaal.ir.equation.Equation.__build_active_tensors": (1, "repeated tensor in an Einsum"),
    "teaal.ir.equation.Equation.__build_einsum_ranks": (1, "terms ranging over different rank sets"),
    "teaal.ir.partitioning.Partitioning.__check_flatten": (
        8, "flatten() with other directives / <2 ranks / index math / independently partitioned / "
           "already flattened / multiply partitioned; non-flatten directive on a rank tuple"),
    "teaal.ir.partitioning.Partitioning.__build_part_graph": (
        2, "n-way split after an occupancy split; shape split after flattening"),
    "teaal.trans.equation.Equation.make_iter_expr": (2, "loop order that projects into the output"),
    "teaal.trans.equation.Equation.__make_output_only_iter_expr": (
        1, "iterating an output-only flattened rank"),
    "teaal.parse.bindings.Bindings.__init__": (1, "Einsum without accelerator config in the bindings"),
    "teaal.parse.bindings.Bindings.get_config": (
        1, "Einsum that the bindings do not mention at all (no accelerator config either)"),
}
PREDICATES = ["teaal.ir.partitioning.Partitioning.__nway_after_dyn"]

ENTRY = ["teaal.parse.einsum.Einsum.__init__", "teaal.parse.mapping.Mapping.__init__",
         "teaal.parse.bindings.Bindings.__init__", "teaal.parse.format.Format.__init__",
         "teaal.trans.hifiber.HiFiber.__init__"]


def _is_value_error(r: ast.Raise) -> bool:
    if r.exc is None:
        return False
    e = r.exc.func if isinstance(r.exc, ast.Call) else r.exc
    return norm(e) == "ValueError"


def guard_atoms(r: ast.Raise, fnode: ast.AST) -> int:
    """Number of independent conditions under which this raise fires: the
    disjuncts of its innermost guard (a guard `a or b` carries two rules)."""
    gs = paths.guards(r, stop=fnode)
    if not gs:
        return 0
    test, pol = gs[-1]
    # disjuncts of (test == pol)
    def disj(t, p) -> int:
        if isinstance(t, ast.UnaryOp) and isinstance(t.op, ast.Not):
            return disj(t.operand, not p)
        if isinstance(t, ast.BoolOp):
            if (isinstance(t.op, ast.Or) and p) or (isinstance(t.op, ast.And) and not p):
                return sum(disj(v, p) for v in t.values)
        return 1
    return disj(test, pol)


def catches_value_error(h: ast.ExceptHandler) -> bool:
    if h.type is None:
        return True
    names = [norm(x) for x in (h.type.elts if isinstance(h.type, ast.Tuple) else [h.type])]
    return any(n.split(".")[-1] in ("ValueError", "Exception", "BaseException") for n in names)


@fixture("C18/E3 handler matcher")
def _fx_e3() -> bool:
    t = ast.parse("try:\n    f()\nexcept (KeyError, ValueError):\n    pass\n")
    return catches_value_error(t.body[0].handlers[0])


@fixture("C18/E6 slice matcher")
def _fx_e6() -> bool:
    t = ast.parse("for x in xs[:1]:\n    pass\n")
    return _narrow_iter(t.body[0].iter) is not None


def _narrow_iter(it: ast.AST) -> Optional[str]:
    """Reason why a loop iterable is not 'the whole collection', else None."""
    if isinstance(it, ast.Call) and isinstance(it.func, ast.Name) and \
            it.func.id in ("enumerate", "zip", "reversed", "sorted", "list", "set", "tuple", "iter"):
        for a in it.args:
            r = _narrow_iter(a)
            if r:
                return r
        return None
    if isinstance(it, ast.Call) and isinstance(it.func, ast.Attribute) and \
            it.func.attr in ("items", "keys", "values"):
        return _narrow_iter(it.func.value)
    if isinstance(it, ast.Subscript):
        if isinstance(it.slice, ast.Slice):
            return "iterates a slice (%s) of the collection" % norm(it)
        return _narrow_iter(it.value)
    if isinstance(it, ast.Call) and isinstance(it.func, ast.Attribute) and it.func.attr == "find_data":
        return None
    if isinstance(it, (ast.Name, ast.Attribute, ast.Call)):
        return None
    if isinstance(it, (ast.List, ast.Tuple)):
        return "iterates a literal list instead of the collection"
    return None


def _early_exits_before(loop: ast.AST, target: ast.AST) -> List[ast.stmt]:
    """break/return statements of ``loop`` that can run, in some
    iteration, before ``target`` (a statement inside the loop body) is reached,
    other than (a) skipping an empty element and (b) exits that end a block
    which first did some work for the element (set the flag, handled the
    case); what remains are bare conditional skips."""
    out: List[ast.stmt] = []
    loop_targets = {n.id for n in ast.walk(loop.target) if isinstance(n, ast.Name)} \
        if isinstance(loop, ast.For) else set()

    # chain of blocks from loop body down to target
    chain = []
    n = target
    while n is not loop:
        p, fld, lst = paths.block_of(n)  # type: ignore[arg-type]
        chain.append((lst, n))
        n = p
        while not isinstance(n, ast.stmt):
            n = n.parent

    def exits_in(s: ast.stmt, depth_loops: int = 0) -> List[ast.stmt]:
        res = []
        # (a `continue` is a per-element condition, equivalent to nesting the
        # rest of the body under its negation: it is part of the guard, not a
        # narrowing of the range)
        if isinstance(s, ast.Break) and depth_loops == 0:
            res.append(s)
        elif isinstance(s, ast.Return):
            res.append(s)
        elif isinstance(s, (ast.For, ast.While)):
            for c in s.body + s.orelse:
                res.extend(exits_in(c, depth_loops + 1))
        elif isinstance(s, ast.If):
            for c in s.body + s.orelse:
                res.extend(exits_in(c, depth_loops))
        return res

    for lst, upto in chain:
        for s in lst:
            if s is upto:
                break
            for x in exits_in(s):
                # (a) `if not <loop target>: continue`
                gs = paths.guards(x, stop=loop)
                if isinstance(x, ast.Continue) and gs:
                    t, pol = gs[-1]
                    if isinstance(t, ast.UnaryOp) and isinstance(t.op, ast.Not) and pol and \
                            isinstance(t.operand, ast.Name) and t.operand.id in loop_targets:
                        continue
                # (b) exit after a flag assignment / raise in its own block
                _, _, blk = paths.block_of(x)
                pre = []
                for y in blk:
                    if y is x:
                        break
                    pre.append(y)
                # (the block did its work for this element - set the flag,
                # handled the case - and then leaves; a *bare* conditional
                # skip is what narrows a check)
                if pre:
                    continue
                out.append(x)
    return out


def run(db: DB, rep: Report) -> None:
    rep.explanation = (
        "For each legality rule the property states, the anchor function that enforces it is "
        "located by qualified name and its guards are counted: raise ValueError statements that are "
        "control-dependent on a test, one per disjunct of the guarding condition (messages are not "
        "matched; asserts, prints and warnings do not count). Each anchor must be reachable on the "
        "resolved call graph from the public constructors; the partition-graph checks must precede "
        "the first graph edge of their entry on every path; Equation.__init__ must call its three "
        "checking builders on every path. No try-handler that can catch ValueError may enclose a "
        "call path to an anchor. Every loop that carries a guard (or computes a flag a guard tests) "
        "iterates the whole collection - not a slice - with no early exit ahead of the test.")
    rep.trusted += ["annotation-driven call resolution (sa/db.py) with name-based may-call fallback"]
    rep.assumptions += ["whether a guard's condition is as wide as the stated rule is not decided"]

    # ---- E1 guard census ---------------------------------------------------
    rep.rule("E1", "each anchor keeps at least the confirmed number of test-dependent "
             "raise ValueError guards", 9)
    anchors: Dict[str, FuncInfo] = {}
    guard_raises: Dict[str, List[ast.Raise]] = {}
    for q, (floor, what) in ANCHORS.items():
        f = db.func(q)
        anchors[q] = f
        raises = [n for n in walk_no_nested(f.node) if isinstance(n, ast.Raise) and _is_value_error(n)]
        atoms = sum(guard_atoms(r, f.node) for r in raises)
        guard_raises[q] = [r for r in raises if guard_atoms(r, f.node) > 0]
        others = [n for n in walk_no_nested(f.node)
                  if isinstance(n, ast.Assert) or
                  (isinstance(n, ast.Raise) and not _is_value_error(n) and n.exc is not None)]
        rep.check("E1", atoms >= floor, db.loc(f.node), f.short, "guards:%s" % f.short,
                  "%s: %d guard conditions (floor %d) - %s" % (f.short, atoms, floor, what),
                  "%s has %d test-dependent 'raise ValueError' guard conditions, %d were confirmed "
                  "for the rules [%s]; a legality rule is no longer enforced by a ValueError%s" %
                  (f.short, atoms, floor, what,
                   " (the function now contains %d assert / other-exception statements)" % len(others)
                   if others else ""))
    for q in PREDICATES:
        f = db.func(q)
        anchors[q] = f
    # the n-way-after-dynamic rule: guard test calls the predicate
    bp = anchors["teaal.ir.partitioning.Partitioning.__build_part_graph"]
    pred_guard = [r for r in guard_raises["teaal.ir.partitioning.Partitioning.__build_part_graph"]
                  if any("__nway_after_dyn" in paths.called_names([t])
                         for t, _ in paths.guards(r, stop=bp.node))]
    rep.check("E1", len(pred_guard) >= 1, db.loc(bp.node), bp.short, "guards:nway-after-dyn",
              "__build_part_graph raises under a test calling __nway_after_dyn",
              "no ValueError in __build_part_graph is guarded by the __nway_after_dyn predicate")
    nad = anchors[PREDICATES[0]]
    rets_true = [n for n in walk_no_nested(nad.node) if isinstance(n, ast.Return) and
                 isinstance(n.value, ast.Constant) and n.value.value is True]
    # (or it returns a computed truth value that depends on its argument)
    computed = [n for n in walk_no_nested(nad.node) if isinstance(n, ast.Return) and n.value is not None and
                not isinstance(n.value, ast.Constant) and
                ((paths.load_names(n.value) |
                  paths.backward_slice(nad.node, sorted(paths.load_names(n.value)), with_control=False)[0])
                 & set(nad.call_params))]
    rep.check("E1", bool(computed) or (len(rets_true) >= 1 and all(paths.guards(r, stop=nad.node) for r in rets_true)),
              db.loc(nad.node), nad.short, "predicate:nway-after-dyn",
              "__nway_after_dyn can return True under a test",
              "__nway_after_dyn can no longer report an n-way split after a dynamic split")

    # ---- E2 reachability and ordering --------------------------------------
    rep.rule("E2", "anchors reachable from the public constructors; checks precede use", 12)
    roots = [db.func(q) for q in ENTRY]
    reach = db.reachable(roots)
    for q, f in anchors.items():
        rep.check("E2", q in reach, db.loc(f.node), f.short, "reachable:" + f.short,
                  "%s reachable from Einsum/Mapping/Bindings/Format/HiFiber constructors" % f.short,
                  "%s is no longer reachable from the public constructors: the legality rule it "
                  "enforces is never evaluated" % f.short)
    # Equation.__init__ calls the three checking builders on every path
    ei = db.func("teaal.ir.equation.Equation.__init__")
    for name in ("__build_einsum_ranks", "__build_tensors_trees", "__build_active_tensors"):
        def is_call(n, name=name):
            return isinstance(n, ast.Call) and isinstance(n.func, ast.Attribute) and n.func.attr == name
        outs = paths.path_counts(ei.node.body, paths.make_pred(is_call))
        ok = all(c >= 1 for c, k in outs if k != paths.RAISE)
        rep.check("E2", ok, db.loc(ei.node), ei.short, "always-calls:" + name,
                  "Equation.__init__ calls %s on every path" % name,
                  "Equation.__init__ has a path that does not call %s; the Einsum checks it carries "
                  "are skipped" % name)
    # Partitioning.__init__ reaches __build_part_graph on every path
    pi = db.func("teaal.ir.partitioning.Partitioning.__init__")

    def is_bpg(n):
        return isinstance(n, ast.Call) and isinstance(n.func, ast.Attribute) and \
            n.func.attr == "__build_part_graph"
    outs = paths.path_counts(pi.node.body, paths.make_pred(is_bpg))
    rep.check("E2", all(c >= 1 for c, k in outs if k != paths.RAISE), db.loc(pi.node), pi.short,
              "always-calls:__build_part_graph", "Partitioning.__init__ always builds the partition graph",
              "Partitioning.__init__ has a path that skips __build_part_graph and its legality checks")
    # inside the per-entry loop of __build_part_graph the checks precede the first edge
    loops = [n for n in walk_no_nested(bp.node) if isinstance(n, ast.For) and
             any(isinstance(x, ast.Call) and isinstance(x.func, ast.Attribute) and
                 x.func.attr == "__check_flatten" for x in ast.walk(n))]
    if len(loops) != 1:
        raise AnalysisError("per-entry loop of __build_part_graph not found")

    def is_edge(n):
        return isinstance(n, ast.Call) and isinstance(n.func, ast.Attribute) and n.func.attr == "add_edge"

    def is_cf(n):
        return isinstance(n, ast.Call) and isinstance(n.func, ast.Attribute) and \
            n.func.attr == "__check_flatten"

    def is_nad(n):
        return isinstance(n, ast.Call) and isinstance(n.func, ast.Attribute) and \
            n.func.attr == "__nway_after_dyn"
    for nm, isp in (("__check_flatten", is_cf), ("__nway_after_dyn", is_nad)):
        bad = paths.must_precede(loops[0].body, isp, is_edge)
        rep.check("E2", not bad, db.loc(bad[0] if bad else loops[0]), bp.short,
                  "precedes-edges:" + nm, "%s precedes every add_edge of its entry" % nm,
                  "a partition-graph edge can be added at %s before %s has checked the entry" %
                  (db.loc(bad[0]) if bad else "?", nm))
    # arguments of __check_flatten are the loop's own entry
    cf_calls = [x for x in ast.walk(loops[0]) if is_cf(x)]
    tnames = {n.id for n in ast.walk(loops[0].target) if isinstance(n, ast.Name)}
    ok = bool(cf_calls) and all(c.args and isinstance(c.args[0], ast.Name) and c.args[0].id in tnames
                                for c in cf_calls)
    rep.check("E2", ok, db.loc(cf_calls[0] if cf_calls else loops[0]), bp.short, "checks-own-entry",
              "__check_flatten is applied to the loop's own entry",
              "__check_flatten is not applied to the entry being added to the graph")

    # ---- E3 not swallowed ---------------------------------------------------
    rep.rule("E3", "no try-handler able to catch ValueError encloses a call path to an anchor", 0)
    anchor_q = set(anchors)
    n_try = 0
    for g in db.functions.values():
        for n in walk_no_nested(g.node):
            if not isinstance(n, ast.Try):
                continue
            n_try += 1
            hs = [h for h in n.handlers if catches_value_error(h)]
            if not hs:
                rep.instance("E3", db.loc(n), "try without a ValueError-capable handler")
                continue
            calls = [x for s in n.body for x in ast.walk(s) if isinstance(x, ast.Call)]
            hit = None
            for c in calls:
                for callee in db.resolve_call(c, g, with_subclasses=True, fallback=True):
                    r = db.reachable([callee])
                    inter = anchor_q & set(r)
                    if inter:
                        hit = (c, sorted(inter)[0])
            # a raise of an anchor directly inside the try body
            if g.qualname in anchor_q:
                for s in n.body:
                    if any(isinstance(x, ast.Raise) for x in ast.walk(s)):
                        hit = (n, g.qualname)
            rep.check("E3", hit is None, db.loc(n), g.short, "try:" + norm(hs[0].type) if hs[0].type else "try:bare",
                      "try/except in %s" % g.short,
                      "a handler that can catch ValueError encloses a call path to %s: the legality "
                      "error can be swallowed and the specification silently compiled" %
                      (hit[1] if hit else ""))
    rep.extra["try_statements_in_teaal"] = n_try

    # ---- E7 / E8 ---------------------------------------------------------------
    rep.rule("E7", "set-equality rules are tested symmetrically", 1)
    _symmetric_rule(db, rep)
    rep.rule("E8", "per-element flags tested by a guard are set within the element's own iteration", 2)
    _stale_flag_rule(db, rep, anchors, guard_raises)

    # ---- E9 legality does not depend on the order of the specification's entries ------
    rep.rule("E9", "a guard inside a loop does not read a collection that other entries of the same loop fill", 10)
    for q, f in anchors.items():
        for r in guard_raises.get(q, []):
            loops = [p_ for p_ in paths.parents(r, f.node) if isinstance(p_, ast.For)]
            gnames: Set[str] = set()
            gtests = paths.guards(r, stop=f.node)
            for t, _ in gtests:
                gnames |= paths.load_names(t)
            order_dep = []
            for lp in loops:
                for c in ast.walk(lp):
                    if not (isinstance(c, ast.Call) and isinstance(c.func, ast.Attribute) and
                            c.func.attr in ("add", "append", "update", "extend", "setdefault") and
                            isinstance(c.func.value, ast.Name) and c.func.value.id in gnames):
                        continue
                    coll = c.func.value.id
                    # created (empty) before the loop, at function level
                    created = [st for st, v in paths.defs_of(f.node, coll)
                               if not any(p_ is lp for p_ in paths.parents(st, f.node)) and v is not None and
                               (isinstance(v, (ast.List, ast.Set, ast.Dict)) or
                                (isinstance(v, ast.Call) and norm(v.func) in ("set", "list", "dict")))]
                    if not created:
                        continue
                    # is the fill on a path that also evaluates the guard (a symmetric duplicate
                    # check), or only on paths of *other* entries?
                    ftests = {id(t): pol for t, pol in paths.guards(c, stop=f.node)}
                    exclusive = any(id(t) in ftests and ftests[id(t)] != pol for t, pol in gtests)
                    if exclusive:
                        order_dep.append((coll, c))
            rep.check("E9", not order_dep, db.loc(r), f.short, "order:" + norm(r.exc)[:40] if r.exc else "order",
                      "the guard at %s does not depend on entries seen earlier" % db.loc(r),
                      "the legality check at %s reads '%s', which the loop fills (at %s) only while it handles "
                      "entries of another kind: whether an illegal specification is rejected depends on the "
                      "order in which its entries are written" %
                      (db.loc(r), order_dep[0][0] if order_dep else "",
                       db.loc(order_dep[0][1]) if order_dep else ""))

    # ---- E9b: ... nor query, through a method, an object field that the same loop is still filling
    def fields_read(g, depth: int = 0, seen=None) -> Set[str]:
        seen = seen if seen is not None else set()
        if g.qualname in seen or depth > 3:
            return set()
        seen.add(g.qualname)
        out = set(paths.self_attrs(g.node))
        for c in walk_no_nested(g.node):
            if isinstance(c, ast.Call) and isinstance(c.func, ast.Attribute) and \
                    isinstance(c.func.value, ast.Name) and c.func.value.id in ("self", g.cls.name if g.cls else ""):
                for h in db.resolve_call(c, g):
                    out |= fields_read(h, depth + 1, seen)
        return out

    def fields_written(stmts, g, depth: int = 0, seen=None) -> Set[str]:
        seen = seen if seen is not None else set()
        out: Set[str] = set()
        for s_ in stmts:
            for c in ast.walk(s_):
                if isinstance(c, ast.Call) and isinstance(c.func, ast.Attribute):
                    recv = c.func.value
                    if isinstance(recv, ast.Attribute) and isinstance(recv.value, ast.Name) and \
                            recv.value.id == "self" and (c.func.attr in paths.MUTATORS or
                                                         c.func.attr.startswith(("add_", "remove_"))):
                        out.add(recv.attr)
                    elif isinstance(recv, ast.Name) and recv.id == "self" and depth < 2:
                        for h in db.resolve_call(c, g):
                            if h.qualname not in seen:
                                seen.add(h.qualname)
                                out |= fields_written(h.node.body, h, depth + 1, seen)
                elif isinstance(c, (ast.Assign, ast.AugAssign)):
                    for tg in (c.targets if isinstance(c, ast.Assign) else [c.target]):
                        if isinstance(tg, ast.Subscript) and isinstance(tg.value, ast.Attribute) and \
                                isinstance(tg.value.value, ast.Name) and tg.value.value.id == "self":
                            out.add(tg.value.attr)
        return out

    for q, f in anchors.items():
        for r in guard_raises.get(q, []):
            loops = [p_ for p_ in paths.parents(r, f.node) if isinstance(p_, ast.For)]
            if not loops:
                continue
            lp = loops[-1]
            written = fields_written(lp.body, f)
            hits = []
            for t, _ in paths.guards(r, stop=lp):
                for c in ast.walk(t):
                    if isinstance(c, ast.Call) and isinstance(c.func, ast.Attribute) and \
                            isinstance(c.func.value, ast.Name) and c.func.value.id == "self":
                        for h in db.resolve_call(c, f):
                            both = fields_read(h) & written
                            if both:
                                hits.append((norm(c)[:40], sorted(both)))
            rep.check("E9", not hits, db.loc(r), f.short, "order-state:" + (norm(r.exc)[:40] if r.exc else ""),
                      "the guard at %s queries no object state that the loop is still building" % db.loc(r),
                      "the legality check at %s calls %s, which reads %s - state that the same loop over the "
                      "specification's entries is still filling: whether an illegal specification is rejected "
                      "depends on the order in which its entries are written" %
                      (db.loc(r), hits[0][0] if hits else "", hits[0][1] if hits else ""))

    # ---- E11: "also partitioned independently" looks at every key the rank occurs in ---------
    rep.rule("E11", "the 'rank is also partitioned independently' guard of flatten() ranges over all "
             "partitioning keys that contain the rank", 1)
    cf = db.func("teaal.ir.partitioning.Partitioning.__check_flatten")
    n_e11 = 0
    for r in [x for x in walk_no_nested(cf.node) if isinstance(x, ast.Raise) and _is_value_error(x)]:
        for t, pol in paths.guards(r, stop=cf.node)[-1:]:
            txt = paths.inlined_text(t, cf.node)
            if "all_parts" not in txt and cf.call_params[1:2] and cf.call_params[1] not in txt:
                continue
            if not any(isinstance(x, ast.Name) and x.id in cf.call_params[1:2] for x in ast.walk(t)):
                continue
            # the per-rank guard: inside a loop over the flattened tuple, reading the loop's rank
            lps_ = [p_ for p_ in paths.parents(r, cf.node) if isinstance(p_, ast.For)]
            if not lps_ or not ({x.id for x in ast.walk(lps_[0].target) if isinstance(x, ast.Name)}
                                & paths.load_names(t)):
                continue
            n_e11 += 1
            scans = any(isinstance(x, (ast.GeneratorExp, ast.ListComp, ast.SetComp)) and
                        any(cf.call_params[1] in paths.load_names(g.iter) for g in x.generators)
                        for x in ast.walk(t))
            lookup = any(isinstance(x, ast.Compare) and isinstance(x.left, ast.Tuple) and len(x.left.elts) == 1
                         and isinstance(x.ops[0], (ast.In, ast.NotIn)) for x in ast.walk(t))
            rep.check("E11", scans, db.loc(r), cf.short, "independently-partitioned",
                      "the guard scans every key of the partitioning for the rank",
                      "Partitioning.__check_flatten decides 'this rank is also partitioned independently' "
                      "from %s, i.e. from the single-rank key only: a rank that is part of another rank "
                      "tuple (a second flattening) passes, and the specification compiles to loops that "
                      "iterate the shared rank independently" % txt[:70], decided=scans or lookup)
    if n_e11 < 1:
        rep.undecided("E11", db.loc(cf.node), cf.short, "the 'also independently partitioned' guard was not found")

    # ---- E10: "declared" means declared: the table the undeclared-tensor check looks in is
    # filled once per entry of the Einsum's declaration, and from nothing else
    rep.rule("E10", "the tensor table is keyed by the declaration's entries only", 1)
    pi = db.func("teaal.ir.program.Program.__init__")
    n_e10 = 0
    for n in walk_no_nested(pi.node):
        iters: List[ast.AST] = []
        site = None
        if isinstance(n, ast.Assign) and len(n.targets) == 1:
            tg = n.targets[0]
            if isinstance(tg, ast.Subscript) and norm(tg.value) in ("self.tensors", "self.decl_tensors"):
                site = n
                iters = [p_.iter for p_ in paths.parents(n, pi.node) if isinstance(p_, ast.For)]
            elif norm(tg) in ("self.tensors", "self.decl_tensors") and \
                    isinstance(n.value, (ast.DictComp, ast.Dict, ast.Call)):
                site = n
                if isinstance(n.value, ast.DictComp):
                    iters = [g_.iter for g_ in n.value.generators]
                elif isinstance(n.value, ast.Dict) and not n.value.keys:
                    continue            # the empty table before it is filled
                else:
                    iters = [n.value]
        if site is None:
            continue
        n_e10 += 1
        srcs: Set[str] = set()
        for it_ in iters:
            nms, exprs = paths.backward_slice(pi.node, sorted(paths.load_names(it_)), with_control=False)
            srcs |= paths.called_names([it_] + exprs)
            srcs |= {a for e_ in [it_] + exprs for a in paths.self_attrs(e_)}
        from_decl = "get_declaration" in srcs or "decl_tensors" in srcs
        from_map = "get_rank_orders" in srcs
        rep.check("E10", from_decl and not from_map, db.loc(site), pi.short, "table:" + norm(site.targets[0])[:40],
                  "%s has one entry per declared tensor" % norm(site.targets[0])[:40],
                  "the entries of %s are enumerated from %s: a tensor that is only named in the mapping's "
                  "rank-order counts as declared, so 'Undeclared tensor' is no longer raised for it" %
                  (norm(site.targets[0])[:40], sorted(srcs & {"get_rank_orders", "get_declaration", "decl_tensors"})),
                  decided=from_map or from_decl)
    if n_e10 < 1:
        raise AnalysisError("Program.__init__ no longer fills self.tensors (E10)")

    # ---- E12: a loop order that projects into the output is rejected whenever the output's next
    # rank is not the loop rank - a plain inequality of the two names, nothing weaker
    rep.rule("E12", "'Cannot project into the output tensor' fires whenever the output's next rank "
             "differs from the loop rank", 1)
    mie = db.func("teaal.trans.equation.Equation.make_iter_expr")
    n_e12 = 0
    for r in [n for n in walk_no_nested(mie.node) if isinstance(n, ast.Raise) and _is_value_error(n) and
              "project into the output" in norm(n).lower()]:
        n_e12 += 1
        gs = paths.guards(r, stop=mie.node)
        rank_p = mie.call_params[0]
        test, pol = gs[-1] if gs else (None, True)
        atoms12 = paths.conjuncts(test, pol) if test is not None else []
        plain, weaker, why = False, False, ""
        if len(atoms12) == 1:
            a, p_ = atoms12[0]
            if isinstance(a, ast.Compare) and len(a.ops) == 1 and \
                    ((isinstance(a.ops[0], ast.NotEq) and p_) or (isinstance(a.ops[0], ast.Eq) and not p_)):
                sides = {paths.flow_text(a.left, r, mie.node), paths.flow_text(a.comparators[0], r, mie.node)}
                plain = rank_p in sides and any(".peek" in x for x in sides)
            elif isinstance(a, ast.Name) and not p_:
                # not same: a flag computed (possibly by an inlined helper) on several grounds
                vals = [v_ for st_, v_ in paths.defs_of(mie.node, a.id) if v_ is not None]
                accepting = [v_ for v_ in vals if not (isinstance(v_, ast.Constant) and v_.value is False)]
                if len(accepting) == 1 and isinstance(accepting[0], ast.Compare) and \
                        isinstance(accepting[0].ops[0], ast.Eq) and len(accepting[0].ops) == 1:
                    plain = True
                elif len(accepting) > 1:
                    weaker = True
                    why = "the two names count as the same rank on %d different grounds (%s)" % (
                        len(accepting), "; ".join(norm(v_)[:50] for v_ in accepting))
            elif isinstance(a, ast.Call) and not p_:
                # not same(x, y): the helper must return True for equal names only
                for g in db.resolve_call(a, mie):
                    rets = [x for x in walk_no_nested(g.node) if isinstance(x, ast.Return) and x.value is not None]
                    accepting = [x for x in rets if not (isinstance(x.value, ast.Constant) and x.value.value is False)]
                    if len(accepting) > 1 or any(isinstance(x.value, ast.BoolOp) and isinstance(x.value.op, ast.Or)
                                                 for x in accepting):
                        weaker = True
                        why = "%s returns True on %d different grounds" % (g.short, max(2, len(accepting)))
        elif len(atoms12) > 1:
            weaker = True
            why = "the raise needs %d conditions at once" % len(atoms12)
        rep.check("E12", plain, db.loc(r), mie.short, "reject:project-into-output",
                  "raised whenever output.peek_clean() != %s" % rank_p,
                  "the rejection of a loop order that projects into the output no longer fires on every "
                  "mismatch of the output's next rank and the loop rank (%s): such a specification compiles, "
                  "and the emitted loop populates the output under the wrong rank" % (why or "guard " + norm(test)[:60]),
                  decided=plain or weaker)
    if n_e12 < 1:
        rep.undecided("E12", db.loc(mie.node), mie.short, "the 'Cannot project into the output tensor' raise was not found")

    # ---- E13: the accelerator configuration is resolved (and its absence reported) for every
    # Einsum of the program, not only for those the bindings happen to mention
    rep.rule("E13", "the configuration of every Einsum of the program is resolved when the hardware is built", 1)
    hwi = db.func("teaal.ir.hardware.Hardware.__init__")
    n_e13 = 0
    for n in walk_no_nested(hwi.node):
        if not (isinstance(n, ast.Call) and isinstance(n.func, ast.Attribute) and n.func.attr == "get_config"
                and n.args and isinstance(n.args[0], ast.Name)):
            continue
        var = n.args[0].id
        loops = [p_ for p_ in paths.parents(n, hwi.node) if isinstance(p_, (ast.For, ast.comprehension, ast.DictComp,
                                                                             ast.ListComp))]
        its = []
        for p_ in loops:
            gens = p_.generators if isinstance(p_, (ast.DictComp, ast.ListComp)) else [p_]
            for g_ in gens:
                if var in paths.load_names(g_.target) | {x.id for x in ast.walk(g_.target) if isinstance(x, ast.Name)}:
                    its.append(g_.iter)
        if not its:
            continue
        n_e13 += 1
        txt = paths.flow_text(its[0], n, hwi.node)
        from_prog = "get_all_einsums()" in txt
        from_bind = "bindings" in txt.lower()
        rep.check("E13", from_prog and not from_bind, db.loc(n), hwi.short, "config-for-every-einsum",
                  "get_config is asked for every Einsum of the program",
                  "Hardware.__init__ resolves the configuration only for %s: an Einsum the bindings do not "
                  "mention is never looked up, so 'Accelerator config and prefix missing' is not raised and "
                  "the specification is accepted" % txt[:60], decided=from_prog or from_bind)
    if n_e13 < 1:
        rep.undecided("E13", db.loc(hwi.node), hwi.short, "no per-Einsum get_config lookup found in Hardware.__init__")

    # ---- E6 guards range over the whole collection --------------------------
    rep.rule("E6", "loops carrying a guard iterate the whole collection with no early exit "
             "ahead of the test", 5)
    for q, f in anchors.items():
        targets: List[ast.AST] = []
        if q in guard_raises:
            targets.extend(guard_raises[q])
        if q in PREDICATES:
            targets.extend(n for n in walk_no_nested(f.node) if isinstance(n, ast.Return) and
                           isinstance(n.value, ast.Constant) and n.value.value is True)
        # flags tested by a guard: assignments of a bool constant to a name some guard reads
        guard_names: Set[str] = set()
        for r in guard_raises.get(q, []):
            for t, _ in paths.guards(r, stop=f.node):
                guard_names |= paths.load_names(t)
        for n in walk_no_nested(f.node):
            if isinstance(n, ast.Assign) and isinstance(n.value, ast.Constant) and \
                    isinstance(n.value.value, bool) and len(n.targets) == 1 and \
                    isinstance(n.targets[0], ast.Name) and n.targets[0].id in guard_names:
                targets.append(n)
        seen_loops = set()
        for tgt in targets:
            p = getattr(tgt, "parent", None)
            stmt = tgt
            while p is not None and p is not f.node:
                if isinstance(p, (ast.For, ast.While)):
                    key = (id(p), id(tgt))
                    if key not in seen_loops:
                        seen_loops.add(key)
                        why = _narrow_iter(p.iter) if isinstance(p, ast.For) else None
                        exits = _early_exits_before(p, stmt if isinstance(stmt, ast.stmt) else tgt)
                        ok = why is None and not exits
                        msg = why or ("%s at %s can leave the iteration before the check at %s is "
                                      "evaluated" % (type(exits[0]).__name__.lower(), db.loc(exits[0]),
                                                     db.loc(tgt)) if exits else "")
                        rep.check("E6", ok, db.loc(p), f.short,
                                  "loop:%s" % norm(p.iter if isinstance(p, ast.For) else p.test),
                                  "loop over %s carries the check at %s" %
                                  (norm(p.iter) if isinstance(p, ast.For) else norm(p.test), db.loc(tgt)),
                                  "the legality check in %s no longer ranges over the whole collection: %s"
                                  % (f.short, msg))
                p = getattr(p, "parent", None)


def _stale_flag_rule(db: DB, rep: Report, anchors, guard_raises) -> None:
    """E8: a name that varies per iteration and is tested by a guard inside a
    loop is assigned within that iteration before the guard on every path."""
    for q, f in anchors.items():
        for r in guard_raises.get(q, []):
            gs = paths.guards(r, stop=f.node)
            if not gs:
                continue
            test_node = gs[-1][0]
            # innermost..outermost loops around the guard's if statement
            if_stmt = test_node.parent
            p = if_stmt.parent
            loops = []
            while p is not None and p is not f.node:
                if isinstance(p, (ast.For, ast.While)):
                    loops.append(p)
                p = p.parent
            for lp in loops:
                targets = {n.id for n in ast.walk(lp.target) if isinstance(n, ast.Name)} \
                    if isinstance(lp, ast.For) else set()
                assigned_in_loop = {n.id for s_ in lp.body for n in ast.walk(s_)
                                    if isinstance(n, ast.Name) and isinstance(n.ctx, ast.Store)}
                comp_bound = {x.id for c in ast.walk(test_node) if isinstance(c, ast.comprehension)
                              for x in ast.walk(c.target) if isinstance(x, ast.Name)}
                for nm in sorted((paths.load_names(test_node) & assigned_in_loop) - targets - comp_bound):
                    def is_def(n, nm=nm):
                        if isinstance(n, (ast.Assign, ast.AnnAssign, ast.AugAssign)):
                            ts = n.targets if isinstance(n, ast.Assign) else [n.target]
                            return any(isinstance(t, ast.Name) and t.id == nm for t in ts)
                        if isinstance(n, ast.For):
                            return any(isinstance(t, ast.Name) and t.id == nm for t in ast.walk(n.target))
                        return False
                    bad = paths.must_precede(lp.body, is_def, lambda n: n is test_node)
                    rep.check("E8", not bad, db.loc(if_stmt), f.short, "fresh-flag:%s@%s" % (nm, f.short),
                              "'%s' tested by the guard at %s is set within the same iteration of the loop at %s"
                              % (nm, db.loc(if_stmt), db.loc(lp)),
                              "the guard at %s tests '%s', which changes inside the loop at %s but is not "
                              "assigned on every path of the current iteration before the test: a value left "
                              "over from an earlier element decides whether this element is rejected" %
                              (db.loc(if_stmt), nm, db.loc(lp)))


def _symmetric_rule(db: DB, rep: Report) -> None:
    """E7: 'all terms range over the same rank set' is tested symmetrically."""
    f = db.func("teaal.ir.equation.Equation.__build_einsum_ranks")
    raises = [n for n in walk_no_nested(f.node) if isinstance(n, ast.Raise) and _is_value_error(n)]
    for r in raises:
        gs = paths.guards(r, stop=f.node)
        if not gs:
            continue
        test = gs[-1][0]
        names = sorted(x for x in paths.load_names(test)
                       if any(True for st, v in paths.defs_of(f.node, x)
                              if v is not None and "__get_term_ranks" in paths.called_names([v])))
        if len(names) != 2:
            raise AnalysisError("the rank-set comparison of __build_einsum_ranks does not compare two term "
                                "rank lists (%s); cannot decide rule E7" % names)
        a, b = names

        class Swap(ast.NodeTransformer):
            def visit_Name(self, node):
                if node.id == a:
                    return ast.Name(id=b, ctx=node.ctx)
                if node.id == b:
                    return ast.Name(id=a, ctx=node.ctx)
                return node
        def is_sym(t: ast.AST) -> bool:
            sw = Swap().visit(paths.clone(t))
            if norm(sw) == norm(t):
                return True
            if isinstance(t, ast.Compare) and len(t.ops) == 1 and isinstance(t.ops[0], (ast.Eq, ast.NotEq)):
                return norm(sw.left) == norm(t.comparators[0]) and norm(sw.comparators[0]) == norm(t.left)
            if isinstance(t, ast.BoolOp):
                if sorted(norm(v) for v in sw.values) == sorted(norm(v) for v in t.values):
                    return True
                return all(is_sym(v) for v in t.values)
            if isinstance(t, ast.UnaryOp):
                return is_sym(t.operand)
            return False
        sym = is_sym(test)
        rep.check("E7", sym, db.loc(test), f.short, "symmetric:" + norm(test)[:80],
                  "rank-set comparison %s is symmetric in the two terms" % norm(test)[:60],
                  "the test %s that rejects terms ranging over different rank sets is not symmetric in the two "
                  "terms: a term with extra (or missing) ranks is accepted depending on the order of the terms"
                  % norm(test)[:80])


def mutants(db: DB):
    from sa.selftest import M, Mutant, Edit
    pt = "teaal/ir/partitioning.py"
    eq = "teaal/ir/equation.py"
    return [
        M("configs resolved for the Einsums named in the bindings only (C18-u3)", "teaal/ir/hardware.py",
          "        for einsum in self.program.get_all_einsums():\n            self.configs[einsum] = self.bindings.get_config(einsum)",
          "        for einsum in self.bindings.get_bindings():\n            self.configs[einsum] = self.bindings.get_config(einsum)", "E13"),
        M("projection into the output tolerated for co-partitioned ranks (C18-u2)", "teaal/trans/equation.py",
          "            if trank != rank:\n                raise ValueError(\n                    \"Cannot project into the output tensor.",
          "            part_ = self.program.get_partitioning()\n            if trank != rank and part_.partition_rank((trank,)) != part_.partition_rank((rank,)):\n                raise ValueError(\n                    \"Cannot project into the output tensor.", "E12"),
        M("benign: output projection test written as not ==", "teaal/trans/equation.py",
          "            if trank != rank:\n                raise ValueError(\n                    \"Cannot project into the output tensor.",
          "            if not (rank == trank):\n                raise ValueError(\n                    \"Cannot project into the output tensor.", (), benign=True),
        M("revert F17 fix (KeyError for an unlisted Einsum)", "teaal/parse/bindings.py",
          "        # Note: an Einsum with no entry in the bindings has no config either\n        if einsum not in self.configs:\n            raise ValueError(\n                \"Accelerator config and prefix missing for Einsum \" + einsum)\n\n", "", "E1"),
        M("revert F15 fix (only the single-rank key is looked up)", "teaal/ir/partitioning.py",
          "            if any(rank in other_ranks and other_ranks != part_ranks and parts\n                   for other_ranks, parts in all_parts.items()):",
          "            if (rank,) in all_parts and all_parts[(rank,)]:", "E11"),
        M("shape-after-flatten guard asks the graph being built", "teaal/ir/partitioning.py",
          "                    if source_name not in self.orig_ranks:\n                        raise ValueError(\n                            \"Shape-based",
          "                    if self.is_flattened(source_name):\n                        raise ValueError(\n                            \"Shape-based",
          "E9"),
        M("tensor table also enumerated from the mapping", "teaal/ir/program.py",
          "        for ord_name, tensor in self.decl_tensors.items():",
          "        for ord_name, tensor in list(self.decl_tensors.items()) + [(k, Tensor(k, v)) for k, v in rank_orders.items()]:",
          "E10"),
        Mutant("shape-after-flatten guard reads a set filled by earlier entries", [
            Edit("teaal/ir/partitioning.py", "        roots: Dict[str, List[str]] = {}\n",
                 "        roots: Dict[str, List[str]] = {}\n        flattened: Set[str] = set()\n"),
            Edit("teaal/ir/partitioning.py", "                ranks.add(flattened_rank)\n",
                 "                ranks.add(flattened_rank)\n                flattened.add(flattened_rank)\n"),
            Edit("teaal/ir/partitioning.py", "                    if source_name not in self.orig_ranks:\n                        raise ValueError(\n                            \"Shape-based",
                 "                    if source_name in flattened:\n                        raise ValueError(\n                            \"Shape-based")],
            ("E9",)),
        M("delete duplicate-rank guard", "teaal/ir/tensor.py",
          "            raise ValueError(\"All ranks must be unique; given \" + bad_tensor)\n",
          "            pass\n", "E1"),
        M("guard -> assert", eq,
          "        if name not in self.tensors.keys():\n            raise ValueError(\"Undeclared tensor: \" + name)\n",
          "        assert name in self.tensors.keys()\n", "E1"),
        M("guard -> print", eq, "                raise ValueError(\"Repeated tensor: \" + tensor.root_name())\n",
          "                print(\"Repeated tensor: \" + tensor.root_name())\n", "E1"),
        M("delete flatten+other guard", pt,
          "        if len(all_parts[part_ranks]) > 1:\n            raise ValueError(\n"
          "                \"flatten() combined with other operators on rank(s) \" +\n"
          "                str(part_ranks))\n", "", "E1"),
        M("nway-after-dyn guard uses other predicate", pt, "if Partitioning.__nway_after_dyn(parts):",
          "if Partitioning.__is_static(parts[0]) and False:", "E1"),
        M("check only first rank of tuple", pt,
          "        for rank in part_ranks:\n            if len(self.coord_math",
          "        for rank in part_ranks[:1]:\n            if len(self.coord_math", "E6"),
        M("nway check only two-level stacks", pt, "        for part in parts:\n            if not Partitioning.__is_static(part):",
          "        for part in parts[:2]:\n            if not Partitioning.__is_static(part):", "E6"),
        M("early break before independent-partition check", pt,
          "        for rank in part_ranks:\n            if (rank,) in all_parts and all_parts[(rank,)]:",
          "        for rank in part_ranks:\n            if rank in self.orig_ranks:\n                break\n"
          "            if (rank,) in all_parts and all_parts[(rank,)]:", "E6"),
        M("check_flatten moved after edges", pt,
          "            self.__check_flatten(part_ranks, all_parts, ranks)\n\n            # If we are flattening, add a flattening node to combine them\n"
          "            if len(part_ranks) > 1:",
          "            # If we are flattening, add a flattening node to combine them\n"
          "            if len(part_ranks) == 1:\n                self.__check_flatten(part_ranks, all_parts, ranks)\n"
          "            if len(part_ranks) > 1:", "E2"),
        M("Equation.__init__ skips active-tensor check", eq, "        self.__build_active_tensors()\n        self.__build_computation()",
          "        if len(tensors) > 1:\n            self.__build_active_tensors()\n        self.__build_computation()",
          "E2"),
        M("rank-set check in one direction only", eq,
          "            if Counter(check_ranks) != Counter(term_ranks):",
          "            if any(rank not in check_ranks for rank in term_ranks):", "E7"),
        M("configured flag initialised once", "teaal/parse/bindings.py",
          "        for einsum in yaml[\"bindings\"]:\n            self.components[einsum] = {}\n\n            configured = False\n",
          "        configured = False\n        for einsum in yaml[\"bindings\"]:\n            self.components[einsum] = {}\n\n", "E8"),
        M("benign: symmetric set comparison", eq, "            if Counter(check_ranks) != Counter(term_ranks):",
          "            if set(check_ranks) != set(term_ranks) or len(check_ranks) != len(term_ranks):", (), benign=True),
        M("swallow ValueError around Partitioning", "teaal/ir/program.py",
          "            self.partitioning = Partitioning({}, ranks, self.coord_math)",
          "            try:\n                self.partitioning = Partitioning({}, ranks, self.coord_math)\n"
          "            except ValueError:\n                pass", "E3"),
        M("benign: merge two guards with or", pt,
          "        if len(all_parts[part_ranks]) > 1:\n            raise ValueError(\n"
          "                \"flatten() combined with other operators on rank(s) \" +\n"
          "                str(part_ranks))\n\n        if len(part_ranks) < 2:\n            raise ValueError(",
          "        if len(all_parts[part_ranks]) > 1 or len(part_ranks) < 2:\n            raise ValueError(",
          (), benign=True),
        M("benign: message changed", "teaal/parse/bindings.py", "\"Accelerator config and prefix missing for Einsum \"",
          "\"No accelerator config for Einsum \"", (), benign=True),
    ]
