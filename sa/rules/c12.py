"""
C12 - every trace the metrics dump consumes is produced during collection.

Decided (DESIGN.md section 3, C12): the two sides that only meet through
file-name strings use the same strings, by construction of the emitters
  T1 one source of lazy labels; vocabulary literals only in ir/metrics.py;
     get_payload label producer == label source; prefix tests spell a prefix
  T2 eager trace schema agrees between producers, consumer and tracker set
  T3 every consumed file name is <prefix>-<rank>-<label>.csv with the prefix
     that beginCollect received
  T4 begin/end pairing
  T5 intersector create / feed / query agree
  T6 the sibling predicates that decide "payload needs the iter filter" agree
  T7 one rule for choosing the leader
  T8 the two views of the expanded bindings stay in step
Not decided: that rank and tensor plugged into the schema coincide (data).
"""

from __future__ import annotations

import ast
import re
from typing import Dict, List, Optional, Set, Tuple

from sa import paths
from sa.db import DB, AnalysisError, FuncInfo, norm, walk_no_nested
from sa.fixtures import fixture
from sa.report import Report
from sa.rules.c06 import show
from sa.rules.c09 import analyse
from sa.values import Lst, Str, alts_of

VOCAB = ("intersect_", "union_", "populate_")
COLL = "teaal.trans.collector.Collector"
MET = "teaal.ir.metrics.Metrics"


def _strs(node: ast.AST) -> List[ast.Constant]:
    return [n for n in ast.walk(node) if isinstance(n, ast.Constant) and isinstance(n.value, str)]


def _label_part(t: Tuple) -> Optional[Tuple]:
    """label segment of a file-name template <prefix>-<rank>-<label>.csv"""
    s = show(t)
    if not s.endswith(".csv"):
        return None
    parts = s[:-4].split("-")
    if len(parts) < 3:
        return None
    return tuple(parts[2:])


def _norm_loop(lp: ast.For) -> str:
    """loop text with the loop variable and the receiver renamed canonically"""
    tgt = lp.target.id if isinstance(lp.target, ast.Name) else "?"
    it = lp.iter
    recv = None
    if isinstance(it, ast.Subscript) and isinstance(it.value, ast.Call) and \
            isinstance(it.value.func, ast.Attribute) and it.value.func.attr == "get_bindings":
        recv = norm(it.value.func.value)
    sel = None
    take = None
    stops = False
    for n in ast.walk(lp):
        if isinstance(n, ast.If) and isinstance(n.test, ast.Compare) and len(n.test.ops) == 1 and \
                isinstance(n.test.ops[0], ast.Eq):
            l = n.test.left
            if isinstance(l, ast.Subscript) and isinstance(l.value, ast.Name) and l.value.id == tgt and \
                    isinstance(l.slice, ast.Constant):
                sel = "%s==%s" % (l.slice.value, "rank" if isinstance(n.test.comparators[0], ast.Name) else "?")
                for s in n.body:
                    if isinstance(s, ast.Assign) and isinstance(s.value, ast.Subscript) and \
                            isinstance(s.value.value, ast.Name) and s.value.value.id == tgt and \
                            isinstance(s.value.slice, ast.Constant):
                        take = s.value.slice.value
                    if isinstance(s, ast.Break):
                        stops = True
    return "for b in <%s>.get_bindings()[einsum]: if b[%s]: take b[%s]%s" % (
        "R" if recv else "?", sel, take, "; break" if stops else "")


@fixture("C12/T11 coarse de-duplication matcher")
def _fx_t11() -> bool:
    src = ("def f(ts):\n    seen = set()\n    for t in ts:\n        name = t.name()\n"
           "        for r, k in t.info():\n            if name in seen:\n                continue\n"
           "            seen.add(name)\n            place(r, k)\n"
           "def g(ts):\n    seen = set()\n    for t in ts:\n        for r in t.info():\n"
           "            key = (t.name(), r)\n            if key not in seen:\n                seen.add(key)\n")
    tree = paths.link_parents(ast.parse(src))
    f_, g_ = tree.body
    return len(paths.coarse_dedup_skips(f_)) == 1 and not paths.coarse_dedup_skips(g_)


def run(db: DB, rep: Report) -> None:
    rep.explanation = (
        "String-template analysis of the emitters in trans/collector.py, trans/header.py and the "
        "label tables of ir/metrics.py. The abstract interpreter gives, for every EString the "
        "collector emits and for the file name Collector.__get_trace returns, the set of templates "
        "(literal pieces and holes). Producer templates (Metrics.trace type_ argument, eager tree "
        "traces, tracker sets) and consumer templates (file names handed to Traffic/Compute models) "
        "are compared piecewise; vocabulary literals are located by scanning every string constant "
        "of teaal/; begin/end, the intersector life cycle, the sibling payload-filter predicates, the "
        "three leader-selection loops and the dual-view appends are compared structurally.")
    rep.trusted += ["abstract interpreter string templates (C09)"]
    rep.assumptions += ["rank and tensor names plugged into the schema by both sides coincide (binding data)"]
    pm, hm, it = analyse(db)
    C = db.cls(COLL)
    Mx = db.cls(MET)

    def sites(func_short: str, role: str):
        return [r for r in hm.names.values() if r["role"] == role and r["func"] is not None and
                r["func"].short == func_short]

    # ---- T1 --------------------------------------------------------------------
    rep.rule("T1", "single source of lazy trace labels", 5)
    for m in db.modules.values():
        for n in _strs(m.tree):
            for v in VOCAB:
                if n.value.startswith(v):
                    fi = db.func_of(n)
                    rep.check("T1", m.name == "teaal.ir.metrics", db.loc(n), fi.short if fi else m.name,
                              "label-literal:%s@%s" % (n.value, m.name),
                              "label vocabulary literal '%s' in %s" % (n.value, m.name),
                              "the trace-label literal '%s' is constructed in %s; lazy labels must come "
                              "from the fiber_traces table of ir/metrics.py only, otherwise producer and "
                              "consumer can drift apart" % (n.value, m.name))
    # the label passed to Metrics.trace / consumed: sources of the local
    sc = C.methods["set_collecting"]
    tr_sites = [r for r in sites("Collector.set_collecting", "string")
                if any("eager_" in show(t) or show(t) == "iter" for t in r["tmpls"])]
    if len(tr_sites) != 1:
        raise AnalysisError("type_ label site of set_collecting not found")
    # the label templates the builder interpreter derives for that argument: 'iter', the eager schema,
    # and otherwise only what Metrics.get_fiber_trace returns (an opaque string)
    srcs = {show(t) for t in tr_sites[0]["tmpls"]}
    calls_gft = any(isinstance(x, ast.Call) and isinstance(x.func, ast.Attribute) and
                    x.func.attr == "get_fiber_trace" for x in walk_no_nested(sc.node))
    ok = srcs == {"iter", "eager_□_□_read", "eager_□_□_write", "□"} and calls_gft
    rep.check("T1", ok, db.loc(tr_sites[0]["node"]), sc.short, "producer-label-sources",
              "registered label comes from %s" % sorted(srcs),
              "the label registered with Metrics.trace in set_collecting comes from %s; expected exactly "
              "'iter', Metrics.get_fiber_trace(...) and the eager schema" % sorted(srcs))
    gt = C.methods["__get_trace"]
    calls = [n for n in walk_no_nested(gt.node) if isinstance(n, ast.Call) and isinstance(n.func, ast.Attribute)
             and n.func.attr == "get_fiber_trace"]
    ok = len(calls) == 1 and len(calls[0].args) == 3 and \
        norm(calls[0].args[0]) == "binding['tensor']" and norm(calls[0].args[1]) == "binding['rank']"
    rep.check("T1", ok, db.loc(gt.node), gt.short, "consumer-label-source",
              "consumed lazy label = get_fiber_trace(binding['tensor'], binding['rank'], is_read)",
              "Collector.__get_trace does not take the consumed lazy label from "
              "Metrics.get_fiber_trace(binding['tensor'], binding['rank'], ...)")
    ct = C.methods["consume_traces"]
    ok = any(isinstance(n, ast.Call) and isinstance(n.func, ast.Attribute) and n.func.attr == "get_coiter_traces"
             for n in walk_no_nested(ct.node))
    gct = Mx.methods["get_coiter_traces"]
    ok = ok and any(isinstance(n, ast.Return) and "self.coiter_traces" in norm(n.value)
                    for n in walk_no_nested(gct.node))
    rep.check("T1", ok, db.loc(ct.node), ct.short, "coiter-label-source",
              "intersector traces come from Metrics.coiter_traces",
              "consume_traces no longer takes its labels from Metrics.get_coiter_traces / coiter_traces")
    # coiter_traces entries are read out of fiber_traces
    bft = Mx.methods["__build_fiber_traces"]
    tl = {n.targets[0].id for n in walk_no_nested(bft.node) if isinstance(n, ast.Assign) and
          isinstance(n.targets[0], ast.Name) and norm(n.value).startswith("self.coiter_traces[")}
    apps = [n for n in walk_no_nested(bft.node) if isinstance(n, ast.Call) and isinstance(n.func, ast.Attribute)
            and n.func.attr == "append" and isinstance(n.func.value, ast.Name) and n.func.value.id in tl]
    ok = len(apps) >= 2 and all(norm(a.args[0]).startswith("self.fiber_traces[") for a in apps)
    rep.check("T1", ok, db.loc(bft.node), bft.short, "coiter-from-fiber-traces",
              "coiter trace lists are filled from self.fiber_traces entries (%d appends)" % len(apps),
              "Metrics.__build_fiber_traces fills a coiterator's trace list with something other than "
              "entries of self.fiber_traces",
              decided=len(apps) >= 2)
    # get_payload label: producer template == source template; prefix tests
    gp_prod = [r for r in hm.names.values() if r["role"] == "string" and
               any(show(t).startswith("get_payload") for t in r["tmpls"])]
    gft = Mx.methods["get_fiber_trace"]
    src_lits = [c.value for c in _strs(gft.node) if c.value.startswith("get_payload")]
    prod_t = {show(t) for r in gp_prod for t in r["tmpls"]}
    ok = len(gp_prod) == 1 and len(src_lits) == 1 and prod_t == {src_lits[0] + "□"}
    # both append the tensor's root name
    label_known = bool(prod_t) and bool(src_lits)
    if ok:
        ret = [n for n in walk_no_nested(gft.node) if isinstance(n, ast.Return) and src_lits[0] in
               [c.value for c in _strs(n)]]
        tail = None
        if len(ret) == 1:
            rv = ret[0].value
            if isinstance(rv, ast.BinOp) and isinstance(rv.op, ast.Add) and isinstance(rv.right, ast.Name):
                tail = rv.right.id                       # "get_payload_" + tensor
            elif isinstance(rv, ast.JoinedStr) and len(rv.values) == 2 and \
                    isinstance(rv.values[0], ast.Constant) and isinstance(rv.values[1], ast.FormattedValue) and \
                    isinstance(rv.values[1].value, ast.Name) and rv.values[1].format_spec is None and \
                    rv.values[1].conversion == -1:
                tail = rv.values[1].value.id             # f"get_payload_{tensor}"
        ok = tail == gft.call_params[0]
        label_known = tail is not None
    rep.check("T1", ok, db.loc(gft.node), gft.short, "get_payload-label",
              "get_payload label: producer %s, source '%s' + tensor" % (sorted(prod_t), src_lits[:1]),
              "the trace= label Header.make_get_payload emits (%s) and the label "
              "Metrics.get_fiber_trace returns for ranks outside the loop order (%s + tensor) differ" %
              (sorted(prod_t), src_lits),
              decided=label_known)
    n_pref = 0
    for f in (gt, Mx.methods["get_collected_tensor_info"]):
        for n in walk_no_nested(f.node):
            if isinstance(n, ast.Compare) and isinstance(n.left, ast.Subscript) and \
                    isinstance(n.left.slice, ast.Slice) and isinstance(n.comparators[0], ast.Constant) and \
                    isinstance(n.comparators[0].value, str):
                n_pref += 1
                lit = n.comparators[0].value
                hi = n.left.slice.upper
                ok = n.left.slice.lower is None and isinstance(hi, ast.Constant) and hi.value == len(lit) and \
                    bool(src_lits) and src_lits[0].startswith(lit)
                rep.check("T1", ok, db.loc(n), f.short, "prefix-test:" + norm(n),
                          "prefix test %s spells a prefix of '%s' of the sliced length" % (norm(n), src_lits[:1]),
                          "the test %s compares a slice of length %s with '%s' (length %d), which is not a "
                          "prefix of the get_payload label '%s': the test can never (or always) succeed" %
                          (norm(n), norm(hi) if hi is not None else "?", lit, len(lit), src_lits[:1]))
    few_prefix_tests = n_pref < 2      # decided by T6 (the two sides must still agree)

    # ---- T2 / T3 -----------------------------------------------------------------
    rep.rule("T2", "eager trace schema agrees between producers, consumer and tracker", 4)
    rep.rule("T3", "consumed file names are <prefix>-<rank>-<label>.csv with the collection prefix", 4)
    prod_eager: Set[str] = set()
    for fs in ("Collector.set_collecting", "Collector.trace_tree"):
        for r in sites(fs, "string"):
            for t in r["tmpls"]:
                if show(t).startswith("eager_"):
                    prod_eager.add(show(t))
    cons: Set[str] = set()
    cons_eager: Set[str] = set()
    n_ret = 0
    for k, v in it.memo.items():
        if k[0] == gt.qualname:
            for a in alts_of(v):
                if isinstance(a, Lst) and a.items and isinstance(a.items[0], Str):
                    n_ret += 1
                    for t in a.items[0].tmpls:
                        cons.add(show(t))
                        lp = _label_part(t)
                        if lp and lp[0].startswith("eager_"):
                            cons_eager.add("-".join(lp))
    if not n_ret:
        raise AnalysisError("abstract value of Collector.__get_trace not available")
    rep.check("T2", bool(prod_eager) and cons_eager == prod_eager, db.loc(gt.node), gt.short, "eager-schema",
              "eager labels: produced %s, consumed %s" % (sorted(prod_eager), sorted(cons_eager)),
              "eager trace labels registered during collection %s differ from those the dump consumes %s" %
              (sorted(prod_eager), sorted(cons_eager)),
              decided=bool(prod_eager) and bool(cons_eager))
    # the tracker set bound in make_loop_header and read in trace_tree
    tracker_b = {show(t) for r in hm.names.values() if r["role"] == "binder" and r["func"] is not None
                 and r["func"].short == "Collector.make_loop_header" for t in r["tmpls"]}
    tracker_r = {show(t) for r in hm.names.values() if r["role"] == "reader" and r["func"] is not None
                 and r["func"].short == "Collector.trace_tree" for t in r["tmpls"] if show(t).startswith("eager_")}
    rep.check("T2", bool(tracker_b) and tracker_r == tracker_b, db.loc(C.methods["make_loop_header"].node),
              "Collector.make_loop_header", "eager-tracker",
              "tracker set bound as %s, read as %s" % (sorted(tracker_b), sorted(tracker_r)),
              "the eager tracker set is bound as %s but read as %s" % (sorted(tracker_b), sorted(tracker_r)),
              decided=bool(tracker_b) and bool(tracker_r))
    # the read tracker is the read trace label (same template)
    reads = {x for x in prod_eager if x.endswith("_read")}
    rep.check("T2", tracker_b == reads, db.loc(C.methods["trace_tree"].node), "Collector.trace_tree",
              "tracker==read-label", "tracker name equals the eager read label %s" % sorted(reads),
              "tracker set name %s and eager read label %s no longer share one schema" %
              (sorted(tracker_b), sorted(reads)),
              decided=bool(tracker_b) and bool(reads))
    both = {x.rsplit("_", 1)[1] for x in prod_eager}
    rep.check("T2", both == {"read", "write"}, db.loc(sc.node), sc.short, "eager-suffixes",
              "eager labels carry exactly the suffixes read/write",
              "eager labels carry suffixes %s" % sorted(both))
    for s in sorted(cons):
        ok = s.count("-") == 2 and s.endswith(".csv") and s.startswith("□-□-")
        rep.check("T3", ok, db.loc(gt.node), gt.short, "file:" + s, "consumed file name " + s,
                  "Collector.__get_trace can return the file name '%s', which is not "
                  "<prefix>-<rank>-<label>.csv" % s)
    # filterTrace arguments: input, filter (iter), output (payload) built from the same prefix
    ft = [n for n in walk_no_nested(gt.node) if isinstance(n, ast.ListComp) and
          isinstance(n.generators[0].iter, ast.List) and len(n.generators[0].iter.elts) == 3]
    ok = False
    if len(ft) == 1:
        a, b, c = [paths.flow_text(x, ft[0], gt.node) for x in ft[0].generators[0].iter.elts]
        pre_names = [n.targets[0].id for n in walk_no_nested(gt.node) if isinstance(n, ast.Assign) and
                     isinstance(n.targets[0], ast.Name) and "get_prefix" in paths.called_names([n.value])]
        pre = paths.flow_text(ast.Name(id=pre_names[0], ctx=ast.Load()), ft[0], gt.node) if pre_names else "?"
        rets_ = [n for n in walk_no_nested(gt.node) if isinstance(n, ast.Return) and isinstance(n.value, ast.Tuple)]
        ret_name = norm(rets_[0].value.elts[0]) if rets_ else "?"
        ok = a.startswith(pre) and b.startswith(pre) and c.startswith(pre) and b.endswith("'iter.csv'") and \
            c.endswith("'_payload.csv'") and a.endswith("'.csv'") and \
            norm(ft[0].generators[0].iter.elts[2]) == ret_name
    rep.check("T3", ok, db.loc(gt.node), gt.short, "filterTrace-args",
              "filterTrace(<label>.csv, iter.csv, <label>_payload.csv) share the prefix; the output is the returned name",
              "the arguments of the emitted Traffic.filterTrace are not (<prefix><label>.csv, <prefix>iter.csv, "
              "<prefix><label>_payload.csv) with the third one returned as the consumed trace")
    # the prefix: get_prefix(einsum) in __get_trace, __build_sequencers and start()
    pref_calls = {}
    for nm in ("__get_trace", "__build_sequencers", "start"):
        f = C.methods[nm]
        cs = [n for n in walk_no_nested(f.node) if isinstance(n, ast.Call) and isinstance(n.func, ast.Attribute)
              and n.func.attr == "get_prefix"]
        pref_calls[nm] = {paths.flow_text(c, c, f.node) for c in cs}
    ok = all(pref_calls[k] for k in pref_calls) and len(set(map(frozenset, pref_calls.values()))) == 1
    rep.check("T3", ok, db.loc(C.methods["start"].node), "Collector.start", "prefix-source",
              "beginCollect and the consumed file names use %s" % sorted(next(iter(pref_calls.values()))),
              "the prefix given to Metrics.beginCollect and the prefix of consumed file names are computed "
              "differently: %s" % {k: sorted(v) for k, v in pref_calls.items()})
    seqs = [r for r in sites("Collector.__build_sequencers", "string") if any("iter" in show(t) for t in r["tmpls"])]
    st = {show(t) for r in seqs for t in r["tmpls"]}
    rep.check("T3", st == {"□-□-iter.csv"}, db.loc(C.methods["__build_sequencers"].node),
              "Collector.__build_sequencers", "sequencer-file", "sequencer consumes %s" % sorted(st),
              "the sequencer model consumes %s instead of <prefix>-<rank>-iter.csv" % sorted(st),
              decided=bool(st))

    # ---- T4 --------------------------------------------------------------------
    rep.rule("T4", "collection is opened and closed exactly once per Einsum", 4)
    for api, owner in (("beginCollect", "start"), ("endCollect", "end")):
        ss = [r for r in hm.names.values() if r["role"] == "method" and any(show(t) == api for t in r["tmpls"])]
        ok = len(ss) == 1 and ss[0]["func"].short == "Collector." + owner and \
            not any(isinstance(p, (ast.For, ast.While)) for p in _parents(ss[0]["node"], ss[0]["func"].node)) \
            and not paths.guards(ss[0]["node"], stop=ss[0]["func"].node)
        rep.check("T4", ok, db.loc(ss[0]["node"]) if ss else db.loc(C.node), "Collector." + owner,
                  "once:" + api, "%s is emitted at exactly one site, unconditionally, in Collector.%s" % (api, owner),
                  "Metrics.%s is not emitted exactly once per call of Collector.%s (sites: %s)" %
                  (api, owner, [db.loc(x["node"]) for x in ss]))
    tn = db.func("teaal.trans.hifiber.HiFiber.__trans_nodes")
    for meth, lit in (("start", "Start"), ("end", "End")):
        # anywhere in the translator class (the dispatch may be split over helper methods or a table)
        cs = []
        for g_ in tn.cls.methods.values():
            for n in ast.walk(g_.node):
                if isinstance(n, ast.Call) and isinstance(n.func, ast.Attribute) and n.func.attr == meth and \
                        norm(n.func.value) == "self.collector":
                    cs.append((n, g_))
        ok = len(cs) == 1
        wrong_arm = False
        if ok:
            c0, g0 = cs[0]
            sel: List[str] = []          # literals that select this call
            for t, pol in paths.guards(c0, stop=g0.node):
                for a, p in paths.conjuncts(t, pol):
                    txt = paths.inlined_text(a, g0.node)
                    m_ = re.search(r"\.get_type\(\) == '(\w+)'$", txt)
                    if m_ and p:
                        sel.append(m_.group(1))
            for p_ in paths.parents(c0, g0.node):
                # value of a {"Start": ..., "End": ...} dispatch table (possibly inside a lambda)
                if isinstance(p_, ast.Dict):
                    for k_, v_ in zip(p_.keys, p_.values):
                        if isinstance(k_, ast.Constant) and any(x is c0 for x in ast.walk(v_)):
                            sel.append(k_.value)
            ok = sel == [lit]
            wrong_arm = bool(sel) and sel != [lit]
        rep.check("T4", ok, db.loc(cs[0][0]) if cs else db.loc(tn.node), tn.short, "arm:" + meth,
                  "collector.%s() is called only from the MetricsNode('%s') arm" % (meth, lit),
                  "collector.%s() is not called from exactly the MetricsNode('%s') arm" % (meth, lit),
                  decided=wrong_arm or len(cs) > 1)
    bl = db.func("teaal.ir.flow_graph.FlowGraph.__build_loop_nest")
    gs = {}
    for lit in ("Start", "End"):
        cs = [n for n in walk_no_nested(bl.node) if isinstance(n, ast.Call) and norm(n) == "MetricsNode('%s')" % lit]
        gs[lit] = {tuple(sorted(norm(t) + str(p) for t, p in paths.guards(c, stop=bl.node))) for c in cs}
    ok = gs["Start"] and gs["Start"] == gs["End"] and len(gs["Start"]) == 1
    rep.check("T4", bool(ok), db.loc(bl.node), bl.short, "start-end-same-guard",
              "MetricsNode('Start') and MetricsNode('End') are added under the same guard",
              "the flow graph adds the Start and End metrics nodes under different conditions: %s" % gs)

    # ---- T5 --------------------------------------------------------------------
    rep.rule("T5", "intersector create / feed / query agree", 3)
    create = {show(t) for r in sites("Collector.create_component", "binder") for t in r["tmpls"]}
    feed = {show(t) for r in sites("Collector.consume_traces", "reader") for t in r["tmpls"] if show(t) != "Metrics"}
    query = {show(t) for r in sites("Collector.__build_intersections", "reader") for t in r["tmpls"]
             if show(t) not in ("metrics",)}
    rep.check("T5", create == feed == query == {"□_□"}, db.loc(C.methods["create_component"].node),
              "Collector.create_component", "intersector-name",
              "intersector variable: created %s, fed %s, queried %s" % (sorted(create), sorted(feed), sorted(query)),
              "the intersector model variable is created as %s, fed as %s and queried as %s" %
              (sorted(create), sorted(feed), sorted(query)),
              decided=bool(create) and bool(feed) and bool(query))

    def comp_loop(f: FuncInfo) -> Tuple[str, str]:
        outer = [n for n in walk_no_nested(f.node) if isinstance(n, ast.For) and
                 "get_components" in paths.called_names([n.iter])]
        if len(outer) != 1:
            return "?", "?"
        src = norm(outer[0].iter).replace("\n", "")
        inner = [n for n in ast.walk(outer[0]) if isinstance(n, ast.For) and n is not outer[0] and
                 "get_bindings" in paths.called_names([n.iter])]
        tv = outer[0].target.id if isinstance(outer[0].target, ast.Name) else "?"
        isrc = norm(inner[0].iter).replace(tv, "R") if inner else "?"
        import re
        src = re.sub(r"get_components\(\w+,", "get_components(E,", src)
        isrc = re.sub(r"\[\w+\]$", "[E]", isrc)
        return src.replace("self.metrics.get_hardware()", "HW").replace("self.hardware", "HW"), isrc
    l_create = comp_loop(C.methods["__build_components"])
    l_query = comp_loop(C.methods["__build_intersections"])
    l_map = comp_loop(Mx.methods["__build_coiter_ranks"])
    ok = l_create == l_query == l_map and "IntersectorComponent" in l_create[0] and \
        l_create[1] == "R.get_bindings()[E]"
    rep.check("T5", ok, db.loc(C.methods["__build_components"].node), "Collector.__build_components",
              "intersector-source", "create / query / coiterator map iterate %s x %s" % l_create,
              "the loops that create intersector models %s, query them %s and map ranks to coiterators %s "
              "do not range over the same components and bindings" % (l_create, l_query, l_map),
              decided="?" not in (l_create + l_query + l_map))
    mlf = C.methods["make_loop_footer"]
    ok = any(isinstance(n, ast.Call) and isinstance(n.func, ast.Attribute) and n.func.attr == "consume_traces"
             and len(n.args) == 2 and "get_name" in norm(n.args[0]) and
             any("get_coiter" in norm(v) for st, v in paths.defs_of(mlf.node, norm(n.args[0]).split(".")[0]) if v)
             for n in walk_no_nested(mlf.node))
    rep.check("T5", ok, db.loc(mlf.node), mlf.short, "feed-driver",
              "the loop footer feeds the coiterator Metrics.get_coiter(rank) names",
              "make_loop_footer does not feed the intersector returned by Metrics.get_coiter(rank)")

    # ---- T6 --------------------------------------------------------------------
    rep.rule("T6", "sibling predicates for the payload filter agree", 2)
    def filter_pred(f: FuncInfo):
        """the if-statement whose test reads the label returned by get_fiber_trace"""
        labels = {n.targets[0].id for n in walk_no_nested(f.node) if isinstance(n, ast.Assign) and
                  isinstance(n.targets[0], ast.Name) and "get_fiber_trace" in paths.called_names([n.value])}
        for n in walk_no_nested(f.node):
            if isinstance(n, ast.If) and (paths.load_names(n.test) & labels):
                atoms = paths.conjuncts(n.test, True)
                return n, [a if p else ast.UnaryOp(op=ast.Not(), operand=a) for a, p in atoms]
        return None, []
    n1, n1_atoms = filter_pred(Mx.methods["get_collected_tensor_info"])
    n2, n2_atoms = filter_pred(gt)
    if n1 is None or n2 is None:
        raise AnalysisError("payload-filter predicates not found")

    def classify(txts: List[str]) -> Set[str]:
        out = set()
        for t in txts:
            try:
                te = ast.parse(t, mode="eval").body
            except SyntaxError:
                te = None
            if isinstance(te, ast.Compare) and len(te.ops) == 1 and isinstance(te.ops[0], ast.NotIn) and \
                    isinstance(te.comparators[0], (ast.List, ast.Tuple, ast.Set)):
                # membership in a displayed collection is an *exact* comparison with each element
                done = True
                for x in te.comparators[0].elts:
                    if isinstance(x, ast.Constant) and isinstance(x.value, str):
                        out.add("not-iter" if x.value == "iter" else "not-exactly:" + x.value)
                        continue
                    # the label Metrics.get_fiber_trace builds for the same tensor: equivalent to the
                    # prefix test; any other spelling of it never matches
                    exp = None
                    if isinstance(te.left, ast.Call) and isinstance(te.left.func, ast.Attribute) and \
                            te.left.func.attr == "get_fiber_trace" and te.left.args and src_lits:
                        exp = "%r + %s" % (src_lits[0], norm(te.left.args[0]))
                    if exp is not None and norm(x) == exp:
                        out.add("not-get_payload")
                    elif any(isinstance(c_, ast.Constant) and isinstance(c_.value, str) and
                             c_.value.startswith("get_payload") for c_ in ast.walk(x)):
                        out.add("not-exactly:" + norm(x))
                    else:
                        done = False
                if done:
                    continue
            if re.fullmatch(r"not .+\.startswith\('get_payload'\)", t):
                out.add("not-get_payload")
                continue
            if t.endswith("!= 'iter'"):
                out.add("not-iter")
            elif "[:11] != 'get_payload'" in t:
                out.add("not-get_payload")
            elif re.fullmatch(r"\w+ == 1", t) or t == "binding['type'] == 'payload'":
                out.add("payload")
            else:
                out.add("other:" + t)
        return out
    a1 = [paths.inlined_text(a_, Mx.methods["get_collected_tensor_info"].node) for a_ in n1_atoms]
    a2 = [paths.inlined_text(a_, gt.node) for a_ in n2_atoms]
    c1, c2 = classify(a1), classify(a2)
    want = {"payload", "not-iter", "not-get_payload"}
    if few_prefix_tests and c1 == c2 and c1 != want:
        raise AnalysisError("fewer than 2 get_payload prefix tests found")
    want = {"payload", "not-iter", "not-get_payload"}
    rep.check("T6", c1 == want, db.loc(n1), "Metrics.get_collected_tensor_info", "filter-pred:registration",
              "registration of the loop's iter trace under %s" % sorted(c1),
              "registration decides 'payload needs the iter filter' under %s, consumption under %s; a "
              "consumed iter.csv is never registered, or the reverse" % (sorted(c1), sorted(c2)),
              decided=not any(x.startswith("other:") for x in c1))
    rep.check("T6", c2 == want, db.loc(n2), gt.short, "filter-pred:consumption",
              "filterTrace against iter.csv under %s" % sorted(c2),
              "consumption decides 'payload needs the iter filter' under %s, registration under %s" %
              (sorted(c2), sorted(c1)), decided=not any(x.startswith("other:") for x in c2))
    # the payload selector of the registration side indexes the (coord, payload, elem) tuple
    gsm = Mx.methods["get_source_memory"]
    order = [n for n in walk_no_nested(gsm.node) if isinstance(n, ast.List) and
             [getattr(e, "value", None) for e in n.elts] == ["coord", "payload", "elem"]]
    rep.check("T6", len(order) == 1, db.loc(gsm.node), gsm.short, "path-tuple-order",
              "traffic path tuples are ordered (coord, payload, elem): index 1 is the payload path",
              "the order of the (coord, payload, elem) path tuple changed; 'i == 1' no longer selects payload")

    # ---- T7 --------------------------------------------------------------------
    rep.rule("T7", "one rule for choosing the leader", 2)
    leader_loops = []
    for f in (db.func("teaal.trans.equation.Equation.__make_input_iter_expr"), bft):
        for n in walk_no_nested(f.node):
            if isinstance(n, ast.For) and "get_bindings" in paths.called_names([n.iter]) and \
                    any(isinstance(c, ast.Constant) and c.value == "leader" for c in ast.walk(n)):
                leader_loops.append((f, n))
    forms = [_norm_loop(n) for f, n in leader_loops]
    want_form = "for b in <R>.get_bindings()[einsum]: if b[rank==rank]: take b[leader]; break"
    for (f, n), form in zip(leader_loops, forms):
        rep.check("T7", form == want_form, db.loc(n), f.short, "leader-loop@%s:%d" % (f.short, forms.index(form)),
                  "leader lookup: " + form,
                  "the leader of a leader-follower intersection is looked up differently here (%s) than "
                  "the first-match rule (%s); the consumed trace would belong to a different tensor than "
                  "the one that leads the iteration" % (form, want_form))

    # the trace a leader-follower intersector consumes is the leader's
    lf_ifs = [n for n in walk_no_nested(bft.node) if isinstance(n, ast.If) and isinstance(n.test, ast.Call)
              and norm(n.test.func) == "isinstance" and norm(n.test.args[1]) == "LeaderFollowerComponent"
              and any(isinstance(x, ast.Call) and isinstance(x.func, ast.Attribute) and x.func.attr == "append"
                      and norm(x.args[0]).startswith("self.fiber_traces[") for s_ in n.body for x in ast.walk(s_))]
    ok = False
    t7_decided = False
    why = "branch not found"
    if len(lf_ifs) == 1:
        apps_ = [x for s_ in lf_ifs[0].body for x in ast.walk(s_) if isinstance(x, ast.Call) and
                 isinstance(x.func, ast.Attribute) and x.func.attr == "append" and
                 norm(x.args[0]).startswith("self.fiber_traces[")]
        why = ""
        ok = len(apps_) == 1
        if ok:
            a = apps_[0].args[0]          # self.fiber_traces[rank][X][True]
            key = a.value.slice if isinstance(a, ast.Subscript) and isinstance(a.value, ast.Subscript) else None
            vals: List[Optional[ast.AST]] = [key]
            rdefs = []
            if isinstance(key, ast.Name):
                rdefs = paths.reaching_defs(key.id, apps_[0], bft.node)
                vals = [v for _, v in rdefs]
            # the level's rank: self.fiber_traces[<rank>][key][True]
            rank_e = a.value.value.slice if isinstance(a, ast.Subscript) and isinstance(a.value, ast.Subscript) \
                and isinstance(a.value.value, ast.Subscript) else None
            rank_free = []
            if isinstance(rank_e, ast.Name):
                here = {id(t) for t, _ in paths.guards(apps_[0], stop=bft.node)}
                for st_, v in rdefs:
                    if v is None or (isinstance(v, ast.Constant) and v.value in ("", None)):
                        continue
                    dep = set(paths.load_names(v))
                    if isinstance(st_, ast.stmt):
                        for t, _ in paths.guards(st_, stop=bft.node):
                            if id(t) not in here:
                                dep |= paths.load_names(t)
                    if rank_e.id not in dep:
                        rank_free.append(v)

            def is_leader(v) -> bool:
                return isinstance(v, ast.Subscript) and isinstance(v.slice, ast.Constant) and \
                    v.slice.value == "leader"

            def neutral(v) -> bool:
                return isinstance(v, ast.Constant) and v.value in ("", None)
            ok = bool(vals) and any(is_leader(v) for v in vals) and \
                all(is_leader(v) or neutral(v) for v in vals)
            # recognisably another tensor's name: <T>.root_name() / a constant
            t7_decided = ok or all(
                is_leader(v) or neutral(v) or isinstance(v, ast.Constant) or
                (isinstance(v, ast.Call) and isinstance(v.func, ast.Attribute) and
                 v.func.attr in ("root_name", "tensor_name")) for v in vals if v is not None) and \
                None not in vals and bool(vals)
            why = "the trace is looked up under %s" % " | ".join(norm(v) if v is not None else "?" for v in vals)
            if rank_free:
                # whatever its form, a leader chosen without looking at the level's rank is
                # another level's leader as soon as two ranks are bound
                ok, t7_decided = False, True
                why += "; %s does not depend on the rank %s being traced" % (norm(rank_free[0])[:50], rank_e.id)
    rep.check("T7", ok, db.loc(lf_ifs[0]) if lf_ifs else db.loc(bft.node), bft.short, "consumed-trace-is-leaders",
              "a leader-follower intersector consumes the trace registered for binding['leader']",
              "the trace a leader-follower intersector consumes is not the one registered for the bound "
              "leader (%s): the consumed trace differs from the consumable one when the leader is not the "
              "first factor" % why, decided=t7_decided)

    # ---- T10: no decision reads what a finished loop left behind ------------------
    rep.rule("T10", "registration / consumption decisions do not read a finished loop's last element", 30)
    for f in db.all_functions(["teaal.ir.metrics.", "teaal.trans.collector."]):
        left = paths.leftover_uses(f.node)
        bad = []
        for x, lp, nm in left:
            # only reads inside a test (if / while / conditional expression / comprehension filter)
            cur: ast.AST = x
            in_test = False
            for p_ in paths.parents(x, f.node):
                if isinstance(p_, (ast.If, ast.While, ast.IfExp)) and any(y is x for y in ast.walk(p_.test)):
                    in_test = True
                if isinstance(p_, ast.comprehension) and any(y is x for i_ in p_.ifs for y in ast.walk(i_)):
                    in_test = True
                if isinstance(p_, ast.stmt):
                    break
            if in_test:
                bad.append((x, lp, nm))
        rep.check("T10", not bad, db.loc(bad[0][0]) if bad else db.loc(f.node), f.short,
                  "leftover:" + (bad[0][2] if bad else f.short),
                  "%s: no test reads a name left behind by a finished loop" % f.short,
                  "%s decides on '%s' after the loop over %s (%s) that assigns it has finished: only the last "
                  "element of that collection is looked at, so a trace that an earlier element needs is not "
                  "registered (or not consumed) although its reader still exists" %
                  (f.short, bad[0][2] if bad else "", norm(bad[0][1].iter)[:40] if bad else "",
                   db.loc(bad[0][1]) if bad else ""))

    # ---- T12: the registration loops cover every level of every traffic path -------------
    # ---- T13: the dump sees the bindings registration sees ---------------------------------
    # Registration (Metrics.__build_traffic_paths -> get_collected_tensor_info) walks only the format
    # selected for this loop nest (format_options / get_loop_formats).  The dump must drop the buffer
    # bindings that name another format of the tensor, or it consumes trace files nothing produces.
    rep.rule("T13", "the buffer bindings whose traces the dump consumes are those of the format selected "
             "for the loop nest", 1)
    bt13 = C.methods.get("__build_traffic")
    if bt13 is None:
        raise AnalysisError("Collector.__build_traffic not found")
    n_t13 = 0

    def _format_filter(fn_) -> bool:
        lf = {st.targets[0].id for root_ in (fn_, bt13.node) for st in ast.walk(root_)
              if isinstance(st, ast.Assign) and len(st.targets) == 1
              and isinstance(st.targets[0], ast.Name) and "get_loop_formats" in paths.called_names([st.value])}
        for c_ in ast.walk(fn_):
            if not isinstance(c_, ast.Compare):
                continue
            txt = [norm(x) for x in [c_.left] + list(c_.comparators)]
            fm = any("['format']" in t_ or '["format"]' in t_ for t_ in txt)
            sel = any("get_loop_formats" in t_ or any(_re13.search(r"\b%s\b" % nm, t_) for nm in lf) for t_ in txt)
            if fm and sel:
                return True
        return False
    import re as _re13
    for it13 in [n for n in ast.walk(bt13.node) if isinstance(n, (ast.For, ast.comprehension)) and
                 "get_bindings" in paths.called_names([n.iter]) and
                 not isinstance(n.iter, ast.Name)]:
        holder = it13
        if isinstance(it13, ast.comprehension):
            holder = next(p_ for p_ in ast.walk(bt13.node) if isinstance(p_, (ast.ListComp, ast.SetComp, ast.DictComp,
                                                                               ast.GeneratorExp))
                          and it13 in p_.generators)
        # only the loop that selects the active bindings (it feeds the bindings the rest works on)
        n_t13 += 1
        scopes = [holder]
        for c_ in ast.walk(holder):
            if isinstance(c_, ast.Call) and isinstance(c_.func, ast.Attribute) and \
                    isinstance(c_.func.value, ast.Name) and c_.func.value.id in ("self", "Collector"):
                g_ = C.methods.get(c_.func.attr)
                if g_ is not None and g_ is not bt13:
                    scopes.append(g_.node)
        ok13 = any(_format_filter(sc) for sc in scopes)
        # a binding handed whole to code outside the Collector may be filtered there: cannot tell
        tgt13 = {x.id for x in ast.walk(it13.target) if isinstance(x, ast.Name)}
        handed_out = any(isinstance(c_, ast.Call) and any(isinstance(a_, ast.Name) and a_.id in tgt13 for a_ in c_.args)
                         and not (isinstance(c_.func, ast.Attribute) and c_.func.attr in C.methods)
                         and not (isinstance(c_.func, ast.Attribute) and c_.func.attr in ("append", "add"))
                         for c_ in ast.walk(holder))
        plain_iter = bool(_re13.fullmatch(r"\w+\.get_bindings\(\)\[\w+\]", norm(it13.iter)))
        rep.check("T13", ok13, db.loc(it13.iter), bt13.short, "bindings-of-selected-format",
                  "bindings are kept only if binding['format'] is the format get_loop_formats() selected",
                  "Collector.__build_traffic takes every binding of the buffer (%s), also those that name a "
                  "format of the tensor the loop nest does not use: their traces are never registered "
                  "(Metrics.__build_traffic_paths walks the selected format only), so the dump hands "
                  "Traffic.filterTrace / the traces dictionary file names nothing produced" % norm(it13.iter)[:60],
                  decided=ok13 or (plain_iter and not handed_out))
    if n_t13 < 1:
        rep.undecided("T13", db.loc(bt13.node), bt13.short, "no loop over the buffer's bindings found")

    rep.rule("T12", "the loops that register traces iterate whole collections (every path, every level)", 4)
    from sa.rules.c18 import _narrow_iter
    for f in (Mx.methods["get_collected_tensor_info"], C.methods["__build_trace_ranks"]):
        regs = [n for n in walk_no_nested(f.node) if isinstance(n, ast.Call) and isinstance(n.func, ast.Attribute)
                and (n.func.attr == "__add_collection" or
                     (n.func.attr == "add" and isinstance(n.func.value, ast.Name)))]
        seen12 = set()
        for rg in regs:
            for lp in [p_ for p_ in paths.parents(rg, f.node) if isinstance(p_, ast.For)]:
                if id(lp) in seen12:
                    continue
                seen12.add(id(lp))
                why = _narrow_iter(lp.iter)
                if why is None and isinstance(lp.iter, ast.Name):
                    v = paths.reaching_def(lp.iter.id, lp, f.node)
                    if v is not None:
                        why = _narrow_iter(v)
                rep.check("T12", why is None, db.loc(lp), f.short, "reg-loop:" + norm(lp.iter)[:50],
                          "registration loop over %s covers the whole collection" % norm(lp.iter)[:50],
                          "a loop around the trace registration in %s %s: the traces of the other elements "
                          "(deeper buffer levels, later paths) are consumed by the traffic model but never "
                          "registered" % (f.short, why))

    # every traffic-path registration is made per level of the path: the registration sits inside
    # rank -> path -> level loops over self.traffic_paths
    gci = Mx.methods["get_collected_tensor_info"]
    regs_t = [n for n in walk_no_nested(gci.node) if isinstance(n, ast.Call) and isinstance(n.func, ast.Attribute)
              and n.func.attr == "add" and isinstance(n.func.value, ast.Name)]
    n_depth = 0
    for rg in regs_t:
        loops_ = [p_ for p_ in paths.parents(rg, gci.node) if isinstance(p_, ast.For)][::-1]   # outermost first
        start = next((k for k, lp in enumerate(loops_) if "self.traffic_paths" in norm(lp.iter)), None)
        if start is None:
            continue        # the intersection part of the function
        depth = 1
        bound = {x.id for x in ast.walk(loops_[start].target) if isinstance(x, ast.Name)}
        for lp in loops_[start + 1:]:
            if paths.load_names(lp.iter) & bound:
                depth += 1
                bound = {x.id for x in ast.walk(lp.target) if isinstance(x, ast.Name)}
        n_depth += 1
        rep.check("T12", depth >= 3, db.loc(rg), gci.short, "reg-depth:" + norm(rg)[:50],
                  "%s is registered once per level of every traffic path (loop depth %d)" % (norm(rg)[:40], depth),
                  "the registration %s in %s is made once per traffic path (loop depth %d over "
                  "self.traffic_paths), not once per level of the path: when the same data is held in two "
                  "levels with different styles only one of the traces is registered, while the traffic "
                  "model of the other level still reads its file" % (norm(rg)[:50], gci.short, depth))
    if n_depth < 2:
        rep.undecided("T12", db.loc(gci.node), gci.short,
                      "the traffic-path registrations of get_collected_tensor_info were not found")

    # ---- T11: a de-duplication inside a per-element loop is keyed by the element --------
    rep.rule("T11", "trace placement is not skipped by a de-duplication coarser than the element", 30)
    if not _fx_t11():
        raise AnalysisError("T11 matcher does not fire on its positive example")
    for f in db.all_functions(["teaal.ir.metrics.", "teaal.trans.collector."]):
        bad11 = paths.coarse_dedup_skips(f.node)
        rep.check("T11", not bad11, db.loc(bad11[0][0]) if bad11 else db.loc(f.node), f.short,
                  "dedup:" + (bad11[0][2] if bad11 else f.short),
                  "%s: no per-element work is skipped by a key that ignores the element" % f.short,
                  "%s skips the work for an element of %s when '%s' was seen before, but that key does not "
                  "depend on the element (%s): every element after the first is skipped, so the trace a "
                  "later element registers is never produced in the loop nest" %
                  (f.short, norm(bad11[0][1].iter)[:40] if bad11 else "", bad11[0][2] if bad11 else "",
                   norm(bad11[0][1].target) if bad11 else ""))

    # ---- T9: the sequencer's consumed rank is the registered rank ------------------
    rep.rule("T9", "sequencer: registered rank == consumed rank (the binding's rank as written)", 2)
    for fname in ("__build_trace_ranks", "__build_sequencers"):
        g = C.methods[fname]
        loops_ = [n for n in walk_no_nested(g.node) if isinstance(n, ast.For) and isinstance(n.iter, ast.Call)
                  and isinstance(n.iter.func, ast.Attribute) and n.iter.func.attr == "get_ranks"
                  and isinstance(n.target, ast.Name)]
        ok = False
        used = "?"
        if len(loops_) == 1:
            rv = loops_[0].target.id
            if fname == "__build_trace_ranks":
                tups = [x for x in ast.walk(loops_[0]) if isinstance(x, ast.Tuple) and len(x.elts) == 5]
                ok = bool(tups) and all(isinstance(t.elts[1], ast.Name) and t.elts[1].id == rv for t in tups)
                used = norm(tups[0].elts[1]) if tups else "?"
            else:
                cats = [x for x in ast.walk(loops_[0]) if isinstance(x, ast.BinOp) and isinstance(x.op, ast.Add)
                        and isinstance(x.right, ast.Constant) and x.right.value == "-iter.csv"]
                ok = bool(cats) and all(isinstance(c.left, ast.BinOp) and isinstance(c.left.right, ast.Name)
                                        and c.left.right.id == rv for c in cats)
                used = norm(cats[0].left.right) if cats and isinstance(cats[0].left, ast.BinOp) else "?"
        rep.check("T9", ok, db.loc(loops_[0]) if loops_ else db.loc(g.node), g.short, "sequencer-rank@" + fname,
                  "%s uses the sequencer's rank as bound (%s)" % (fname, used),
                  "%s plugs %s into the trace name instead of the rank exactly as the sequencer binding "
                  "gives it; registration and consumption would name different ranks for a partitioned "
                  "rank" % (g.short, used),
              decided=used != "?")

    # ---- T8 --------------------------------------------------------------------
    rep.rule("T8", "expanded bindings are appended to both views", 2)
    ee = db.func("teaal.ir.component.BuffetComponent.expand_eager")
    apps = [n for n in walk_no_nested(ee.node) if isinstance(n, ast.Call) and isinstance(n.func, ast.Attribute)
            and n.func.attr == "append"]
    by_block: Dict[int, List[ast.Call]] = {}
    for a in apps:
        blk = paths.block_of(_stmt(a))[2]
        by_block.setdefault(id(blk), []).append(a)
    if len(by_block) < 2:
        raise AnalysisError("fewer than 2 append blocks in expand_eager")
    views = ["self.bindings[einsum]", "self.tensor_bindings[einsum][tensor]"]
    for blk_id, cs in by_block.items():
        recvs = sorted(paths.flow_text(c.func.value, c, ee.node) for c in cs)
        args = {norm(c.args[0]) for c in cs}
        ok = recvs == views and len(args) == 1
        known = all(r in views for r in recvs)
        rep.check("T8", ok, db.loc(cs[0]), ee.short, "dual-append@%d" % cs[0].lineno if False else
                  "dual-append:" + "|".join(recvs),
                  "expanded binding appended to %s" % recvs,
                  "an expanded binding is appended to %s with argument(s) %s; the dump's view "
                  "(self.bindings) and the traffic-path view (self.tensor_bindings) must receive the "
                  "same object on the same path" % (recvs, sorted(args)),
              decided=known)


def _stmt(n: ast.AST) -> ast.stmt:
    while not isinstance(n, ast.stmt):
        n = n.parent
    return n


def _parents(n: ast.AST, stop: ast.AST):
    p = getattr(n, "parent", None)
    while p is not None and p is not stop:
        yield p
        p = getattr(p, "parent", None)


def mutants(db: DB):
    from sa.selftest import M
    col, met, cmp_, hd = ("teaal/trans/collector.py", "teaal/ir/metrics.py", "teaal/ir/component.py",
                          "teaal/trans/header.py")
    return [
        M("revert F20 fix (bindings of every format are consumed)", col,
          "                if loop_formats.get(binding[\"tensor\"]) != binding[\"format\"]:\n                    continue\n\n", "", "T13"),
        M("traces registered once per path, from its first level", "teaal/ir/metrics.py",
          "                    for component, style in path:\n                        if isinstance(component, DRAMComponent):\n                            continue\n\n                        if style == \"lazy\":",
          "                    for component, style in path[-1:]:\n                        pass\n                    if True:\n                        if isinstance(component, DRAMComponent):\n                            continue\n\n                        if style == \"lazy\":",
          "T12"),
        M("only the first on-chip level registers its traces", "teaal/ir/metrics.py",
          "                    for component, style in path:\n                        if isinstance(component, DRAMComponent):\n                            continue\n\n                        if style == \"lazy\":",
          "                    for component, style in path[1:2]:\n                        if isinstance(component, DRAMComponent):\n                            continue\n\n                        if style == \"lazy\":",
          "T12"),
        M("consumption compares the get_payload label exactly", "teaal/trans/collector.py",
          "            if binding[\"type\"] == \"payload\" and fiber_trace != \"iter\" and \\\n                    fiber_trace[:11] != \"get_payload\":",
          "            if binding[\"type\"] == \"payload\" and fiber_trace not in (\"iter\", \"get_payload\"):",
          "T6"),
        M("leader looked up per Einsum, not per rank", met,
          "                            leader = \"\"\n                            for binding in coiter.get_bindings()[einsum]:\n                                if binding[\"rank\"] == rank:\n                                    leader = binding[\"leader\"]\n                                    break",
          "                            leader = coiter.get_bindings()[einsum][-1][\"leader\"]", "T7"),
        M("lazy decision reads the last buffer's style", met,
          "                        else:\n                            info.add((rank, style, False))\n\n        # Collect traces for intersection",
          "                        else:\n                            info.add((rank, style, False))\n\n                    if style == \"lazy\":\n                        info.add((rank, \"fiber\", False))\n\n        # Collect traces for intersection",
          "T10"),
        M("eager subtree placed once per tensor", col,
          "                        # Register the rank order explicitly\n                        register = True\n",
          "                        # Register the rank order explicitly\n                        register = True\n\n                        if tensor_name in traces:\n                            continue\n                        traces.add(tensor_name)\n",
          "T11"),
        M("producer suffix _read -> _rd", col, "            if is_read_trace:\n                trace += \"_read\"\n            else:\n                trace += \"_write\"\n\n                # We want to collect",
          "            if is_read_trace:\n                trace += \"_rd\"\n            else:\n                trace += \"_write\"\n\n                # We want to collect", "T2"),
        M("consumer separator - -> _", col, "        prefix = self.metrics.get_hardware().get_prefix(einsum) + \\\n            \"-\" + binding[\"rank\"] + \"-\"",
          "        prefix = self.metrics.get_hardware().get_prefix(einsum) + \\\n            \"-\" + binding[\"rank\"] + \"_\"", ("T3", "T2")),
        M("consumer extension", col, "            trace_fn += \".csv\"", "            trace_fn += \".trace\"", ("T3", "T2")),
        M("label literal built in the collector", col, "                trace_fn = prefix + fiber_trace + \".csv\"\n\n        return trace_fn, block",
          "                trace_fn = prefix + (fiber_trace or \"intersect_0\") + \".csv\"\n\n        return trace_fn, block", "T1"),
        M("get_payload label renamed on the producer side", hd, "                        \"get_payload_\" +", "                        \"getpayload_\" +", "T1"),
        M("prefix test sliced too short", col, "                    fiber_trace[:11] != \"get_payload\":", "                    fiber_trace[:10] != \"get_payload\":",
          ("T1", "T6")),
        M("beginCollect per component", col, "        block.add(SExpr(call))\n\n        block.add(self.__build_components())",
          "        for _ in self.program.get_loop_order().get_ranks():\n            block.add(SExpr(EMethod(EVar(\"Metrics\"), \"beginCollect\", [AJust(prefix)])))\n\n        block.add(self.__build_components())",
          "T4"),
        M("End node under another guard", "teaal/ir/flow_graph.py",
          "            self.graph.add_edge(MetricsNode(\"Start\"), metrics_chain[0])",
          "            if loop_order:\n                self.graph.add_edge(MetricsNode(\"Start\"), metrics_chain[0])", "T4"),
        M("query iterates leader-follower components only", col,
          "        for intersector in self.metrics.get_hardware().get_components(einsum,\n                                                                      IntersectorComponent):\n            isect_name",
          "        for intersector in self.metrics.get_hardware().get_components(einsum,\n                                                                      LeaderFollowerComponent):\n            isect_name",
          "T5"),
        M("intersector variable separator differs in query", col, "                        isect_name +\n                        \"_\" +",
          "                        isect_name +\n                        \"-\" +", "T5"),
        M("registration drops the iter conjunct", met,
          "                            if i == 1 and fiber_trace != \"iter\" and fiber_trace[:11] != \"get_payload\":",
          "                            if i == 1 and fiber_trace[:11] != \"get_payload\":", "T6"),
        M("consumption drops the get_payload conjunct", col,
          "            if binding[\"type\"] == \"payload\" and fiber_trace != \"iter\" and \\\n                    fiber_trace[:11] != \"get_payload\":",
          "            if binding[\"type\"] == \"payload\" and fiber_trace != \"iter\":", ("T6", "T1")),
        M("leader lookup takes the last match", met,
          "                            for binding in coiter.get_bindings()[einsum]:\n                                if binding[\"rank\"] == rank:\n                                    leader = binding[\"leader\"]\n                                    break",
          "                            for binding in coiter.get_bindings()[einsum]:\n                                if binding[\"rank\"] == rank:\n                                    leader = binding[\"leader\"]", "T7"),
        M("consumed trace looked up under the first factor", met,
          "                            traces.append(\n                                self.fiber_traces[rank][leader][True])",
          "                            traces.append(\n                                self.fiber_traces[rank][term[0].root_name()][True])", "T7"),
        M("sequencer file named by the final rank id", col,
          "                trace = self.metrics.get_hardware().get_prefix(einsum) + \\\n                    \"-\" + rank + \"-iter.csv\"",
          "                frank = self.program.get_partitioning().get_final_rank_id([rank], rank)\n                trace = self.metrics.get_hardware().get_prefix(einsum) + \\\n                    \"-\" + frank + \"-iter.csv\"",
          "T9"),
        M("expanded binding missing from the dump's view", cmp_,
          "                    self.tensor_bindings[einsum][tensor].append(new_binding)\n                    self.bindings[einsum].append(new_binding)",
          "                    self.tensor_bindings[einsum][tensor].append(new_binding)", "T8"),
        M("sequencer consumes the fiber trace", col, "                    \"-\" + rank + \"-iter.csv\"", "                    \"-\" + rank + \"-fiber.csv\"", "T3"),
    ]
