"""
C07 - tensor variable names tell the truth and inputs are never modified.

Decided (DESIGN.md section 3, C07): the compiler can emit a *write* only
against the output tensor
  W0 the notion "output tensor" is single-sourced in ir/equation.py
  W1 every populate (<<) and every in-place update targets a name whose
     provenance is the output tensor
  W2 the reference-returning API (getPayloadRef, iterRangeShapeRef) and the
     "ref" fiber suffix are emitted only for the output tensor
  W3 the write constructs are built only in teaal/trans/equation.py
Not decided: run-time rank ids of a named variable; snapshot equality of inputs.
"""

from __future__ import annotations

import ast
from typing import List, Optional, Set, Tuple

from sa import paths
from sa.db import DB, AnalysisError, FuncInfo, norm, walk_no_nested
from sa.report import Report
from sa.rules.c09 import analyse

REF_API = {"getPayloadRef", "iterRangeShapeRef"}


def _calls(e: ast.AST) -> List[str]:
    out = []
    cur = e
    while True:
        if isinstance(cur, ast.Call) and isinstance(cur.func, ast.Attribute):
            out.append(cur.func.attr)
            cur = cur.func.value
        elif isinstance(cur, ast.Attribute):
            cur = cur.value
        else:
            break
    return out


def output_tensor_expr(e: ast.AST, at: ast.AST, f: FuncInfo) -> Tuple[bool, str]:
    """Is ``e`` (evaluated at ``at``) the output tensor?  (yes, why)"""
    r = paths.resolve_flow(e, at, f.node)
    chain = _calls(r)
    if chain and chain[0] == "get_output":
        return True, "get_equation().get_output()"
    if isinstance(e, ast.Name):
        # first component of get_iter(...), used under a truthiness guard of that name
        for st, val in paths.defs_of(f.node, e.id):
            if isinstance(st, ast.Assign) and isinstance(st.targets[0], ast.Tuple) and val is not None \
                    and _calls(val)[:1] == ["get_iter"]:
                if isinstance(st.targets[0].elts[0], ast.Name) and st.targets[0].elts[0].id == e.id:
                    guarded = False
                    for t, pol in paths.guards(at, stop=f.node):
                        for a, p in paths.conjuncts(t, pol):
                            if isinstance(a, ast.Name) and a.id == e.id and p:
                                guarded = True
                    if guarded:
                        return True, "output component of get_iter(), under 'if %s'" % e.id
                    return False, "output component of get_iter() used without checking it is not None"
    return False, "not derived from the output tensor (%s)" % norm(r)[:80]


def name_from_output(e: ast.AST, at: ast.AST, f: FuncInfo) -> Tuple[bool, str]:
    """Is the string expression ``e`` a name of the output tensor / its fiber?"""
    # one step of local resolution keeps the tensor expression as written
    r = e
    if isinstance(e, ast.Name):
        v = paths.reaching_def(e.id, at, f.node)
        if v is not None:
            r, at = v, v
    # <T>.fiber_name() / <T>.tensor_name()
    if isinstance(r, ast.Call) and isinstance(r.func, ast.Attribute) and \
            r.func.attr in ("fiber_name", "tensor_name"):
        return output_tensor_expr(r.func.value, at, f)
    # <T>.root_name().lower() + "_ref"
    if isinstance(r, ast.BinOp) and isinstance(r.op, ast.Add) and isinstance(r.right, ast.Constant) \
            and r.right.value == "_ref":
        l = r.left
        if isinstance(l, ast.Call) and isinstance(l.func, ast.Attribute) and l.func.attr == "lower":
            l = l.func.value
        if isinstance(l, ast.Call) and isinstance(l.func, ast.Attribute) and l.func.attr == "root_name":
            return output_tensor_expr(l.func.value, at, f)
    return False, "name is not built from the output tensor (%s)" % norm(r)[:80]


def run(db: DB, rep: Report) -> None:
    rep.explanation = (
        "Provenance check of every construct that makes the emitted program write a tensor. All "
        "constructions of OLtLt() and of SIAssign in teaal/ are enumerated; the left operand of the "
        "populate EBinOp and the AVar target of an in-place update must be a name derived (by "
        "flow-sensitive local def-use) from get_equation().get_output() or from the output component "
        "of Equation.get_iter() under a not-None test. The method-name templates the builders can "
        "emit (from the abstract interpreter) are searched for the reference-returning API, which may "
        "be selected only under tensor.get_is_output() or called on get_output(). In ir/equation.py "
        "get_iter assigns its output result only under get_is_output(), and get_output() returns the "
        "tensor on which __build_tensors_trees set the flag.")
    rep.trusted += ["flow-sensitive reaching definitions (sa/paths.py)", "name templates of the C09 interpreter"]
    rep.assumptions += ["in-place HiFiber API calls on tensor variables (setRankIds) are applied to "
                        "temporaries / freshly bound names - aliasing is not decided"]

    # ---- W0 --------------------------------------------------------------------
    rep.rule("W0", "single source of 'output tensor' in ir/equation.py", 3)
    gi = db.func("teaal.ir.equation.Equation.get_iter")
    rets = [n for n in walk_no_nested(gi.node) if isinstance(n, ast.Return) and isinstance(n.value, ast.Tuple)]
    ok = False
    why = "get_iter does not return a tuple"
    if len(rets) == 1 and isinstance(rets[0].value.elts[0], ast.Name):
        out = rets[0].value.elts[0].id
        assigns = [st for st, val in paths.defs_of(gi.node, out)
                   if not (isinstance(val, ast.Constant) and val.value is None)]
        ok = bool(assigns)
        why = ""
        for st in assigns:
            g = [norm(a) for t, pol in paths.guards(st, stop=gi.node) for a, p in paths.conjuncts(t, pol) if p]
            if not any(x.endswith(".get_is_output()") for x in g):
                ok = False
                why = "'%s' is assigned at %s without a get_is_output() test" % (out, db.loc(st))
    rep.check("W0", ok, db.loc(gi.node), gi.short, "get_iter:output",
              "get_iter() hands out as 'output' only a tensor whose get_is_output() is true",
              "Equation.get_iter can return an input tensor as the output component: %s" % why)
    go = db.func("teaal.ir.equation.Equation.get_output")
    bt = db.func("teaal.ir.equation.Equation.__build_tensors_trees")
    r = [n for n in walk_no_nested(go.node) if isinstance(n, ast.Return)]
    first = len(r) == 1 and norm(r[0].value) == "self.es_tensors[0]"
    # in __build_tensors_trees the first append to es_tensors is the tensor set_is_output(True) was called on
    apps = [n for n in walk_no_nested(bt.node) if isinstance(n, ast.Call) and isinstance(n.func, ast.Attribute)
            and n.func.attr == "append" and norm(n.func.value) == "self.es_tensors"]
    apps.sort(key=lambda n: (n.lineno, n.col_offset))
    flagged = [n for n in walk_no_nested(bt.node) if isinstance(n, ast.Call) and isinstance(n.func, ast.Attribute)
               and n.func.attr == "set_is_output" and n.args and isinstance(n.args[0], ast.Constant)
               and n.args[0].value is True]
    # the first element of es_tensors: first element of the list literal it is
    # assigned, or - when that is empty - the argument of the first append
    inits = [n for n in walk_no_nested(bt.node) if isinstance(n, (ast.Assign, ast.AnnAssign)) and
             norm(n.targets[0] if isinstance(n, ast.Assign) else n.target) == "self.es_tensors"]
    first_at: Optional[ast.AST] = None
    first_el: Optional[ast.AST] = None
    shape = len(inits) == 1 and isinstance(inits[0].value, ast.List) and len(flagged) == 1 and \
        len(r) == 1
    if shape:
        if inits[0].value.elts:
            first_at, first_el = inits[0], inits[0].value.elts[0]
        elif apps:
            first_at, first_el = apps[0], apps[0].args[0]
        shape = first_el is not None and isinstance(first_el, ast.Name)
    ok = False
    if shape:
        ok = first and norm(flagged[0].func.value) == first_el.id and \
            not paths.guards(first_at, stop=bt.node) and \
            not any(isinstance(p, (ast.For, ast.While)) for p in _parents(first_at, bt.node))
        # and that tensor comes from the 'output' parse tree
        if ok:
            src = paths.flow_text(first_el, first_at, bt.node)
            ok = "find_data('output')" in src
    rep.check("W0", ok, db.loc(go.node), go.short, "get_output:flagged-tensor",
              "get_output() returns the tensor of the 'output' tree, flagged by set_is_output(True)",
              "Equation.get_output() no longer returns the tensor that __build_tensors_trees flags as "
              "the output (first element of es_tensors, from the 'output' parse tree)", decided=shape)
    # set_is_output(True) appears nowhere else except restoring saved flags
    others = []
    for f in db.functions.values():
        for n in walk_no_nested(f.node):
            if isinstance(n, ast.Call) and isinstance(n.func, ast.Attribute) and n.func.attr == "set_is_output" \
                    and n.args and isinstance(n.args[0], ast.Constant) and n.args[0].value is True and f is not bt:
                recv_ok, _ = output_tensor_expr(n.func.value, n, f)
                # Partitioner.unpartition re-flags the (output) tensor it was given after reset
                others.append((f, n, recv_ok))
    def is_output(e: ast.AST, at: ast.AST, g: FuncInfo, depth: int = 0) -> bool:
        if output_tensor_expr(e, at, g)[0]:
            return True
        if depth < 4 and isinstance(e, ast.Name) and e.id in g.call_params and \
                not [1 for st, _ in paths.defs_of(g.node, e.id)]:
            # a parameter (never re-assigned): every caller passes the output tensor
            idx = g.call_params.index(e.id)
            cs = db.callers().get(g.qualname, [])
            return bool(cs) and all(idx < len(c.args) and is_output(c.args[idx], c, h, depth + 1)
                                    for h, c in cs)
        return False
    for f, n, recv_ok in others:
        callers_ok = recv_ok or is_output(n.func.value, n, f)
        if False:
            pass
        rep.check("W0", callers_ok, db.loc(n), f.short, "set_is_output(True)@" + f.short,
                  "%s flags a tensor as output; it is the output tensor" % f.short,
                  "%s marks a tensor as the output that is not known to be the Einsum's output tensor; "
                  "writes (<<, +=, getPayloadRef) would then be emitted against an input" % f.short)

    # ---- W1 / W3 ----------------------------------------------------------------
    rep.rule("W1", "populate and in-place update target names derived from the output tensor", 3)
    rep.rule("W3", "write constructs are built only in teaal/trans/equation.py", 3)
    n_write = 0
    for f in db.functions.values():
        if f.module.name.startswith("teaal.hifiber"):
            continue
        for n in walk_no_nested(f.node):
            if not isinstance(n, ast.Call):
                continue
            ctor = norm(n.func)
            # populate operator as an argument
            has_ltlt = any(isinstance(a, ast.Call) and norm(a.func) == "OLtLt" for a in n.args)
            if has_ltlt:
                n_write += 1
                rep.check("W3", f.module.name == "teaal.trans.equation", db.loc(n), f.short,
                          "OLtLt@" + f.short, "populate operator constructed in %s" % f.module.name,
                          "a populate ('<<') is constructed outside teaal/trans/equation.py (%s)" % f.short)
                target = paths.resolve_flow(n.args[0], n, f.node, depth=1)
                ok, why = False, "unrecognised construct"
                recognised = isinstance(target, ast.Call) and norm(target.func) in ("AVar", "EVar") and \
                    bool(target.args)
                if ctor == "SIAssign":
                    if isinstance(target, ast.Call) and norm(target.func) == "AVar" and target.args:
                        ok, why = name_from_output(target.args[0], n, f)
                else:
                    # EBinOp(...) directly or through a helper taking (left, op, right)
                    if isinstance(target, ast.Call) and norm(target.func) == "EVar" and target.args:
                        ok, why = name_from_output(target.args[0], n, f)
                rep.check("W1", ok, db.loc(n), f.short, "populate:" + norm(target)[:60],
                          "'<<' target %s: %s" % (norm(target)[:50], why),
                          "the left side of an emitted populate ('<<') is %s: %s; an input tensor could "
                          "be written" % (norm(target)[:60], why), decided=recognised)
            elif ctor == "SIAssign" and len(n.args) == 3:
                tgt = paths.resolve_flow(n.args[0], n, f.node, depth=1)
                if isinstance(tgt, ast.Call) and norm(tgt.func) == "AVar":
                    n_write += 1
                    rep.check("W3", f.module.name == "teaal.trans.equation", db.loc(n), f.short,
                              "SIAssign(AVar)@" + f.short, "in-place update of a variable in %s" % f.module.name,
                              "an in-place update of a variable is constructed outside "
                              "teaal/trans/equation.py (%s)" % f.short)
                    ok, why = name_from_output(tgt.args[0], n, f)
                    rep.check("W1", ok, db.loc(n), f.short, "update:" + norm(tgt)[:60],
                              "in-place update target %s: %s" % (norm(tgt)[:50], why),
                              "the target of an emitted in-place update is %s: %s" % (norm(tgt)[:60], why))
                else:
                    # dictionary entry update (metrics / timestamps): target must be an AAccess
                    ok = isinstance(tgt, ast.Call) and norm(tgt.func) == "AAccess"
                    rep.check("W1", ok, db.loc(n), f.short, "dict-update:" + norm(n.args[0])[:60],
                              "in-place update of a dictionary entry (%s)" % norm(n.args[0])[:40],
                              "an in-place update targets %s, which is neither the output reference nor a "
                              "dictionary entry" % norm(tgt)[:60])
    if n_write < 3:
        raise AnalysisError("only %d tensor-write constructs found (floor 3)" % n_write)

    # ---- W2 --------------------------------------------------------------------
    rep.rule("W2", "reference-returning API and 'ref' suffix only for the output tensor", 3)
    pm, hm, it = analyse(db)
    _restore_rules(db, rep, hm)
    seen_api: Set[str] = set()
    for rec in hm.names.values():
        if rec["role"] != "method":
            continue
        names = {"".join(p for p in t if isinstance(p, str)) for t in rec["tmpls"]}
        refs = names & REF_API
        if not refs:
            continue
        seen_api |= refs
        node, f = rec["node"], rec["func"]
        # the receiver is the output, or the name was selected under get_is_output()
        ok, why = False, ""
        recv = node.args[0] if node.args else None
        if isinstance(recv, ast.Call) and norm(recv.func) == "EVar" and recv.args:
            ok, why = name_from_output(recv.args[0], node, f)
        if not ok:
            marg = node.args[1] if len(node.args) > 1 else None
            if isinstance(marg, ast.Name):
                sel = []
                for st, val in paths.defs_of(f.node, marg.id):
                    if isinstance(val, ast.Constant) and val.value in REF_API:
                        g = [(norm(a), p) for t, pol in paths.guards(st, stop=f.node)
                             for a, p in paths.conjuncts(t, pol)]
                        sel.append(any(x.endswith(".get_is_output()") and p for x, p in g))
                    elif isinstance(val, ast.IfExp):
                        # "ref" if <T>.get_is_output() else "plain"
                        for branch, pol in ((val.body, True), (val.orelse, False)):
                            if isinstance(branch, ast.Constant) and branch.value in REF_API:
                                g = [(norm(a), p) for a, p in paths.conjuncts(val.test, pol)]
                                sel.append(any(x.endswith(".get_is_output()") and p for x, p in g))
                # and the receiver's tensor is the one tested
                ok = bool(sel) and all(sel)
                why = "method name selected under get_is_output()" if ok else \
                    "the reference API name is chosen without testing get_is_output()"
        rep.check("W2", ok, db.loc(node), f.short, "ref-api:" + "/".join(sorted(refs)),
                  "%s emitted in %s: %s" % ("/".join(sorted(refs)), f.short, why),
                  "%s can be emitted for a tensor that is not the output: %s" % ("/".join(sorted(refs)), why))
    for api in sorted(REF_API - seen_api):
        raise AnalysisError("reference API %s is no longer emitted anywhere (anchor vanished)" % api)
    fn = db.func("teaal.ir.tensor.Tensor.fiber_name")
    refs = [n for n in walk_no_nested(fn.node) if isinstance(n, ast.Constant) and n.value in ("ref", "_ref")]
    ok = bool(refs)
    for r in refs:
        g = [(norm(a), p) for t, pol in paths.guards(r, stop=fn.node) for a, p in paths.conjuncts(t, pol)]
        if not any(x == "self.is_output" and p for x, p in g):
            ok = False
    rep.check("W2", ok, db.loc(fn.node), fn.short, "fiber_name:ref",
              "Tensor.fiber_name yields the 'ref' suffix only under self.is_output",
              "Tensor.fiber_name can yield the '_ref' name for a tensor that is not the output")


def _levels_rule(db: DB, rep: Report) -> None:
    """W7: flattenRanks(levels=) and its inverse unflattenRanks(levels=) are
    both given (number of ranks of the flattened group) - 1."""
    P = db.cls("teaal.trans.partitioner.Partitioner")
    sites: List[Tuple[str, ast.AST, FuncInfo, ast.AST]] = []      # (api, levels expr, function, at)
    for f in P.methods.values():
        lv = [n for n in walk_no_nested(f.node) if isinstance(n, ast.Call) and norm(n.func) == "AParam"
              and len(n.args) == 2 and isinstance(n.args[0], ast.Constant) and n.args[0].value == "levels"]
        if not lv:
            continue
        apis = {c.value for n in walk_no_nested(f.node) if isinstance(n, ast.Call) and norm(n.func) == "EMethod"
                for c in n.args[1:2] if isinstance(c, ast.Constant)}
        for n in lv:
            e = n.args[1]
            if isinstance(e, ast.Call) and norm(e.func) == "EInt" and e.args:
                e = e.args[0]
            if isinstance(e, ast.Name) and e.id in f.call_params and not (apis & {"unflattenRanks", "flattenRanks"}):
                # the builder shared by flattenRanks / mergeRanks: take the callers' expressions
                k = f.call_params.index(e.id)
                tk = 0
                for g in P.methods.values():
                    for c in walk_no_nested(g.node):
                        if isinstance(c, ast.Call) and isinstance(c.func, ast.Attribute) and \
                                c.func.attr == f.name and len(c.args) > k:
                            kind = c.args[tk].value if isinstance(c.args[tk], ast.Constant) else "?"
                            api = {"flatten": "flattenRanks", "merge": "mergeRanks"}.get(kind, "?")
                            sites.append((api, c.args[k], g, c))
            else:
                for api in sorted(apis & {"unflattenRanks", "flattenRanks", "mergeRanks"}):
                    sites.append((api, e, f, n))
    if not {"flattenRanks", "unflattenRanks"} <= {a for a, _, _, _ in sites}:
        raise AnalysisError("levels= arguments of flattenRanks / unflattenRanks not found in Partitioner")
    for api, e, f, at in sites:
        if api not in ("flattenRanks", "unflattenRanks"):
            continue
        r = paths.resolve_flow(e, at, f.node, depth=2)
        lens = [x for x in ast.walk(r) if isinstance(x, ast.Call) and norm(x.func) == "len" and x.args]
        form = isinstance(r, ast.BinOp) and isinstance(r.op, ast.Sub) and isinstance(r.right, ast.Constant) \
            and r.right.value == 1 and isinstance(r.left, ast.Call) and norm(r.left.func) == "len" and \
            len(r.left.args) == 1
        group_ok = False
        if form:
            g0 = r.left.args[0]
            t = db.type_of(g0, f)
            # the group is a sequence of rank names (not the list of partitioning specs)
            group_ok = bool(t) and t[0] in ("list", "tuple") and \
                (t[1] == ("str",) or (t[0] == "tuple" and all(x == ("str",) for x in t[1])))
            if not group_ok and isinstance(g0, ast.Name):
                # un-annotated loop variable narrowed by isinstance(<g>, tuple): a rank-name tuple
                group_ok = any(isinstance(t_, ast.Call) and norm(t_.func) == "isinstance" and
                               norm(t_.args[0]) == g0.id and pol
                               for t0, pol0 in paths.guards(at, stop=f.node)
                               for t_, pol in paths.conjuncts(t0, pol0)) and \
                    not any(isinstance(x, ast.Call) for x in ast.walk(g0))
        rep.check("W7", form and group_ok, db.loc(at), f.short, "levels:%s" % api,
                  "%s(levels=%s): number of ranks of the group minus one" % (api, norm(r)[:40]),
                  "%s is emitted with levels=%s, which is not (number of ranks of the flattened group) - 1: "
                  "a group of three or more ranks is only partly %s and the rank ids set afterwards name "
                  "more ranks than the tensor has" %
                  (api, norm(r)[:60], "flattened" if api == "flattenRanks" else "unflattened"),
                  decided=(bool(lens) or isinstance(r, ast.Constant)) and not (form and not group_ok and
                                                                               not any(isinstance(x, ast.Call) and x is not r.left
                                                                                       for x in ast.walk(r.left))))


RANK_CHANGERS = {"mergeRanks", "unflattenRanks", "flattenRanks", "splitUniform", "splitEqual",
                 "splitNonUniform"}


def _restore_rules(db: DB, rep: Report, hm) -> None:
    """W4-W6: the output is returned to its declared layout and every change of
    its rank structure is followed by a renaming of the rank ids."""
    # ---- W8: a swizzle is elided only when the tensor's variable name did not change ---------
    rep.rule("W8", "Header.make_swizzle emits the binding of the new name unless the name is unchanged", 1)
    ms = db.func("teaal.trans.header.Header.make_swizzle")
    empties = [n for n in walk_no_nested(ms.node) if isinstance(n, ast.Return) and n.value is not None and
               norm(n.value) in ("SBlock([])",)]
    if not empties:
        rep.undecided("W8", db.loc(ms.node), ms.short, "the elision (return of an empty block) was not found")
    for r in empties:
        atoms = [(a, p_) for t, pol in paths.guards(r, stop=ms.node) for a, p_ in paths.conjuncts(t, pol)]
        name_eq = False
        other = []
        for a, p_ in atoms:
            if isinstance(a, ast.Compare) and len(a.ops) == 1 and isinstance(a.ops[0], (ast.Eq, ast.NotEq)):
                sides = [paths.resolve_flow(x, a, ms.node, depth=2) for x in (a.left, a.comparators[0])]
                is_name = [isinstance(x, ast.Call) and isinstance(x.func, ast.Attribute) and
                           x.func.attr == "tensor_name" for x in sides]
                if all(is_name) and (isinstance(a.ops[0], ast.Eq) == p_):
                    name_eq = True
                    continue
                if any(isinstance(x, ast.Call) and isinstance(x.func, ast.Attribute) and
                       x.func.attr in ("get_ranks", "get_init_ranks") for x in sides):
                    other.append(norm(a))
        rep.check("W8", name_eq, db.loc(r), ms.short, "elision-guard",
                  "the swizzle is elided only under equality of tensor_name() before and after",
                  "Header.make_swizzle returns no statement under %s instead of 'the variable name is "
                  "unchanged': when the name changes although the rank order does not (a '_flat' suffix "
                  "dropped by a partitioning swizzle), later statements read a name that was never bound - "
                  "or re-read the stale tensor under the old one" % (other or [norm(a) for a, _ in atoms]),
                  decided=name_eq or bool(other))
    rep.rule("W7", "flattenRanks / unflattenRanks levels = ranks of the group - 1", 2)
    _levels_rule(db, rep)
    # ---- W5: the footer always restores the output ---------------------------------
    rep.rule("W5", "the footer un-partitions the output on every path", 1)
    mf = db.func("teaal.trans.footer.Footer.make_footer")

    def is_unpart(n):
        return isinstance(n, ast.Call) and isinstance(n.func, ast.Attribute) and n.func.attr == "unpartition"
    outs = paths.path_counts(mf.node.body, paths.make_pred(is_unpart))
    calls = [n for n in walk_no_nested(mf.node) if is_unpart(n)]
    arg_ok = bool(calls) and all(c.args and output_tensor_expr(c.args[0], c, mf)[0] for c in calls)
    def reaches_add(c) -> bool:
        if isinstance(c.parent, ast.Call) and isinstance(c.parent.func, ast.Attribute) and \
                c.parent.func.attr == "add":
            return True
        if isinstance(c.parent, ast.Assign) and isinstance(c.parent.targets[0], ast.Name):
            nm = c.parent.targets[0].id
            if any(isinstance(x, ast.Call) and isinstance(x.func, ast.Attribute) and x.func.attr == "add"
                   and any(isinstance(a, ast.Name) and a.id == nm for a in x.args)
                   for x in walk_no_nested(mf.node)):
                return True
            # `for stmt in (<nm>, ...): footer.add(stmt)`: added through a literal sequence
            for x in walk_no_nested(mf.node):
                if isinstance(x, ast.For) and isinstance(x.iter, (ast.Tuple, ast.List)) and \
                        isinstance(x.target, ast.Name) and \
                        any(isinstance(e, ast.Name) and e.id == nm for e in x.iter.elts) and \
                        any(isinstance(s, ast.Expr) and isinstance(s.value, ast.Call) and
                            isinstance(s.value.func, ast.Attribute) and s.value.func.attr == "add" and
                            any(isinstance(a, ast.Name) and a.id == x.target.id for a in s.value.args)
                            for s in x.body):
                    return True
            return False
        if isinstance(c.parent, ast.Return):
            return True
        return False
    added = all(reaches_add(c) for c in calls)
    rep.check("W5", all(cnt == 1 for cnt, k in outs if k != paths.RAISE) and arg_ok and added,
              db.loc(mf.node), mf.short, "footer:unpartition",
              "make_footer adds partitioner.unpartition(<output>) exactly once on every path",
              "Footer.make_footer has a path on which the output tensor is not un-partitioned (call counts "
              "%s): the result is left partitioned / flattened under a name that claims the declared ranks" %
              sorted(outs))

    # ---- W10: the variable a tensor is bound to is named by Tensor.tensor_name() -------------
    # (the method knows about the '_flat' suffix of a flattened input that keeps its user's
    # variable untouched; a name assembled by hand from root_name() and the ranks does not)
    rep.rule("W10", "a tensor variable named after a Tensor object is spelled by its tensor_name()", 4)
    for f10 in db.all_functions(["teaal.trans."]):
        for n in walk_no_nested(f10.node):
            if not (isinstance(n, ast.Call) and isinstance(n.func, ast.Name) and n.func.id in ("AVar", "EVar")
                    and len(n.args) == 1):
                continue
            txt = paths.flow_text(n.args[0], n, f10.node)
            if ".tensor_name()" in txt:
                rep.check("W10", True, db.loc(n), f10.short, "tensor-var:" + norm(n)[:50],
                          "%s is named by tensor_name()" % norm(n)[:40], "")
            elif ".root_name()" in txt and ("'_'" in txt or '"_"' in txt) and ".join(" in txt and \
                    ("get_ranks()" in txt or "get_init_ranks()" in txt):
                rep.check("W10", False, db.loc(n), f10.short, "tensor-var:" + norm(n)[:50],
                          "", "%s names a tensor variable by hand (%s) instead of asking the Tensor for its "
                          "tensor_name(): the '_flat' suffix that keeps a flattened copy apart from the "
                          "user's input is lost, so the emitted assignment rebinds the input variable "
                          "itself and a later Einsum that reads the input gets the flattened tensor" %
                          (f10.short, txt[:80]))

    # ---- W9: unpartition gives up early only when it has planned nothing to undo ------------
    rep.rule("W9", "Partitioner.unpartition returns without emitting anything only when the planned list of "
             "transformations is empty", 1)
    up9 = db.func("teaal.trans.partitioner.Partitioner.unpartition")
    rets9 = [n for n in walk_no_nested(up9.node) if isinstance(n, ast.Return)]
    last9 = up9.node.body[-1]
    n_w9 = 0
    for r9 in rets9:
        if r9 is last9:
            continue
        n_w9 += 1
        # the tests of the enclosing ifs only (an earlier exit is its own instance)
        encl9, c9 = [], r9
        for p9 in paths.parents(r9, up9.node):
            if isinstance(p9, ast.If):
                encl9.append((p9.test, c9 in p9.body))
            c9 = p9
        atoms9 = [(a, p_) for t, pol in encl9 for a, p_ in paths.conjuncts(t, pol)]
        plan_empty = [a for a, p_ in atoms9 if isinstance(a, ast.Name) and not p_]
        other9 = [(a, p_) for a, p_ in atoms9 if not (isinstance(a, ast.Name) and not p_)]
        asks = [norm(a)[:60] for a, _ in other9 if any(isinstance(x, ast.Call) for x in ast.walk(a))]
        rep.check("W9", bool(plan_empty) and not other9, db.loc(r9), up9.short, "early-return",
                  "early return under 'not %s' only" % (plan_empty[0].id if plan_empty else "?"),
                  "Partitioner.unpartition returns before emitting anything under %s, not because the list of "
                  "transformations to undo is empty: the swizzle of the output back into its declared rank "
                  "order (and any merge) is skipped, and the result keeps the loop-order layout under a "
                  "name that the next Einsum does not read" %
                  [("" if p_ else "not ") + norm(a)[:60] for a, p_ in atoms9],
                  decided=(bool(plan_empty) and not other9) or bool(asks))
    if n_w9 < 1:
        rep.undecided("W9", db.loc(up9.node), up9.short, "no early return found in Partitioner.unpartition")

    # ---- W4: rank-structure changes are followed by a rank-id renaming ----------------
    rep.rule("W4", "every rank-structure change in unpartition schedules setRankIds", 2)
    up = db.func("teaal.trans.partitioner.Partitioner.unpartition")
    fn = up.node
    flags = set()
    for n in walk_no_nested(fn):
        if isinstance(n, ast.If) and isinstance(n.test, ast.Name) and \
                any(isinstance(x, ast.Call) and norm(x.func).endswith("build_set_rank_ids")
                    for s_ in n.body for x in ast.walk(s_)):
            flags.add(n.test.id)
    if len(flags) != 1:
        raise AnalysisError("rename flag of Partitioner.unpartition not found (%s)" % sorted(flags))
    flag = next(iter(flags))
    # statements that emit a rank-structure change: EMethod(..., <changer>, ...) or a helper that does
    helper_changers = set()
    for g in db.cls("teaal.trans.partitioner.Partitioner").methods.values():
        for rec in hm.names.values():
            if rec["role"] == "method" and rec["func"] is g and g is not up:
                if {"".join(p for p in t if isinstance(p, str)) for t in rec["tmpls"]} & RANK_CHANGERS:
                    helper_changers.add(g.name)
    sites = []
    for rec in hm.names.values():
        if rec["role"] == "method" and rec["func"] is up and \
                {"".join(p for p in t if isinstance(p, str)) for t in rec["tmpls"]} & RANK_CHANGERS:
            sites.append(rec["node"])
    for n in walk_no_nested(fn):
        if isinstance(n, ast.Call) and isinstance(n.func, ast.Attribute) and n.func.attr in helper_changers \
                and norm(n.func.value) == "self":
            sites.append(n)
    if len(sites) < 2:
        raise AnalysisError("fewer than 2 rank-structure changes found in unpartition (%d)" % len(sites))

    def sets_flag(n):
        return isinstance(n, ast.Assign) and isinstance(n.targets[0], ast.Name) and n.targets[0].id == flag \
            and isinstance(n.value, ast.Constant) and n.value.value is True
    for site in sites:
        st = site
        while not isinstance(st, ast.stmt):
            st = st.parent
        # after the site, on the way out of the loop iteration, the flag is set
        ok = False
        cur = st
        while cur is not None and cur is not fn and not isinstance(cur, (ast.For, ast.While)):
            _, _, blk = paths.block_of(cur)
            after = False
            for s_ in blk:
                if s_ is cur:
                    after = True
                    continue
                if after and sets_flag(s_):
                    ok = True
            cur = cur.parent if isinstance(cur.parent, ast.stmt) else None
        rep.check("W4", ok, db.loc(site), up.short, "rename-after:" + norm(site)[:60],
                  "rank-structure change %s is followed by '%s = True'" % (norm(site)[:50], flag),
                  "Partitioner.unpartition emits %s, which changes the ranks of the tensor, without scheduling "
                  "the setRankIds that follows (flag '%s' is not set after it on this path): the variable is "
                  "bound under a name whose rank ids the tensor does not carry" % (norm(site)[:60], flag))

    # ---- W6: tests on the partition suffix use the suffix, not the rank name -----------
    rep.rule("W6", "partition-suffix tests are applied to the suffix of split_rank_name", 2)
    for f in db.all_functions(["teaal.trans.", "teaal.ir."]):
        for n in walk_no_nested(f.node):
            base = None
            if isinstance(n, ast.Compare) and isinstance(n.left, ast.Subscript) and \
                    isinstance(n.left.slice, ast.UnaryOp) and isinstance(n.comparators[0], ast.Constant) and \
                    n.comparators[0].value in ("I", "0", "1"):
                base = n.left.value
            elif isinstance(n, ast.Call) and isinstance(n.func, ast.Attribute) and n.func.attr == "endswith" \
                    and len(n.args) == 1 and isinstance(n.args[0], ast.Constant) and \
                    n.args[0].value in ("I", "0", "1"):
                # the same test spelled <x>.endswith("I")
                base = n.func.value
            if base is not None:
                ok = False
                if isinstance(base, ast.Name):
                    for st, v in paths.defs_of(f.node, base.id):
                        if isinstance(st, ast.Assign) and isinstance(st.targets[0], ast.Tuple) and v is not None \
                                and "split_rank_name" in paths.called_names([v]) and \
                                len(st.targets[0].elts) == 2 and isinstance(st.targets[0].elts[1], ast.Name) and \
                                st.targets[0].elts[1].id == base.id:
                            ok = True
                # an inline split: the same condition also establishes that the name without its
                # last character is a rank of its own (<x>[:-1] in <ranks>)
                par6 = getattr(n, "parent", None)
                sibs = list(par6.values) if isinstance(par6, ast.BoolOp) else []
                sibs += [t for t, _ in paths.guards(n, stop=f.node)]
                if any(isinstance(c6, ast.Compare) and isinstance(c6.ops[0], (ast.In, ast.NotIn)) and
                       norm(c6.left) == norm(base) + "[:-1]" for sb in sibs for c6 in ast.walk(sb)):
                    ok = True
                rep.check("W6", ok, db.loc(n), f.short, "suffix-test:" + norm(n),
                          "%s tests the suffix component of split_rank_name" % norm(n),
                          "%s tests the last character of %s, which is not the partition suffix returned by "
                          "Partitioning.split_rank_name: a user rank whose own name ends in that character is "
                          "mistaken for a partition level / intermediate rank" % (f.short, norm(base)))


def _parents(n: ast.AST, stop: ast.AST):
    p = getattr(n, "parent", None)
    while p is not None and p is not stop:
        yield p
        p = getattr(p, "parent", None)


def mutants(db: DB):
    from sa.selftest import M
    eq, hd, ie = "teaal/trans/equation.py", "teaal/trans/header.py", "teaal/ir/equation.py"
    pt = "teaal/trans/partitioner.py"
    return [
        M("fromFiber target named by hand (C07-u3)", hd,
          "        tensor_name = AVar(tensor.tensor_name())",
          "        tensor_name = AVar(tensor.root_name() + \"_\" + \"\".join(tensor.get_ranks()))", "W10"),
        M("unpartition gives up when the Einsum has no partitioning (C05-u3)", pt,
          "        # Build a list of the transformations that the tensor will go through\n        trans: List[",
          "        if not part_ir.get_all_parts():\n            return block\n\n        # Build a list of the transformations that the tensor will go through\n        trans: List[", "W9"),
        M("swizzle elided when the rank order is unchanged", "teaal/trans/header.py",
          "        if old_name == new_name:", "        if old_name == new_name or tensor.get_ranks() == tensor.get_init_ranks():", "W8"),
        M("temporary ranks recognised by endswith on the rank name", "teaal/trans/partitioner.py",
          "                    if suffix and suffix[-1] == \"I\":", "                    if info[0].endswith(\"I\"):", "W6"),
        M("unflatten levels from the partitioning spec", pt,
          "                    args.append(AParam(\"levels\", EInt(len(info) - 1)))",
          "                    args.append(AParam(\"levels\", EInt(len(part_ir.get_part_spec(info)))))", "W7"),
        M("flatten levels off by one", pt,
          "        assign = self.__build_flatten(\"flatten\", i, len(ranks) - 1, \"tuple\")",
          "        assign = self.__build_flatten(\"flatten\", i, len(ranks), \"tuple\")", "W7"),
        M("populate operands swapped", eq,
          "            expr = Equation.__add_operator(\n                EVar(output.fiber_name()), OLtLt(), expr)",
          "            expr = Equation.__add_operator(\n                expr, OLtLt(), EVar(output.fiber_name()))", "W1"),
        M("populate into an input fiber", eq, "                EVar(output.fiber_name()), OLtLt(), expr)",
          "                EVar(inputs[0][0].fiber_name()), OLtLt(), expr)", "W1"),
        M("update targets an input", eq,
          "        out_name = self.program.get_equation().get_output().root_name().lower() + \"_ref\"",
          "        out_name = self.program.get_equation().get_tensors()[-1].root_name().lower() + \"_ref\"", "W1"),
        M("getPayloadRef for every tensor", hd,
          "        if tensor.get_is_output():\n            func = \"getPayloadRef\"\n        else:\n            func = \"getPayload\"",
          "        func = \"getPayloadRef\"", "W2"),
        M("getPayloadRef under the wrong test", hd, "        if tensor.get_is_output():\n            func = \"getPayloadRef\"",
          "        if not tensor.get_is_output():\n            func = \"getPayloadRef\"", "W2"),
        M("ref suffix for inputs", "teaal/ir/tensor.py", "        elif self.is_output:\n            return stub + \"ref\"",
          "        elif self.iter_ptr:\n            return stub + \"ref\"", "W2"),
        M("get_iter returns any tensor as output", ie, "            if tensor.get_is_output():\n                output = tensor\n                continue",
          "            if output is None:\n                output = tensor\n                continue", "W0"),
        M("get_output returns the last tensor", ie, "        return self.es_tensors[0]", "        return self.es_tensors[-1]", "W0"),
        M("populate built in the header", hd, "        call = EMethod(EVar(tensor.fiber_name()), func, args)\n",
          "        call = EMethod(EVar(tensor.fiber_name()), func, args)\n        if self.metrics is None and not args:\n            call = EBinOp(EVar(tensor.fiber_name()), OLtLt(), call)\n",
          ("W3", "W1")),
        M("unflatten no longer schedules setRankIds", "teaal/trans/partitioner.py",
          "                    block.add(SAssign(AVar(next_tmp), call))\n\n                tensor.update_ranks(ranks)\n                rename_ranks = True",
          "                    block.add(SAssign(AVar(next_tmp), call))\n\n                tensor.update_ranks(ranks)\n                rename_ranks = len(info) == 1",
          "W4"),
        M("footer skips unpartition when the name looks final", "teaal/trans/footer.py",
          "        footer.add(partitioner.unpartition(output))",
          "        if output.tensor_name() != output.root_name() + \"_\" + \"\".join(output.get_init_ranks()):\n            footer.add(partitioner.unpartition(output))",
          "W5"),
        M("intermediate ranks recognised by the rank name", "teaal/trans/partitioner.py",
          "                    if suffix and suffix[-1] == \"I\":", "                    if info[0][-1] == \"I\":", "W6"),
        M("benign: output bound to a local first", eq,
          "        out_name = self.program.get_equation().get_output().root_name().lower() + \"_ref\"",
          "        out_tensor = self.program.get_equation().get_output()\n        out_name = out_tensor.root_name().lower() + \"_ref\"",
          (), benign=True),
    ]
