"""
Reporting: rule instances, obligations, violations, known findings, evidence.

Exit codes (see DESIGN.md 2.8)
  0  property clause held on everything analysed (known findings printed)
  1  VIOLATION property=<id> replay=<path>
  2  ANALYSIS-ERROR (the checker could not decide: anchor vanished, floor not
     met, self-test failed, parse error)
"""

from __future__ import annotations

import json
import os
import time
from typing import Any, Dict, List, Optional

VERIF = os.path.dirname(os.path.dirname(os.path.abspath(__file__)))
EVIDENCE_DIR = os.path.join(VERIF, "evidence")
REPLAY_DIR = os.path.join(EVIDENCE_DIR, "replay")
KNOWN = os.path.join(VERIF, "known_findings.json")


class Violation:
    def __init__(self, rule: str, where: str, func: str, construct: str, message: str,
                 extra: Optional[Dict[str, Any]] = None):
        self.rule = rule
        self.where = where          # file:line
        self.func = func            # Class.method
        self.construct = construct  # normalised text of the offending construct
        self.message = message
        self.extra = extra or {}

    def key(self) -> tuple:
        return (self.rule, self.func, self.construct)

    def to_json(self, prop: str) -> Dict[str, Any]:
        d = {"property": prop, "rule": self.rule, "where": self.where, "function": self.func,
             "construct": self.construct, "message": self.message}
        d.update(self.extra)
        return d


class Report:
    """Collects what one property check analysed and found."""

    def __init__(self, prop: str, tier: str, seed: int):
        self.prop = prop
        self.tier = tier
        self.seed = seed
        self.t0 = time.time()
        self.rules: Dict[str, Dict[str, Any]] = {}
        self.violations: List[Violation] = []
        self.assumptions: List[str] = []
        self.trusted: List[str] = []
        self.notes: List[str] = []
        self.explanation = ""
        self.extra: Dict[str, Any] = {}
        self.digest = ""
        self.undecided_list: List[Dict[str, Any]] = []

    # -- rule instances ----------------------------------------------------
    def rule(self, rid: str, desc: str, floor: int = 1) -> None:
        self.rules.setdefault(rid, {"desc": desc, "floor": floor, "instances": [],
                                    "ok": 0, "bad": 0})

    def instance(self, rid: str, where: str, what: str, ok: bool = True) -> None:
        r = self.rules[rid]
        r["instances"].append({"where": where, "what": what, "ok": ok})
        if ok:
            r["ok"] += 1
        else:
            r["bad"] += 1

    def violation(self, rid: str, where: str, func: str, construct: str, message: str,
                  **extra: Any) -> None:
        self.violations.append(Violation(rid, where, func, construct, message, extra))

    def check(self, rid: str, ok: bool, where: str, func: str, construct: str,
              what: str, message: str = "", decided: bool = True, **extra: Any) -> bool:
        """Record one obligation; a failed one is a violation - unless the rule
        says it could not recognise the code shape it reasons about
        (``decided=False``): then the obligation is *undecided*, which makes
        the run an ANALYSIS-ERROR (exit 2), never a VIOLATION."""
        if not ok and not decided:
            self.undecided(rid, where, func, message or what)
            return False
        self.instance(rid, where, what, ok)
        if not ok:
            self.violation(rid, where, func, construct, message or what, **extra)
        return ok

    def undecided(self, rid: str, where: str, func: str, message: str) -> None:
        self.rules.setdefault(rid, {"desc": rid, "floor": 0, "instances": [], "ok": 0, "bad": 0})
        self.undecided_list.append({"rule": rid, "where": where, "function": func, "message": message})

    # -- finish ------------------------------------------------------------
    def floors(self) -> List[str]:
        out = []
        for rid, r in self.rules.items():
            if len(r["instances"]) < r["floor"]:
                out.append("rule %s matched %d instances, floor is %d (%s)" %
                           (rid, len(r["instances"]), r["floor"], r["desc"]))
        return out


def load_known() -> List[Dict[str, Any]]:
    if not os.path.exists(KNOWN):
        return []
    with open(KNOWN) as fh:
        return json.load(fh)


def finish(rep: Report, write: bool = True) -> int:
    """Print the summary, write evidence, return the exit code."""
    known = [k for k in load_known() if k.get("property") == rep.prop]
    open_known = [k for k in known if k.get("status") == "open"]
    unlisted: List[Violation] = []
    matched: List[Dict[str, Any]] = []
    for v in rep.violations:
        hit = None
        for k in open_known:
            if k.get("rule") == v.rule and k.get("function") == v.func and \
                    k.get("construct") == v.construct:
                hit = k
                break
        if hit is not None:
            if hit not in matched:
                matched.append(hit)
        else:
            unlisted.append(v)

    n_inst = sum(len(r["instances"]) for r in rep.rules.values())
    n_ok = sum(r["ok"] for r in rep.rules.values())
    print("property %s tier=%s seed=%d" % (rep.prop, rep.tier, rep.seed))
    for rid, r in rep.rules.items():
        print("  rule %-4s %3d instances (%d ok, %d failed, floor %d)  %s" %
              (rid, len(r["instances"]), r["ok"], r["bad"], r["floor"], r["desc"]))
    for n in rep.notes:
        print("  note: " + n)

    floor_errs = rep.floors()
    code = 0
    for k in matched:
        print("KNOWN-FINDING: property=%s rule=%s %s: %s" %
              (rep.prop, k.get("rule"), k.get("function"), k.get("what")))
    replay_paths = []
    if unlisted:
        code = 1
        os.makedirs(REPLAY_DIR, exist_ok=True)
        for i, v in enumerate(unlisted):
            path = os.path.join(REPLAY_DIR, "%s-%d.json" % (rep.prop, i))
            if write:
                with open(path, "w") as fh:
                    json.dump(v.to_json(rep.prop), fh, indent=1)
            replay_paths.append(path)
            print("  %s: rule %s in %s: %s\n      construct: %s" %
                  (v.where, v.rule, v.func, v.message, v.construct))
            print("VIOLATION property=%s replay=%s" % (rep.prop, path))
    for u in rep.undecided_list:
        print("  %s: rule %s in %s cannot decide: %s" % (u["where"], u["rule"], u["function"], u["message"]))
    if (floor_errs or rep.undecided_list) and code == 0:
        for e in floor_errs:
            print("ANALYSIS-ERROR: " + e)
        for u in rep.undecided_list:
            print("ANALYSIS-ERROR: rule %s cannot decide at %s" % (u["rule"], u["where"]))
        code = 2

    samples: List[Any] = []
    for rid, r in rep.rules.items():
        for inst in r["instances"][:3]:
            samples.append({"rule": rid, "where": inst["where"], "what": inst["what"],
                            "ok": inst["ok"]})
    distinct = len({(rid, i["where"], i["what"]) for rid, r in rep.rules.items()
                    for i in r["instances"]})
    cov: Dict[str, Any] = {
        "explanation": rep.explanation,
        "evaluations": n_inst,
        "distinct_nontrivial": distinct,
        "rule": "one evaluation = one rule instance (a syntactic site, path, call-graph pair or "
                "abstract-interpretation obligation found in /repo's current sources); distinct = "
                "distinct (rule, location, instance text) triples; none are vacuous because each "
                "rule has a floor on its instance count",
        "obligations": n_inst,
        "discharged": n_ok,
        "samples": samples,
        "trusted_base": rep.trusted,
        "exhaustive": True,
        "rules": {rid: {"desc": r["desc"], "instances": len(r["instances"]), "ok": r["ok"],
                        "failed": r["bad"], "floor": r["floor"]}
                  for rid, r in rep.rules.items()},
        "source_digest": rep.digest,
        "known_findings_matched": [k.get("what") for k in matched],
        "floor_errors": floor_errs,
        "undecided": rep.undecided_list,
    }
    cov.update(rep.extra)
    ev = {
        "property_id": rep.prop,
        "tier": rep.tier,
        "seed": rep.seed,
        "level": "other",
        "coverage": cov,
        "assumptions": rep.assumptions,
        "wall_s": round(time.time() - rep.t0, 3),
        "violations": len(unlisted),
    }
    if write:
        os.makedirs(EVIDENCE_DIR, exist_ok=True)
        with open(os.path.join(EVIDENCE_DIR, rep.prop + ".json"), "w") as fh:
            json.dump(ev, fh, indent=1, sort_keys=True)
            fh.write("\n")
    print("  %d rule instances, %d discharged, %d violations (%d known), %.2fs -> exit %d" %
          (n_inst, n_ok, len(rep.violations), len(rep.violations) - len(unlisted),
           time.time() - rep.t0, code))
    return code
