"""
Positive fixtures for rules whose expected instance count on /repo is zero
(a rule that can never match passes vacuously forever).  Each fixture is a
tiny source text on which the rule's matcher must fire; run on every setup
and by the rules themselves.
"""

from __future__ import annotations

from typing import Callable, List, Tuple

_FIXTURES: List[Tuple[str, Callable[[], bool]]] = []


def fixture(name: str):
    def deco(fn):
        _FIXTURES.append((name, fn))
        return fn
    return deco


def run() -> List[str]:
    # importing the rule modules registers their fixtures
    import importlib
    from sa.check import available
    for pid in available():
        importlib.import_module("sa.rules." + pid.lower())
    errs = []
    for name, fn in _FIXTURES:
        try:
            if not fn():
                errs.append("%s did not match its positive example" % name)
        except Exception as e:  # pragma: no cover
            errs.append("%s crashed: %r" % (name, e))
    print("fixtures: %d run, %d failed" % (len(_FIXTURES), len(errs)))
    return errs
